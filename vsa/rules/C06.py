"""C06 Predicates partition rows consistently under three-valued logic — structural clauses.

Decides: (a) T9 completeness of the WHERE-pushdown table-reference walker: a conjunct may be pushed
to one table's scan only if every column reference in it was seen, so a variant with expression
children must be visited or answered conservatively (`false` = complex, do not push down);
(b) T8 agreement of every SELECT-side function that turns an evaluated predicate into keep/drop:
the same per-variant truthiness table (bool / non-zero / false / error).
Does NOT decide that AND/OR/NOT implement Kleene logic, LIKE/BETWEEN semantics.
The truthiness agreement also covers the inline keep/drop matches of the WHERE pipeline (scan-level filters,
zero-copy filters, their parallel closures, the post-join filter), discovered from the code.  The WHERE pre-processing is also covered: (fold) optimize_expression folds an expression to a literal only when every
optimized child was tested to be a literal (a NULL column operand must keep a NULL result); (exact) the columnar
predicate extractor accepts an expression only on paths that emit a predicate for it (it is the only filter of the
ungrouped columnar aggregate path); (range) the C02 bound/flag pairing rule of the index range extractor; (where) no
result path forgets the predicate: from execute_with_ctes downwards (callees that receive the same stmt and whose rows
are returned) every path to a successful return hands stmt.where_clause to some function or passes a branch on which it
was found absent - necessary, not sufficient: that the receiving function filters with it is decided by the other rules.
"""
from ..engine.facts import callee_name, callee_path
from ..engine.tables import enum_switches, switch_arm_regions
from ..engine.cfg import op_const
from .truthiness import truthiness_table, SV

UNITS = {'vibesql_executor', 'vibesql_types', 'vibesql_ast', 'vibesql_catalog', 'vibesql_storage'}
EX = 'vibesql_executor::'
EXPR = 'vibesql_ast::expression::Expression'
WALKER = EX + 'optimizer::where_pushdown::table_refs::extract_tables_recursive_branch'

# SELECT-side truthiness sites (frozen; the first is the reference table)
TRUTHY = [EX + 'select::filter::is_truthy_combined', EX + 'select::filter::is_truthy_basic',
          EX + "select::iterator::filter::FilterIterator::<'a, I>::is_truthy", EX + 'select::vectorized::predicate::is_truthy']


def expr_children(prog, adt_path):
    """{variant: [field names whose type contains Expression / SelectStmt]}"""
    adt = prog.adt(adt_path)
    out = {}
    for v in adt['variants']:
        kids = []
        for f in v['fields']:
            if any(a.endswith('::Expression') or a.endswith('::SelectStmt') or a.endswith('::CaseWhen') or a.endswith('::WindowSpec')
                   or a.endswith('::WindowFunctionSpec') for a in f['adts']):
                kids.append(f['name'])
        out[v['name']] = kids
    return out


def run(ctx):
    prog = ctx.prog
    # ---------------------------------------------------------------- (a) walker completeness
    ctx.rule('C06.T9', 'extract_tables_recursive_branch: every Expression variant that has expression children is handled by an arm that '
             'recurses (directly or in a closure) or returns the conservative `false`; a catch-all arm returning `true` may only cover '
             'variants without expression children')
    w = ctx.fn(WALKER)
    kids = expr_children(prog, EXPR)
    ctx.floor('Expression variants with expression children', sum(1 for k in kids.values() if k), 15)
    sw = max(enum_switches(prog, w, EXPR), key=lambda s: len(s['arms']))
    regs = switch_arm_regions(w, sw)

    def region_recurses(reg):
        for i, t in w.calls():
            if i in reg and callee_path(t) == w.path:
                return True
        for b in reg:
            for s in w.blocks[b]['s']:
                if 'd' in s and s['v']['r'] == 'agg' and s['v'].get('kind') == 'closure':
                    cf = prog.fns.get(s['v']['def'])
                    stack = [cf] if cf else []
                    seen = set()
                    while stack:
                        c = stack.pop()
                        if c.path in seen:
                            continue
                        seen.add(c.path)
                        for _, t in c.calls():
                            if callee_path(t) == w.path:
                                return True
                        for cc in prog.children(c):
                            if cc.path.startswith(c.path):
                                stack.append(cc)
        return False

    def region_const_result(reg):
        vals = set()
        for b in reg:
            for s in w.blocks[b]['s']:
                if 'd' in s and s['d'][0] == 0 and not s['d'][1] and s['v']['r'] == 'use':
                    c = op_const(s['v']['a'])
                    if c in (0, 1):
                        vals.add(c)
        return vals
    lumped = []
    for v, ks in kids.items():
        explicit = v in sw['arms']
        reg = regs[v] if explicit else regs.get('_', set())
        if not ks:
            continue
        rec = region_recurses(reg)
        cons = region_const_result(reg)
        ctx.instance(f'T9/{v}', {'rule': 'C06.T9', 'variant': v, 'children': ks, 'explicit_arm': explicit, 'recurses': rec, 'const_result': sorted(cons)})
        if rec or cons == {0}:
            continue
        if not explicit:
            lumped.append(v)
        else:
            ctx.finding(f'T9/{v}', f'walker arm for Expression::{v} neither visits its children {ks} nor answers `false`', w.loc)
    if lumped:
        ctx.finding('T9/wildcard', f'the catch-all arm of extract_tables_recursive_branch answers `true` (push-down allowed) for variants with '
                    f'expression children it never visits: {sorted(lumped)}', w.loc, {'variants': sorted(lumped)})

    # ---------------------------------------------------------------- (b) truthiness agreement
    ctx.rule('C06.T8', 'all SELECT-side keep/drop functions have the same per-variant truthiness table as select::filter::is_truthy_combined')
    ref = truthiness_table(prog, ctx.fn(TRUTHY[0]))
    ctx.require(ref is not None and ref.get('Boolean') == 'bool' and ref.get('Null') == 'false', f'reference truthiness table not recognised: {ref}')
    ctx.extra['reference_truthiness'] = ref
    for nm in TRUTHY:
        f = ctx.fn(nm)
        t = truthiness_table(prog, f)
        ctx.instance(f'T8/{nm}', {'rule': 'C06.T8', 'fn': nm, 'table': t})
        ctx.require(t is not None, f'{nm}: no match on SqlValue found')
        diff = {v: (t[v], ref[v]) for v in ref if t[v] != ref[v]}
        if diff:
            ctx.finding(f'T8/{nm}', f'{nm} disagrees with the reference truthiness table on {diff}', f.loc, {'diff': diff})
    # inline keep/drop matches of the WHERE pipeline (scan-level filters, zero-copy filters, their parallel closures, post-join filter):
    # discovered, compared on the classes that do not depend on the control-flow idiom (error / non-zero / by value)
    INLINE_SCOPE = ('vibesql_executor::select::scan::', 'vibesql_executor::select::filter::', 'vibesql_executor::select::iterator::filter',
                    'vibesql_executor::select::join::apply_post_join_filter')
    ninl = 0
    for f in sorted(prog.fns.values(), key=lambda f: f.nice):
        if f.unit != 'vibesql_executor' or f.dk == 'Promoted' or f.nice in TRUTHY or not f.nice.startswith(INLINE_SCOPE):
            continue
        if '/tests' in f.file or '::tests::' in f.nice or f.file.endswith('tests.rs'):
            continue
        try:
            t = truthiness_table(prog, f)
        except Exception:
            t = None
        if not t or t.get('Boolean') != 'bool':
            continue
        if sum(1 for v in t.values() if v == 'other') > 4:
            continue            # a match on SqlValue that is not a keep/drop decision (name derivation etc.)
        ninl += 1
        diff = {v: (t[v], ref[v]) for v in ref if any((t[v] == c) != (ref[v] == c) for c in ('error', 'nonzero', 'bool'))}
        ctx.instance(f'T8/inline/{f.nice}', {'rule': 'C06.T8', 'fn': f.nice, 'loc': f.loc, 'differences': diff})
        if diff:
            ctx.finding(f'T8/inline/{f.nice}', f'{f.nice} decides keep/drop of a WHERE result differently from the reference table on {diff}: the same '
                        'predicate keeps different rows depending on which stage of the plan evaluates it', f.loc, {'diff': diff})
    ctx.floor('C06.T8 inline keep/drop matches in the WHERE pipeline', ninl, 5)
    # any other function named *truthy* in the executor must be in the frozen list
    others = [f.nice for f in prog.fns.values() if f.unit == 'vibesql_executor' and 'truthy' in f.nice.rsplit('::', 1)[-1]
              and not f.is_closure() and f.dk != 'Promoted' and f.nice not in TRUTHY]
    for o in others:
        ctx.finding(f'T8/unlisted/{o}', f'new truthiness function {o} is not in the agreement table', prog.by_nice[o][0].loc)


    extra_rules(ctx)


def extra_rules(ctx):
    import re
    from ..engine.symexpr import Sym
    from ..engine.cfg import cfg
    from ..engine.paths import search
    from . import shared
    prog = ctx.prog
    # ---------------------------------------------------------------- (fold) constant folding only over literal children
    ctx.rule('C06.fold', 'optimizer::expressions::optimize_expression: a block that builds a new Expression::Literal as the result is decided by a '
             'Literal-discriminant test on the result of EVERY recursive optimize_expression call that dominates it (all children constant)')
    oe = ctx.fn(EX + 'optimizer::expressions::optimize_expression')
    g = cfg(oe)
    sy = Sym(oe)
    rec = [(i, t) for i, t in oe.calls() if callee_name(t) == oe.nice]
    folds = []
    for bi, b in enumerate(oe.blocks):
        if b['t'].get('cleanup'):
            continue
        for st in b['s']:
            if 'd' in st and st['v']['r'] == 'agg' and st['v'].get('variant') == 'Literal' and str(st['v'].get('adt', '')).endswith('::Expression'):
                src = sy.op(st['v']['ops'][0]) if st['v']['ops'] else ''
                if src.startswith('clone(') or '@Literal.0' in src and 'eval' not in src and 'branch(' not in src:
                    continue            # re-wraps the literal it was given
                folds.append((bi, src))
    ctx.floor('C06.fold folding sites in optimize_expression', len(folds), 4)
    for bi, src in folds:
        doms = [(i, t) for i, t in rec if g.dominates(i, bi)]
        conds = [c for c, _v in shared.deciding_conditions(oe, bi, sy)]
        missing = []
        for i, t in doms:
            arg = sy.op(t['args'][0])
            needle = f'optimize_expression({arg},'
            if not any(c.startswith('discr(branch(' + needle) and c.endswith('@Continue.0)') for c in conds):
                missing.append(arg)
        ctx.instance(f'fold/{shared._ordinal(oe, bi)}@{len(doms)}', {'rule': 'C06.fold', 'loc': f'{oe.file}', 'children_optimised': len(doms), 'children_not_tested_literal': missing})
        if missing:
            ctx.finding(f'fold/{"+".join(m[-24:] for m in missing)}', f'optimize_expression folds to a literal although the child `{missing[0][:60]}` was not tested to be a '
                        'literal: with a column (possibly NULL) there, the folded value is wrong for NULL rows — WHERE p, WHERE NOT p and '
                        'WHERE p IS NULL no longer partition the rows', f'{oe.file}:{oe.blocks[bi]["t"]["l"]}')

    # ---------------------------------------------------------------- (exact) accepted => predicate emitted
    ctx.rule('C06.exact', 'select::columnar::filter::extract_predicates_recursive: every path that answers Some(()) (expression handled) passes a '
             'push of a ColumnPredicate or a recursive extraction call')
    ep = ctx.fn(EX + 'select::columnar::filter::extract_predicates_recursive')
    emits = {i for i, t in ep.calls() if re.search(r'Vec::<T, A>::push$', re.sub(r'<[^<>]*>$', '', callee_name(t) or '')) or callee_name(t) == ep.nice
             or (callee_name(t) or '').endswith('::push')}
    somes = []
    for bi, b in enumerate(ep.blocks):
        for st in b['s']:
            if 'd' in st and st['d'][0] == 0 and st['v']['r'] == 'agg' and st['v'].get('variant') == 'Some':
                somes.append(bi)
    ctx.floor('C06.exact Some(()) results in extract_predicates_recursive', len(somes), 3)
    reached, _ = search(ep, [0], emits, loop_model=False)
    bad = [b for b in somes if b in reached]
    ctx.instance('exact/extract_predicates_recursive', {'rule': 'C06.exact', 'accepting_results': len(somes), 'accepting_without_emitting': len(bad)})
    if bad:
        ctx.finding('exact/accepted-without-predicate', 'extract_predicates_recursive answers "handled" for an expression form without emitting a predicate '
                    'for it: the ungrouped columnar aggregate path filters with the extracted predicates only, so the conjunct is silently dropped '
                    '(COUNT(*) counts rows the WHERE clause excludes)', f'{ep.file}:{ep.blocks[bad[0]]["t"]["l"]}')

    # ---------------------------------------------------------------- (null) columnar predicates never match NULL
    ctx.rule('C06.null', 'select::columnar::filter::evaluate_predicate: a test of the value for SqlValue::Null, with `false` as the result on '
             'that branch, dominates every compare_values call (compare_values reports incomparable values as Equal)')
    evp = ctx.fn(EX + 'select::columnar::filter::evaluate_predicate')
    ge = cfg(evp)
    sye = Sym(evp)
    cmps = [i for i, t in evp.calls() if (callee_name(t) or '').endswith('::compare_values')]
    ctx.floor('C06.null compare_values calls in evaluate_predicate', len(cmps), 5)
    nullsw = []
    for bi, b in enumerate(evp.blocks):
        t = b['t']
        if t['k'] != 'switch':
            continue
        c = shared.switch_condition(evp, bi, sye)
        if c == 'discr(value)':
            nullsw.append(bi)
    ok = any(all(ge.dominates(sw, cb) for cb in cmps) for sw in nullsw)
    ctx.instance('null/evaluate_predicate', {'rule': 'C06.null', 'null_tests_on_value': len(nullsw), 'dominates_all_comparisons': ok})
    if not ok:
        ctx.finding('null/evaluate_predicate', 'evaluate_predicate compares a possibly NULL column value with compare_values (which answers Equal '
                    'for values it cannot compare) without testing for NULL first: =, <=, >= and BETWEEN are TRUE for NULL rows on the '
                    'columnar aggregate path', evp.loc)

    # ---------------------------------------------------------------- (range) bound and inclusiveness travel together
    from .C02 import range_pairing_rule
    range_pairing_rule(ctx, 'C06.range')

    # ---------------------------------------------------------------- (where) no result path forgets the WHERE clause
    ctx.rule('C06.where', 'execute_with_ctes and, recursively, every select-executor callee that receives the same stmt and whose rows are returned: no successful '
             'return is reachable without a call that receives stmt.where_clause, a complete callee, or a branch on which stmt.where_clause is None '
             '(empty and declining returns excepted)')

    def sat(f, s, g, atoms):
        out = set()
        for i, t in f.calls():
            if any(re.search(r'\bstmt\.where_clause\b', s.op(a)) for a in t['args']):
                out.add(i)
        for b, at in atoms.items():
            if 'where_clause_none' in at:
                out.add(b)
        return out

    def describe(cl, f, lines):
        return (f'{f.nice} has a path to a successful return on which the statement\'s WHERE clause is neither handed to a function nor found absent (through lines '
                f'{lines}): the rows are returned unfiltered (SELECT 1 WHERE 1 = 0 returns a row)')
    shared.result_path_rule(ctx, prog, 'C06.where', {'where': sat}, describe, floor=4)
