"""C29 Password authentication accepts exactly the right credentials — acceptance-path clause.

Decides: (a) in ConnectionHandler::authenticate every send_authentication_ok is confined to the
`trust` arm or to the true branch of verify_cleartext (password arm) / verify_md5 (md5 arm), the
salt verified is the salt sent, unknown methods end in Err; (b) verify_cleartext / verify_md5 return
true only through Argon2 verification resp. a full string equality with the computed digest, and
apply no partial matcher to the client response; (c) compute_md5_password feeds password,
username into the inner digest and hex(inner), salt into the outer one, in that order.
Does NOT decide Argon2/MD5 correctness (trusted crates) or constant-time comparison."""
from ..engine.facts import callee_name
from ..engine.cfg import cfg, defs_of, op_place, op_const, root_of, op_local
from ..engine.strmatch import str_tests
from ..engine.paths import switch_target, _uses_local, exit_classes

UNITS = {'vibesql_server'}
CH = 'vibesql_server::connection::ConnectionHandler::'
PS = 'vibesql_server::auth::password::PasswordStore::'
PARTIAL = ('starts_with', 'ends_with', 'contains', 'eq_ignore_ascii_case', 'find', 'rfind', 'matches', 'trim', 'trim_end', 'trim_start',
           'to_lowercase', 'to_uppercase', 'to_ascii_lowercase', 'to_ascii_uppercase', 'get', 'split_at', 'chars', 'len')


def bool_true_target(fn, call_block):
    """true target of the switch that tests the bool returned by the call in call_block"""
    t = fn.blocks[call_block]['t']
    nb = t.get('to')
    if nb is None:
        return None
    d = t['d'][0]
    blk = fn.blocks[nb]
    if blk['t']['k'] == 'switch' and _uses_local(blk['t']['on'], d):
        return switch_target(blk['t'], 1)
    return None


def run(ctx):
    prog = ctx.prog
    # ---------------------------------------------------------------- (a) acceptance paths
    ctx.rule('C29.a', 'every call to send_authentication_ok in the authenticate coroutine is dominated by the arm of the "trust" method test '
             'or by the true edge of verify_cleartext inside the "password" arm / verify_md5 inside the "md5" arm; verify_md5 receives the '
             'salt that was sent; the method fall-through arm returns Err')
    auth = [f for f in prog.fns.values() if f.nice.startswith(CH + 'authenticate::{closure') and f.coroutine]
    ctx.require(len(auth) == 1, f'authenticate coroutine body not found ({len(auth)})')
    a = auth[0]
    g = cfg(a)
    tests = {lit: (blk, tt, ft) for blk, kind, lit, tt, ft in str_tests(a) if kind == 'eq'}
    for m in ('trust', 'password', 'md5'):
        ctx.require(m in tests, f'authenticate: method test for "{m}" not found')
    oks = [i for i, t in a.calls() if callee_name(t) == CH + 'send_authentication_ok']
    ctx.floor('send_authentication_ok call sites', len(oks), 3)
    vc = [i for i, t in a.calls() if callee_name(t) == PS + 'verify_cleartext']
    vm = [i for i, t in a.calls() if callee_name(t) == PS + 'verify_md5']
    ctx.require(len(vc) == 1 and len(vm) == 1, 'authenticate: verify_cleartext / verify_md5 call sites not found exactly once')
    allowed = {'trust': tests['trust'][1]}
    tc = bool_true_target(a, vc[0]); tm = bool_true_target(a, vm[0])
    ctx.require(tc is not None and tm is not None, 'authenticate: result of verify_* is not tested directly')
    for ok in oks:
        where = None
        if g.dominates(tests['trust'][1], ok):
            where = 'trust'
        elif g.dominates(tc, ok) and g.dominates(tests['password'][1], vc[0]):
            where = 'password/verify_cleartext'
        elif g.dominates(tm, ok) and g.dominates(tests['md5'][1], vm[0]):
            where = 'md5/verify_md5'
        ctx.instance(f'a/ok@{where}', {'rule': 'C29.a', 'line': a.blocks[ok]['t']['l'], 'guard': where})
        if where is None:
            ctx.finding(f'a/unguarded-ok/{a.blocks[ok]["t"]["l"]}', 'AuthenticationOk can be sent on a path that did not pass the method\'s credential check',
                        f'{a.file}:{a.blocks[ok]["t"]["l"]}')
    # the number of distinct methods that may send Ok is frozen
    lits = {lit for lit in tests}
    extra = lits - {'trust', 'password', 'md5', 'scram-sha-256'}
    if extra:
        ctx.finding('a/new-method', f'authenticate knows authentication methods {sorted(extra)} that the acceptance table does not cover', a.loc)
    # salt agreement
    defs = defs_of(a)
    sm = [t for _, t in a.calls() if callee_name(t) == CH + 'send_md5_password_request']
    ctx.require(len(sm) == 1, 'send_md5_password_request call not found')
    r1 = root_of(a, defs, sm[0]['args'][1]); r2 = root_of(a, defs, a.blocks[vm[0]]['t']['args'][3])
    ctx.instance('a/salt', {'sent': str(r1[:2]), 'verified': str(r2[:2])})
    if r1[:2] != r2[:2] or r1[0] == 'const':
        ctx.finding('a/salt', f'the salt passed to verify_md5 ({r2[:2]}) is not the salt sent to the client ({r1[:2]})', a.loc)
    # fall-through arm (unknown method) must not reach an Ok send
    last_false = None
    for lit, (blk, tt, ft) in tests.items():
        if lit == 'scram-sha-256':
            last_false = ft
    if last_false is not None:
        reach = g.reach_from([last_false])
        if any(o in reach for o in oks):
            ctx.finding('a/fallthrough', 'an unknown authentication method can reach AuthenticationOk', a.loc)

    # ---------------------------------------------------------------- (b) verifiers
    ctx.rule('C29.b', 'verify_cleartext returns true only as the is_ok() of Argon2 verify_password; verify_md5 returns true only as a full '
             'String == &str comparison whose left side is compute_md5_password(stored, username, salt); no partial matcher is applied to the '
             'client response other than the test-pinned strip_prefix("md5")')
    for nm, resp_param in ((PS + 'verify_cleartext', 3), (PS + 'verify_md5', 3)):
        f = ctx.fn(nm)
        d = defs_of(f)
        # what can flow into the return value
        rets = []
        for i, b in enumerate(f.blocks):
            for s in b['s']:
                if 'd' in s and s['d'][0] == 0 and not s['d'][1]:
                    v = s['v']
                    if v['r'] == 'use':
                        c = op_const(v['a'])
                        rets.append(('const', c) if c is not None else ('local', root_of(f, d, v['a'])))
                    else:
                        rets.append(('expr', v['r']))
            t = b['t']
            if t['k'] == 'call' and t['d'][0] == 0 and not t['d'][1]:
                rets.append(('call', callee_name(t), t))
        ctx.instance(f'b/{nm}/returns', {'rule': 'C29.b', 'fn': nm, 'returns': [str(r[:2]) for r in rets]})
        for r in rets:
            if r[0] == 'const' and r[1] in (0,):
                continue
            if r[0] == 'const' and r[1] == 1:
                ctx.finding(f'b/{nm}/const-true', f'{nm} can return a constant true', f.loc)
                continue
            if r[0] == 'call':
                cn = r[1] or ''
                if nm.endswith('verify_cleartext'):
                    ok = cn.endswith('Result::<T, E>::is_ok')
                    if ok:
                        src = root_of(f, d, r[2]['args'][0])
                        ok = src[0] == 'call' and src[1].endswith('PasswordVerifier>::verify_password')
                    if not ok:
                        ctx.finding(f'b/{nm}/return-source', f'{nm} returns the result of {cn} (expected verify_password(..).is_ok())', f.loc)
                else:
                    ok = 'PartialEq' in cn and cn.endswith('::eq') and 'String' in cn
                    if ok:
                        lhs = root_of(f, d, r[2]['args'][0])
                        ok = lhs[0] == 'call' and lhs[1].endswith('compute_md5_password')
                        if ok:
                            cargs = [root_of(f, d, x)[:2] for x in lhs[2]['args']]
                            if cargs[1] != ('param', 2) or cargs[2] != ('param', 4):
                                ctx.finding(f'b/{nm}/digest-args', f'compute_md5_password is called with {cargs} (expected stored secret, username, salt)', f.loc)
                    if not ok:
                        ctx.finding(f'b/{nm}/return-source', f'{nm} returns the result of {cn} (expected compute_md5_password(..) == response)', f.loc)
                continue
            ctx.finding(f'b/{nm}/return-other', f'{nm} has a return value the acceptance table does not know: {r[:2]}', f.loc)
        # partial matchers on the client response
        for i, t in f.calls():
            short = (callee_name(t) or '').rsplit('::', 1)[-1]
            if short in PARTIAL and t['args']:
                src = root_of(f, d, t['args'][0])
                if src[:2] == ('param', resp_param):
                    ctx.finding(f'b/{nm}/partial/{short}', f'{nm} applies {short} to the client response', f'{f.file}:{t["l"]}')
            if short == 'strip_prefix' and t['args']:
                src = root_of(f, d, t['args'][0])
                if src[:2] == ('param', resp_param):
                    from ..engine.cfg import resolve_str
                    lit = resolve_str(f, d, t['args'][1])
                    ctx.instance(f'b/{nm}/strip_prefix', {'literal': lit})
                    if lit != 'md5':
                        ctx.finding(f'b/{nm}/strip_prefix', f'{nm} strips {lit!r} from the client response (only "md5" is pinned by the tests)', f.loc)

    # ---------------------------------------------------------------- (c) digest composition
    ctx.rule('C29.c', 'compute_md5_password updates the inner digest with password then username, the outer digest with hex(inner) then salt')
    cm = ctx.fn('vibesql_server::auth::password::compute_md5_password')
    d = defs_of(cm)
    ups = sorted([(t['l'], i, t) for i, t in cm.calls() if (callee_name(t) or '').endswith('Update>::update') or (callee_name(t) or '').endswith('::update')])
    order = []
    g = cfg(cm)
    for (l, i, t) in ups:
        order.append(root_of(cm, d, t['args'][1])[:2] if len(t['args']) > 1 else ('?', None))
    ctx.instance('c/update-order', {'rule': 'C29.c', 'order': [str(o) for o in order]})
    ctx.require(len(order) == 4, f'compute_md5_password: expected four digest updates, found {len(order)}')
    for (x, y) in zip(ups, ups[1:]):
        ctx.require(g.dominates(x[1], y[1]), 'compute_md5_password: digest updates are not in straight-line order')
    want = [('param', 1), ('param', 2), None, ('param', 3)]
    for k, w in enumerate(want):
        if w is not None and order[k] != w:
            ctx.finding(f'c/update/{k}', f'digest update #{k+1} takes {order[k]} (expected {w})', cm.loc)
    if order[2][0] not in ('call', 'local'):
        ctx.finding('c/update/2', f'the outer digest is not fed with the formatted inner digest ({order[2]})', cm.loc)


    # ---------------------------------------------------------------- (d) the authenticated identity is the name the client sent
    from ..engine.symexpr import Sym
    import re
    ctx.rule('C29.d', 'handle_startup: the user name handed to authenticate() and to Session::new is the "user" startup parameter as sent '
             '(or the default), without case folding, trimming or other rewriting — the password store and the MD5 digest are keyed by the exact name')
    hs = [f for f in prog.fns.values() if f.nice.startswith(CH + 'handle_startup::{closure') and f.coroutine]
    ctx.require(len(hs) == 1, 'handle_startup coroutine not found')
    hs = hs[0]
    sy = Sym(hs)

    def saved_field_source(place_sym_arg):
        """for an operand that reads a saved coroutine local (..@N.k): the expressions assigned to that slot"""
        m = re.search(r'@(\d+)\.(\d+)$', place_sym_arg)
        if not m:
            return [place_sym_arg]
        tail = ['@' + m.group(1), '.' + m.group(2)]
        out = []
        for bi, b in enumerate(hs.blocks):
            for st in b['s']:
                if 'd' in st and st['d'][1][-2:] == tail:
                    out.append(sy._one(0, (bi, 'assign', st['v']), 0))
            t = b['t']
            if t['k'] == 'call' and t.get('d') and t['d'][1][-2:] == tail:
                short = re.sub(r'<.*>$', '', callee_name(t) or '?').rsplit('::', 1)[-1]
                out.append(f'{short}(' + ', '.join(sy.op(a) for a in t['args']) + ')')
        return out or [place_sym_arg]
    REWRITE = re.compile(r'\b(lower|upper|trim\w*|to_ascii_\w+|replace|to_lowercase|to_uppercase|split\w*|strip_\w+|chars|nfkc|normalize)\(')
    nuser = 0
    for i, t in hs.calls():
        cn = callee_name(t) or ''
        which = None
        if cn == CH + 'authenticate':
            which = ('authenticate', t['args'][1])
        elif cn.endswith('session::Session::new'):
            which = ('Session::new', t['args'][1])
        if which is None:
            continue
        nuser += 1
        srcs = saved_field_source(sy.op(which[1]))
        ctx.instance(f'd/{which[0]}', {'rule': 'C29.d', 'user_argument': [x[:160] for x in srcs]})
        # closures applied on the way (map(|u| ..)): their results are part of the derivation
        extra = []
        for e in srcs:
            for k in re.findall(r'closure#(\d+)\(', e):
                for c in prog.fns.values():
                    if c.nice == hs.nice + '::{closure#%s}' % k:
                        extra.append(Sym(c).local(0))
        for e in srcs + extra:
            if REWRITE.search(e) or (e in srcs and "'user'" not in e):
                ctx.finding(f'd/{which[0]}/rewritten-user', f'handle_startup passes `{e[:120]}` as the user name to {which[0]}: the name is rewritten (or does not come '
                            'from the "user" startup parameter) before the credentials are looked up, so a different account than the one the '
                            'client named is authenticated', f'{hs.file}:{t["l"]}')
    ctx.floor('C29.d uses of the startup user name', nuser, 2)
