"""Per-variant truthiness table of a function that turns an evaluated predicate (SqlValue) into keep/drop."""
from ..engine.tables import enum_switches, switch_arm_regions, region_is_err_only
from ..engine.cfg import op_const, op_place
from ..engine.paths import exit_classes

SV = 'vibesql_types::sql_value::SqlValue'


def classify_region(fn, reg, variant, target):
    """'bool' | 'nonzero' | 'false' | 'true' | 'error' | 'other'"""
    ne0 = False; uses_payload = False; consts = set(); builds_err = False
    for b in reg:
        blk = fn.blocks[b]
        for s in blk['s']:
            if 'd' not in s:
                continue
            v = s['v']
            if v['r'] == 'bin' and v['op'] in ('Ne', 'Eq'):
                for k in ('a', 'b'):
                    c = op_const(v[k])
                    if c in (0, '0', '0f32', '0f64', '0_f64', '0_f32') or (isinstance(c, str) and c.rstrip('f3264_').rstrip('.0') in ('0', '')):
                        ne0 = True
            for k in ('a',):
                if isinstance(v.get(k), dict):
                    p = op_place(v[k])
                    if p and ('@' + variant) in p[1]:
                        uses_payload = True
                    c = op_const(v[k])
                    if c in (0, 1) and v['r'] == 'use':
                        consts.add(c)
            if v['r'] == 'ref' and ('@' + variant) in v['p'][1]:
                uses_payload = True
            if v['r'] == 'agg' and v.get('kind') == 'adt' and v['adt'].endswith('result::Result') and v['variant'] == 'Err':
                builds_err = True
            if v['r'] == 'agg' and v.get('kind') == 'adt' and v['adt'].endswith('result::Result') and v['variant'] == 'Ok':
                for o in v['ops']:
                    c = op_const(o)
                    if c in (0, 1):
                        consts.add(c)
        t = blk['t']
        if t['k'] == 'switch':
            p = op_place(t['on'])
            if p and ('@' + variant) in p[1]:
                uses_payload = True
                if variant != 'Boolean' and [v_ for v_, _ in t['targets']] == [0]:
                    ne0 = True          # `Variant(0) => false, Variant(_) => true`
    if builds_err and not uses_payload and not ne0:
        return 'error'
    if ne0:
        return 'nonzero'
    if uses_payload and variant == 'Boolean':
        return 'bool'
    if consts == {0} or (not consts and not uses_payload):
        return 'false'
    if consts == {1}:
        return 'true'
    return 'other'


def truthiness_table(prog, fn):
    """{variant: class} for the widest match on SqlValue in fn (None if fn has no such match)"""
    sws = enum_switches(prog, fn, SV)
    if not sws:
        return None
    sw = max(sws, key=lambda s: len(s['arms']))
    regs = switch_arm_regions(fn, sw)
    variants = [v['name'] for v in prog.adt(SV)['variants']]
    out = {}
    for v in variants:
        if v in sw['arms']:
            out[v] = classify_region(fn, regs[v], v, sw['arms'][v])
        elif sw['otherwise'] is not None:
            out[v] = classify_region(fn, regs.get('_', set()), v, sw['otherwise'])
        else:
            out[v] = 'missing'
    return out
