"""C24 Statement execution never silently wraps numbers — the no-silent-wrap clause (T12 over MIR asserts).

Decides, for the expression operators, aggregates, window aggregates, columnar / vectorised / SIMD kernels and the
procedural evaluator: every + - * / % and negation on i16/i32/i64/u64 operands that come from SQL values is a checked
operation (or is guarded by a dominating test).  An unchecked operation is visible in MIR as an `Overflow(..)` /
`DivisionByZero` / `RemainderByZero` assert: it panics in debug builds and wraps silently in release builds.
Findings are keyed per function and kind of operation.
Does NOT decide panic-freedom of the whole executor (hundreds of unwraps and index expressions in 69k lines: an
unreviewed inventory would only be noise) nor floating-point rounding."""
import re
from ..engine.panics import sites_of, auto_discharge
from ..engine.symexpr import Sym
from .C23 import _const_nonzero_arg
from . import shared

UNITS = {'vibesql_executor', 'vibesql_types'}
EX = 'vibesql_executor::'
SCOPE = (EX + 'evaluator::operators::', EX + 'evaluator::expressions::operators', EX + 'select::grouping::aggregates', EX + 'evaluator::window::',
         EX + 'select::columnar::', EX + 'select::vectorized::', EX + 'simd::', EX + 'procedural::executor::evaluate_expression',
         EX + 'select::executor::aggregation')
INT = re.compile(r'^(i8|i16|i32|i64|i128|u8|u16|u32|u64|u128)$')

B = EX + 'select::vectorized::batch::'
REVIEWED = {
    (EX + 'simd::null_handling::NullBitmask::is_null', 'addsubmul'): 'shift of 1u8 by idx % 8 (< 8): Overflow(Shl) needs a shift of 8 or more',
    (EX + 'simd::null_handling::NullBitmask::set_null', 'addsubmul'): 'shift of 1u8 by idx % 8 (< 8): Overflow(Shl) needs a shift of 8 or more',
    (EX + 'evaluator::operators::arithmetic::addition::apply_interval_to_date', 'neg'):
        'negation of the interval amount: the amount i64::MIN is rejected before ("Invalid interval amount: \'-9223372036854775808\'", observed)',
    (EX + 'evaluator::operators::arithmetic::subtraction::apply_interval_to_date', 'neg'):
        'negation of the interval amount: the amount i64::MIN is rejected before ("Invalid interval amount", observed)',
    # calendar arithmetic on DATE/TIMESTAMP components in the SIMD filter path: overflow needs |year| beyond 5.8 million; the path was not
    # reached with such a date (WHERE d > DATE '...' over 3000 rows took the row path) - open candidates, not demonstrated
    (B + 'date_to_days_since_epoch', 'addsubmul'): 'calendar arithmetic on i32 date components: needs |year| > 5.8 million; not demonstrable (SIMD filter path not reached with such a value)',
    (B + 'date_to_days_since_epoch', 'div'): 'division/remainder by the constants 4, 100, 400, 5: Overflow(Div/Rem) only for i32::MIN / -1',
    (B + 'days_since_epoch_to_date', 'addsubmul'): 'inverse calendar arithmetic on a day count produced by date_to_days_since_epoch',
    (B + 'days_since_epoch_to_date', 'div'): 'division/remainder by positive constants',
    (B + 'microseconds_to_timestamp', 'addsubmul'): 'splits a microsecond count produced by timestamp_to_microseconds',
    (B + 'microseconds_to_timestamp', 'div'): 'division/remainder by positive constants',
    (B + 'timestamp_to_microseconds', 'addsubmul'): 'days * 86_400_000_000 on i64: needs |year| > 290,000; not demonstrable (see date_to_days_since_epoch)',
    (B + 'timestamp_to_microseconds', 'div'): 'division by a positive constant',
}


def run(ctx):
    prog = ctx.prog
    from ..engine.callgraph import CallGraph
    cg = CallGraph(prog)
    entries = [f.path for f in prog.fns.values() if f.unit == 'vibesql_executor' and not f.is_closure() and not shared.is_test(f)
               and re.search(r'Executor(<[^>]*>)?(::<[^>]*>)?::execute(_\w+)?$|::execute_(call|procedure|function)\w*$', f.nice)]
    ctx.floor('C24 statement entry points', len(entries), 20)
    reach = cg.reach(entries)
    ctx.rule('C24.wrap', 'in the arithmetic operators, aggregates, window aggregates, columnar / vectorised / SIMD kernels and the procedural '
             'evaluator there is no unchecked integer + - * / % or negation on non-usize operands (no Overflow / DivisionByZero / '
             'RemainderByZero assert that is not discharged by a dominating guard)')
    nfn = 0; nsites = 0
    per_fn = {}
    for f in prog.fns.values():
        if f.unit != 'vibesql_executor' or shared.is_test(f) or f.dk == 'Promoted' or not f.nice.startswith(SCOPE):
            continue
        nfn += 1
        for s in sites_of(prog, f):
            if s.kind != 'assert':
                continue
            if not (s.detail.startswith('Overflow') or 'ByZero' in s.detail):
                continue
            ty = str(s.term.get('opty') or s.term.get('ty') or '')
            if not INT.match(ty):
                continue
            if _is_counter(f, s):
                continue
            nsites += 1
            reason = auto_discharge(prog, f, s) or _const_nonzero_arg(s) or _nonzero_guard(prog, f, s)
            ctx.instance(f'wrap/{s.key}', {'rule': 'C24.wrap', 'fn': f.nice, 'loc': s.loc, 'op': s.detail, 'type': ty, 'discharged': bool(reason)})
            if reason:
                continue
            root = f.nice.split('::{closure')[0]
            per_fn.setdefault((root, _opclass(s.detail)), []).append(s)
    ctx.floor('C24 functions in scope', nfn, 150)
    ctx.floor('C24 integer arithmetic asserts examined', nsites, 60)
    for (fn, cls), ss in sorted(per_fn.items()):
        if not any(x.fn.path in reach or (prog.by_nice.get(fn) and prog.by_nice[fn][0].path in reach) for x in ss):
            ctx.exempt(f'wrap/{fn}/{cls}', 'not reachable from any statement executor in this tree (kernel used only by tests / benches)')
            continue
        if (fn, cls) in REVIEWED:
            ctx.exempt(f'wrap/{fn}/{cls}', REVIEWED[(fn, cls)])
            continue
        ops = sorted({f'{x.detail}:{x.term.get("opty") or ""}' for x in ss})
        ctx.finding(f'wrap/{fn}/{cls}', f'{fn}: {len(ss)} unchecked integer operation(s) ({", ".join(ops)[:120]}) on SQL values: the result wraps '
                    'silently in release builds (panics in debug builds) instead of yielding an error', ss[0].loc)


def _opclass(detail):
    if 'Div' in detail or 'Rem' in detail or 'ByZero' in detail:
        return 'div'
    if 'Neg' in detail:
        return 'neg'
    return 'addsubmul'


def _is_counter(f, s):
    """i32/i64 increments by the constant 1 of a local counter (count += 1) are bounded by the number of rows processed"""
    from ..engine.cfg import op_const
    ops = s.term.get('ops') or []
    if s.detail.startswith('Overflow(Add)') and len(ops) == 2:
        c = [op_const(o) for o in ops]
        if 1 in c and not any(isinstance(x, int) and x != 1 for x in c):
            return True
    return False


def _nonzero_guard(prog, f, s):
    """division / remainder whose divisor is tested against zero on every path"""
    from ..engine.panics import dominating_facts, _normalise_fact
    if 'ByZero' not in s.detail:
        return None
    sym = Sym(f)
    ops = s.term.get('ops') or []
    if not ops:
        return None
    # the divisor is the operand of the Eq(x, 0) statement in the assert's block
    blk = f.blocks[s.block]
    div = None
    for st in blk['s']:
        if 'd' in st and st['v']['r'] == 'bin' and st['v']['op'] == 'Eq':
            div = sym.op(st['v']['a'])
    if div is None:
        return None
    for cond, val in dominating_facts(prog, f, s.block, sym):
        for (op, x, y) in _normalise_fact(prog, f, cond, val):
            if x == div and y in ('const(0)',) and op == 'Ne':
                return f'guarded by dominating test {x} != 0'
            if y == div and x in ('const(0)',) and op == 'Ne':
                return f'guarded by dominating test {y} != 0'
    return None
