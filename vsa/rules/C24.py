"""C24 Statement execution never silently wraps numbers — the no-silent-wrap clause (T12 over MIR asserts).

Decides, for the expression operators, aggregates, window aggregates, columnar / vectorised / SIMD kernels and the
procedural evaluator: every + - * / % and negation on i16/i32/i64/u64 operands that come from SQL values is a checked
operation (or is guarded by a dominating test).  An unchecked operation is visible in MIR as an `Overflow(..)` /
`DivisionByZero` / `RemainderByZero` assert: it panics in debug builds and wraps silently in release builds.
Findings are keyed per function and kind of operation.
Also decides two clauses of "never panics / always returns":
 (str)  every operation that addresses a string by a byte offset (str/String indexing by a range, split_at, truncate,
        insert, remove, drain, replace_range) in the executor, storage, catalog and types crates is discharged - the
        offset is a match position (find/rfind, plus the width of an ASCII pattern), the length of a pattern after a
        starts_with/ends_with test, 0 / len, or the string is tested ASCII - or is listed in the reviewed table;
        anything else is a finding (a computed offset can fall inside a multi-byte character, which panics);
 (cast)  narrowing conversions (`as` from a wider or differently signed integer type, or from a float, to an integer type) in
        the value-computing code (CAST, arithmetic operators, numeric functions, aggregates, INSERT coercion) are listed
        in a reviewed table with the reason why the value fits or the behaviour is documented; any other narrowing
        `as` is a finding (it wraps or saturates silently);
 (limit) integer arithmetic on the LIMIT / OFFSET values of a statement (usize, taken from the SQL text) in the select
        helpers is checked or guarded (LIMIT 18446744073709551615 OFFSET 2 is a common idiom);
 (guard) the trigger recursion guard lives as long as the trigger work: no call into the executor is dominated by the drop
        of the RecursionGuard obtained at the top of the function (a guard bound to `_` is dropped at once and the
        depth limit never triggers: unbounded recursion, stack overflow);
 (sum)  the SUM/AVG accumulator's overflow marker is absorbing: add_sql_values maps a failed addition to NULL, so it must
        not also treat a NULL operand as the identity (the next row would restart the sum after an overflow);
 (loop) a loop that advances through a string by slicing off `len(pattern)` bytes per iteration is entered only with a
        non-empty pattern (otherwise it never terminates).
Does NOT decide panic-freedom of the whole executor (hundreds of unwraps and index expressions in 69k lines: an
unreviewed inventory would only be noise) nor floating-point rounding."""
import re
from ..engine.panics import sites_of, auto_discharge
from ..engine.facts import callee_name
from ..engine.symexpr import Sym
from .C23 import _const_nonzero_arg
from . import shared

UNITS = {'vibesql_executor', 'vibesql_types', 'vibesql_storage', 'vibesql_catalog'}
EX = 'vibesql_executor::'
SCOPE = (EX + 'evaluator::operators::', EX + 'evaluator::expressions::operators', EX + 'select::grouping::aggregates', EX + 'evaluator::window::',
         EX + 'select::columnar::', EX + 'select::vectorized::', EX + 'simd::', EX + 'procedural::executor::evaluate_expression',
         EX + 'select::executor::aggregation', EX + 'evaluator::functions::numeric', EX + 'evaluator::casting')
INT = re.compile(r'^(i8|i16|i32|i64|i128|u8|u16|u32|u64|u128)$')

B = EX + 'select::vectorized::batch::'
REVIEWED = {
    (EX + 'simd::null_handling::NullBitmask::is_null', 'addsubmul'): 'shift of 1u8 by idx % 8 (< 8): Overflow(Shl) needs a shift of 8 or more',
    (EX + 'simd::null_handling::NullBitmask::set_null', 'addsubmul'): 'shift of 1u8 by idx % 8 (< 8): Overflow(Shl) needs a shift of 8 or more',
    (EX + 'evaluator::operators::arithmetic::addition::apply_interval_to_date', 'neg'):
        'negation of the interval amount: the amount i64::MIN is rejected before ("Invalid interval amount: \'-9223372036854775808\'", observed)',
    (EX + 'evaluator::operators::arithmetic::subtraction::apply_interval_to_date', 'neg'):
        'negation of the interval amount: the amount i64::MIN is rejected before ("Invalid interval amount", observed)',
    # calendar arithmetic on DATE/TIMESTAMP components in the SIMD filter path: overflow needs |year| beyond 5.8 million; the path was not
    # reached with such a date (WHERE d > DATE '...' over 3000 rows took the row path) - open candidates, not demonstrated
    (B + 'date_to_days_since_epoch', 'addsubmul'): 'calendar arithmetic on i32 date components: needs |year| > 5.8 million; not demonstrable (SIMD filter path not reached with such a value)',
    (B + 'date_to_days_since_epoch', 'div'): 'division/remainder by the constants 4, 100, 400, 5: Overflow(Div/Rem) only for i32::MIN / -1',
    (B + 'days_since_epoch_to_date', 'addsubmul'): 'inverse calendar arithmetic on a day count produced by date_to_days_since_epoch',
    (B + 'days_since_epoch_to_date', 'div'): 'division/remainder by positive constants',
    (B + 'microseconds_to_timestamp', 'addsubmul'): 'splits a microsecond count produced by timestamp_to_microseconds',
    (B + 'microseconds_to_timestamp', 'div'): 'division/remainder by positive constants',
    (B + 'timestamp_to_microseconds', 'addsubmul'): 'days * 86_400_000_000 on i64: needs |year| > 290,000; not demonstrable (see date_to_days_since_epoch)',
    (B + 'timestamp_to_microseconds', 'div'): 'division by a positive constant',
}


def run(ctx):
    prog = ctx.prog
    from ..engine.callgraph import CallGraph
    cg = CallGraph(prog)
    entries = [f.path for f in prog.fns.values() if f.unit == 'vibesql_executor' and not f.is_closure() and not shared.is_test(f)
               and re.search(r'Executor(<[^>]*>)?(::<[^>]*>)?::execute(_\w+)?$|::execute_(call|procedure|function)\w*$', f.nice)]
    ctx.floor('C24 statement entry points', len(entries), 20)
    reach = cg.reach(entries)
    ctx.rule('C24.wrap', 'in the arithmetic operators, aggregates, window aggregates, columnar / vectorised / SIMD kernels and the procedural '
             'evaluator there is no unchecked integer + - * / % or negation on non-usize operands (no Overflow / DivisionByZero / '
             'RemainderByZero assert that is not discharged by a dominating guard)')
    nfn = 0; nsites = 0
    per_fn = {}
    for f in prog.fns.values():
        if f.unit != 'vibesql_executor' or shared.is_test(f) or f.dk == 'Promoted' or not f.nice.startswith(SCOPE):
            continue
        nfn += 1
        for s in sites_of(prog, f):
            if s.kind == 'call' and re.search(r'^core::num::<impl i(8|16|32|64|128)>::(abs|pow|isqrt|ilog|ilog2|ilog10|div_euclid|rem_euclid)$', callee_name(s.term) or ''):
                # panicking integer methods on SQL values (n.abs() of the most negative value)
                nsites += 1
                reason = auto_discharge(prog, f, s)
                ctx.instance(f'wrap/{s.key}', {'rule': 'C24.wrap', 'fn': f.nice, 'loc': s.loc, 'op': s.detail, 'discharged': bool(reason)})
                if not reason:
                    per_fn.setdefault((f.nice.split('::{closure')[0], 'neg'), []).append(s)
                continue
            if s.kind != 'assert':
                continue
            if not (s.detail.startswith('Overflow') or 'ByZero' in s.detail):
                continue
            ty = str(s.term.get('opty') or s.term.get('ty') or '')
            if not INT.match(ty):
                continue
            if _is_counter(f, s):
                continue
            nsites += 1
            reason = auto_discharge(prog, f, s) or _const_nonzero_arg(s) or _nonzero_guard(prog, f, s)
            ctx.instance(f'wrap/{s.key}', {'rule': 'C24.wrap', 'fn': f.nice, 'loc': s.loc, 'op': s.detail, 'type': ty, 'discharged': bool(reason)})
            if reason:
                continue
            root = f.nice.split('::{closure')[0]
            per_fn.setdefault((root, _opclass(s.detail)), []).append(s)
    ctx.floor('C24 functions in scope', nfn, 150)
    ctx.floor('C24 integer arithmetic asserts examined', nsites, 60)
    for (fn, cls), ss in sorted(per_fn.items()):
        if not any(x.fn.path in reach or (prog.by_nice.get(fn) and prog.by_nice[fn][0].path in reach) for x in ss):
            ctx.exempt(f'wrap/{fn}/{cls}', 'not reachable from any statement executor in this tree (kernel used only by tests / benches)')
            continue
        if (fn, cls) in REVIEWED:
            ctx.exempt(f'wrap/{fn}/{cls}', REVIEWED[(fn, cls)])
            continue
        ops = sorted({f'{x.detail}:{x.term.get("opty") or ""}' for x in ss})
        ctx.finding(f'wrap/{fn}/{cls}', f'{fn}: {len(ss)} unchecked integer operation(s) ({", ".join(ops)[:120]}) on SQL values: the result wraps '
                    'silently in release builds (panics in debug builds) instead of yielding an error', ss[0].loc)
    string_offset_rule(ctx, prog)
    slice_advance_loops(ctx, prog)
    narrowing_cast_rule(ctx, prog)
    limit_offset_rule(ctx, prog)
    recursion_guard_rule(ctx, prog)
    sum_marker_rule(ctx, prog)


STR_OP = re.compile(r'Index(Mut)?::index(_mut)? on (str|alloc::string::String)|^core::str::<impl str>::split_at|'
                    r'^alloc::string::String::(remove|insert|insert_str|drain|split_off|truncate|replace_range)')
T = 'vibesql_types::temporal::'
REVIEWED_STR = {
    (EX + 'cache::parameterized::ParameterizedPlan::bind', 'Index::index on alloc::string::String'):
        'offset = position returned by find() + length of the text inserted there: always a boundary',
    (EX + 'cache::parameterized::ParameterizedPlan::bind', 'alloc::string::String::replace_range'):
        'range = position of the one-byte placeholder "?" found by find() .. +1',
    (EX + 'evaluator::date_format::format_number', 'alloc::string::String::truncate'):
        'the string is the decimal rendering of an f64 (ASCII digits)',
    (EX + 'evaluator::date_format::format_with_commas', 'alloc::string::String::insert'):
        'insertion at offset 0',
    (EX + 'procedural::function::execute_simple_return', 'Index::index on str'):
        'slices off len("RETURN") after to_uppercase().starts_with("RETURN"): only ASCII letters upper-case to R, E, T, U, N',
    (EX + 'trigger_execution::TriggerFirer::parse_trigger_sql', 'Index::index on str'):
        'slices off 5 / 3 bytes after to_uppercase().starts_with("BEGIN") / ends_with("END"): byte 5 is a boundary for every spelling whose upper case is '
        'BEGIN (the only non-ASCII candidate, dotless i, is 2 bytes wide and followed by N at byte 5); only ASCII letters upper-case to E, N, D',
    ('<' + T + 'time::Time as core::str::traits::FromStr>::from_str', 'Index::index on alloc::string::String'):
        'the fraction was tested to consist of ASCII digits and padded with ASCII zeros before it is cut at 9 bytes',
}


def _str_discharge(prog, f, s, sym):
    """reason when the byte offset(s) of a string operation are provably character boundaries"""
    args = [sym.op(a) for a in s.term.get('args', [])]
    if len(args) < 2:
        return None
    rng = args[1]
    m = re.match(r'^(RangeFrom|RangeTo|Range|RangeInclusive|RangeToInclusive)\((.*)\)$', rng)
    bounds = _split_top(m.group(2)) if m else [rng]

    def boundary(b):
        b = b.strip()
        mphi = re.fullmatch(r'phi\((.*)\)', b)
        if mphi:
            alts = [x.strip() for x in _split_bar(mphi.group(1))]
            rs = [boundary(x) for x in alts]
            return ' / '.join(sorted(set(rs))) if all(rs) else None
        if re.fullmatch(r'unwrap_or\(map\(nth\(char_indices\(.*\), .*\), closure#\d+\(\)\), len\(.*\)\)', b):
            return 'byte offset of the n-th character (char_indices) or the length'
        if re.fullmatch(r'const\(0\)', b) or re.fullmatch(r'len\(.*\)', b):
            return 'start / end of the string'
        if re.search(r'^(branch\(ok_or_else\()?r?find\(', b) or re.fullmatch(r'r?find\(.*\)@Some\.0', b):
            return 'position returned by find / rfind'
        mm = re.fullmatch(r'\((.*) AddWithOverflow const\(1\)\)(\.0)?', b)
        if mm and re.search(r'r?find\([^,]*, const\((\d+)\)\)', mm.group(1)) and int(re.search(r'r?find\([^,]*, const\((\d+)\)\)', mm.group(1)).group(1)) < 128:
            return 'position of a one-byte ASCII character + 1'
        return None
    reasons = [boundary(b) for b in bounds]
    if all(reasons):
        return 'S1: ' + ', '.join(sorted(set(reasons)))
    if all(re.search(r'len\(|const\(\d+\)', b) for b in bounds) and _only_after_prefix_test(f, s.block, sym):
        return 'S2: slices off the length of a pattern; every path to the slice takes the true branch of a starts_with / ends_with test'
    return None


def _only_after_prefix_test(f, block, sym):
    """is `block` unreachable once the true edges of all starts_with / ends_with tests are cut?"""
    from ..engine.cfg import cfg
    g = cfg(f)
    dead = set()
    for sb in g.reachable():
        t = f.blocks[sb]['t']
        if t['k'] != 'switch':
            continue
        c = shared.switch_condition(f, sb, sym)
        if not re.match(r'^(starts_with|ends_with)\(', c):
            continue
        for v, tb in t['targets']:
            if int(v) != 0:
                dead.add((sb, tb))
        if t.get('else') is not None and any(int(v) == 0 for v, _tb in t['targets']):
            dead.add((sb, t['else']))
    if not dead:
        return False
    seen = {0}; work = [0]
    while work:
        b = work.pop()
        for x in g.succ[b]:
            if (b, x) in dead or x in seen:
                continue
            seen.add(x); work.append(x)
    return block not in seen


def _split_bar(x):
    out = []; d = 0; cur = ''
    for ch in x:
        if ch in '([':
            d += 1
        elif ch in ')]':
            d -= 1
        if ch == '|' and d == 0:
            out.append(cur.strip()); cur = ''
        else:
            cur += ch
    if cur.strip():
        out.append(cur.strip())
    return out


def _split_top(x):
    out = []; d = 0; cur = ''
    for ch in x:
        if ch in '([':
            d += 1
        elif ch in ')]':
            d -= 1
        if ch == ',' and d == 0:
            out.append(cur.strip()); cur = ''
        else:
            cur += ch
    if cur.strip():
        out.append(cur.strip())
    return out


def string_offset_rule(ctx, prog):
    from ..engine.panics import may_panic_sites
    ctx.rule('C24.str', 'every byte-offset operation on a string (indexing by a range, split_at, truncate, insert, remove, drain, replace_range) in the '
             'executor, storage, catalog and types crates is discharged (match position, pattern length after starts_with/ends_with, 0/len, ASCII-tested) '
             'or reviewed; a computed offset is a finding (it can fall inside a multi-byte character)')
    fns = [f for f in prog.fns.values() if f.unit in ('vibesql_executor', 'vibesql_storage', 'vibesql_catalog', 'vibesql_types') and not shared.is_test(f)
           and not f.is_closure()]
    sites = [x for x in may_panic_sites(prog, fns, with_alloc=False) if x.kind == 'call' and STR_OP.search(x.detail)]
    ctx.floor('C24.str string-offset operations', len(sites), 35)
    syms = {}
    for x in sites:
        f = x.fn
        sy = syms.setdefault(f.path, Sym(f))
        reason = auto_discharge(prog, f, x) or _str_discharge(prog, f, x, sy)
        root = f.nice.split('::{closure')[0]
        rk = (root, x.detail)
        status = 'discharged' if reason else 'reviewed' if rk in REVIEWED_STR else 'open'
        ctx.instance(f'str/{x.key}', {'rule': 'C24.str', 'fn': f.nice, 'loc': x.loc, 'op': x.detail, 'status': status, 'reason': (reason or REVIEWED_STR.get(rk, ''))[:140]})
        if status == 'reviewed':
            ctx.exempt(f'str/{root}/{x.detail}', REVIEWED_STR[rk])
        if status == 'open':
            ctx.finding(f'str/{root}/{x.detail}', f'{root}: `{x.detail}` with a computed byte offset ({", ".join(sy.op(a)[:60] for a in x.term.get("args", [])[1:])}): when the '
                        'offset falls inside a multi-byte character the operation panics (statement execution / loading must return an error or a value)', x.loc)


def slice_advance_loops(ctx, prog):
    """loops whose progress is `x = &x[len(p)..]` / `x = &x[..len(x) - len(p)]`: p must be known non-empty"""
    from ..engine.paths import loop_headers
    from ..engine.linear import Encoder
    from ..engine.cfg import cfg
    ctx.rule('C24.loop', 'a loop that advances by slicing len(pattern) bytes off a string per iteration is reachable only when the pattern is known to be '
             'non-empty (a dominating is_empty / len test), otherwise it does not terminate')
    n = 0
    for f in prog.fns.values():
        if f.unit != 'vibesql_executor' or shared.is_test(f) or f.dk == 'Promoted':
            continue
        idx = [(i, t) for i, t in f.calls() if re.search(r'Index<.*::index$', (t['f'].get('rn') or t['f'].get('n') or '')) or 'ops::index::Index' in (t['f'].get('rn') or '')]
        if not idx:
            continue
        g = cfg(f)
        sy = None
        enc = None
        for i, t in idx:
            if len(t['args']) < 2:
                continue
            sy = sy or Sym(f)
            rng = sy.op(t['args'][1])
            pat = _advance_amount(rng)
            if pat is None:
                continue
            enc = enc or Encoder(prog, f)
            in_loop = [h for h in _natural_loop_heads(g) if i in _loop_body(g, h)]
            if not in_loop:
                continue
            n += 1
            conds = shared.deciding_conditions(f, i, sy)
            guarded = any((c == f'is_empty({pat})' and v == '0') or (c in (f'(len({pat}) Eq const(0))',) and v == '0') or
                          (c in (f'(len({pat}) Ne const(0))', f'(len({pat}) Gt const(0))') and v != '0') for c, v in conds)
            root = f.nice.split('::{closure')[0]
            ctx.instance(f'loop/{root}@{shared._ordinal(f, i)}', {'rule': 'C24.loop', 'fn': f.nice, 'loc': f'{f.file}:{t["l"]}', 'advance': rng[:80], 'pattern_known_non_empty': guarded})
            if not guarded:
                ctx.finding(f'loop/{root}', f'{root}: a loop advances by slicing {rng[:60]} off the string; with an empty pattern the string never gets shorter and the '
                            'statement never returns', f'{f.file}:{t["l"]}')
    ctx.floor('C24.loop slice-advance loops', n, 6)


def limit_offset_rule(ctx, prog):
    ctx.rule('C24.limit', 'Overflow asserts in vibesql_executor::select whose operand is a LIMIT / OFFSET value (a variable named limit / offset or stmt.limit / '
             'stmt.offset) are discharged by a dominating guard')
    VAR = re.compile(r'(?<![A-Za-z_.])(?:stmt\.)?(limit|offset)(?![A-Za-z_(])')
    n = 0
    for f in prog.fns.values():
        if f.unit != 'vibesql_executor' or shared.is_test(f) or f.dk == 'Promoted' or not f.nice.startswith(EX + 'select::'):
            continue
        sy = None
        for x in sites_of(prog, f):
            if x.kind != 'assert' or not x.detail.startswith('Overflow'):
                continue
            sy = sy or Sym(f)
            ops = [sy.op(o) for o in (x.term.get('ops') or [])]
            if not any(_is_limit_value(o) for o in ops):
                continue
            n += 1
            reason = auto_discharge(prog, f, x)
            root = f.nice.split('::{closure')[0]
            ctx.instance(f'limit/{x.key}', {'rule': 'C24.limit', 'fn': f.nice, 'loc': x.loc, 'op': x.detail, 'operands': [o[:60] for o in ops], 'discharged': bool(reason)})
            if not reason:
                ctx.finding(f'limit/{root}/{_opclass(x.detail)}', f'{root}: unchecked {x.detail} on a LIMIT / OFFSET value ({", ".join(o[:40] for o in ops)}): '
                            'LIMIT 18446744073709551615 OFFSET n panics in debug builds and wraps in release builds', x.loc)
    ctx.floor('C24.limit arithmetic on LIMIT / OFFSET values', n, 1)


CAST_SCOPE = re.compile(r'^vibesql_executor::(evaluator::(casting|functions::numeric|operators)|select::grouping|insert::validation)')
WIDTH = {'i8': 8, 'i16': 16, 'i32': 32, 'i64': 64, 'i128': 128, 'u8': 8, 'u16': 16, 'u32': 32, 'u64': 64, 'u128': 128, 'isize': 64, 'usize': 64}
F = EX + 'evaluator::functions::numeric::'
REVIEWED_CAST = {
    (EX + 'select::grouping::aggregates::AggregateAccumulator::combine', 'usize', 'i64'): 'size of a set of seen values (a count of rows), far below 2^63',
    (F + 'exponential::power', 'i64', 'i32'): 'guarded: the exponent is tested 0 <= exp <= i32::MAX before `as i32`',
    (F + 'rounding::round', 'i64', 'i32'): ('the precision is clamped to i32::MIN ..= i32::MAX before `as i32`', r'^clamp\('),
    (F + 'rounding::truncate', 'i64', 'i32'): ('the precision is clamped to i32::MIN ..= i32::MAX before `as i32`', r'^clamp\('),
    (F + 'decimal::format_number', 'usize', 'i32'): 'number of decimal places already clamped to a small usize',
    (F + 'decimal::format', 'i64', 'usize'): 'decimal places after max(0) / clamp (FORMAT(1.5, -1) gives "2": observed)',
    (EX + 'evaluator::casting::cast_value', 'i64', 'u64'): 'CAST(.. AS UNSIGNED): wrap-around of negative values is the documented MySQL behaviour (source comment)',
    (EX + 'evaluator::casting::cast_value', 'f64', 'u64'): 'CAST(float AS UNSIGNED): truncation is the documented MySQL behaviour (source comment)',
    (EX + 'evaluator::casting::cast_value', 'f32', 'u64'): 'CAST(float AS UNSIGNED): truncation is the documented MySQL behaviour (source comment)',
    (EX + 'evaluator::casting::cast_value', 'u32', 'u8'): 'month / day of the current date (1..31)',
    (EX + 'evaluator::casting::float_to_i64', 'f64', 'i64'): 'the helper that performs the range test: `as i64` only after -2^63 <= x < 2^63 and is_finite',
    (EX + 'evaluator::operators::arithmetic::division::truncated_quotient', 'f64', 'i64'): 'range-tested before the conversion (error otherwise)',
    (EX + 'insert::validation::coerce_value', 'f64', 'i16'): 'INSERT coercion tests fract() == 0 and the range of the target first ("must be whole number in range", observed)',
    (EX + 'insert::validation::coerce_value', 'f64', 'i64'): 'INSERT coercion tests fract() == 0 and the range of the target first ("must be whole number in range", observed)',
}


def narrowing_cast_rule(ctx, prog):
    ctx.rule('C24.cast', 'narrowing `as` conversions to an integer type in CAST, the arithmetic operators, numeric functions, aggregates and INSERT coercion are '
             'in the reviewed table (value provably fits / documented behaviour); any other one is a finding')
    seen = {}
    syms = {}
    for f in prog.fns.values():
        if f.unit != 'vibesql_executor' or shared.is_test(f) or f.dk == 'Promoted' or not CAST_SCOPE.match(f.nice):
            continue
        root = f.nice.split('::{closure')[0]
        for b in f.blocks:
            for st in b['s']:
                if 'd' in st and st['v']['r'] == 'cast':
                    fr, to = str(st['v'].get('from')), str(st['v'].get('to'))
                    narrowing = (fr in WIDTH and to in WIDTH and (WIDTH[to] < WIDTH[fr] or (fr[0] != to[0] and WIDTH[to] <= WIDTH[fr]))) \
                        or (fr in ('f32', 'f64') and to in WIDTH)
                    if narrowing:
                        sy = syms.setdefault(f.path, Sym(f))
                        seen.setdefault((root, fr, to), []).append((f'{f.file}:{st.get("l", f.line)}', sy.op(st['v']['a'])))
    ctx.floor('C24.cast narrowing conversions in value-computing code', len(seen), 8)
    for (root, fr, to), sites in sorted(seen.items()):
        locs = [l for l, _e in sites]
        why = REVIEWED_CAST.get((root, fr, to))
        if isinstance(why, tuple):
            # the reason holds only while the converted operand has the reviewed shape
            why = why[0] if all(re.search(why[1], e) for _l, e in sites) else None
        ctx.instance(f'cast/{root}/{fr}-{to}', {'rule': 'C24.cast', 'fn': root, 'from': fr, 'to': to, 'sites': len(locs), 'reviewed': bool(why)})
        if why:
            ctx.exempt(f'cast/{root}/{fr}-{to}', why)
        else:
            ctx.finding(f'cast/{root}/{fr}-{to}', f'{root}: `as {to}` applied to a {fr} computed from SQL values ({len(locs)} site(s)): a value that does not fit wraps '
                        '(integers) or saturates (floats) silently instead of giving the exact value or an error', locs[0])


LEAF = re.compile(r'^(?:unwrap_or\()?(?:stmt\.)?(?:limit|offset)(?:@Some\.0)?(?:, const\(\d+\)\))?$')


def _is_limit_value(e, depth=0):
    """the operand is a LIMIT / OFFSET variable itself, or arithmetic over one (not a value that merely depends on one through calls)"""
    e = e.strip()
    if LEAF.match(e):
        return True
    m = re.match(r'^\((.*)\)(?:\.0)?$', e)
    if m and depth < 4:
        inner = m.group(1)
        d = 0
        for k in range(len(inner)):
            ch = inner[k]
            if ch in '([':
                d += 1
            elif ch in ')]':
                d -= 1
            elif d == 0 and ch == ' ':
                mm = re.match(r'^ (Add|Sub|Mul)\w* ', inner[k:])
                if mm:
                    return _is_limit_value(inner[:k], depth + 1) or _is_limit_value(inner[k + len(mm.group(0)):], depth + 1)
    return False


def recursion_guard_rule(ctx, prog):
    from ..engine.cfg import cfg
    ctx.rule('C24.guard', 'in every function that obtains a RecursionGuard, no call into the vibesql crates is dominated by a (non-unwind) drop of a local of '
             'type RecursionGuard: the guard is alive while the triggers run')
    n = 0
    for f in prog.fns.values():
        if f.unit != 'vibesql_executor' or shared.is_test(f):
            continue
        news = [i for i, t in f.calls() if (callee_name(t) or '').endswith('RecursionGuard::new')]
        if not news:
            continue
        n += 1
        g = cfg(f)
        guards = {l for l, ty in enumerate(f.locals) if ty.endswith('RecursionGuard')}
        drops = [bi for bi, b in enumerate(f.blocks) if b['t']['k'] == 'drop' and not b['t'].get('cleanup') and b['t']['p'][0] in guards and not b['t']['p'][1]]
        work = [i for i, t in f.calls() if (callee_name(t) or '').startswith('vibesql_') and i not in news]
        early = [d for d in drops if any(g.dominates(d, w) and d != w for w in work)]
        ctx.instance(f'guard/{f.nice.rsplit("::", 1)[1]}', {'rule': 'C24.guard', 'fn': f.nice, 'guard_drops': len(drops), 'calls_after_a_drop': len(early)})
        if early or not drops:
            ctx.finding(f'guard/{f.nice.rsplit("::", 1)[1]}', f'{f.nice}: the RecursionGuard is dropped before the triggers are executed (bound to `_` / a temporary): the recursion '
                        'depth never accumulates, a trigger that fires itself overflows the stack instead of hitting the depth limit',
                        f'{f.file}:{f.blocks[(early or news)[0]]["t"].get("l", f.line)}')
    ctx.floor('C24.guard functions obtaining a RecursionGuard', n, 4)


def sum_marker_rule(ctx, prog):
    from ..engine.cfg import cfg
    ctx.rule('C24.sum', 'add_sql_values (SUM / AVG accumulation): if a failed addition is mapped to SqlValue::Null (overflow marker), no path returns a clone of '
             'one operand after testing the other for NULL (NULL must stay absorbing)')
    f = ctx.fn(EX + 'select::grouping::aggregates::add_sql_values')
    sy = Sym(f)
    maps_err_to_null = False
    identity = []
    for bi, b in enumerate(f.blocks):
        for st in b['s']:
            if 'd' in st and st['d'][0] == 0 and not st['d'][1] and st['v']['r'] == 'agg' and str(st['v'].get('adt', '')).endswith('SqlValue') \
                    and st['v'].get('variant') == 'Null':
                maps_err_to_null = True
        t = b['t']
        if t['k'] == 'call' and t.get('d') and t['d'][0] == 0 and re.search(r'Clone>::clone$|::clone$', callee_name(t) or ''):
            arg = sy.op(t['args'][0])
            conds = [(c, v) for c, v in shared.deciding_conditions(f, bi, sy) if c.startswith('is_null(') and v != '0']
            if conds and arg in ('a', 'b'):
                identity.append((arg, conds[0][0]))
    ctx.instance('sum/add_sql_values', {'rule': 'C24.sum', 'failed_add_becomes_null': maps_err_to_null, 'null_treated_as_identity': identity})
    if maps_err_to_null and identity:
        ctx.finding('sum/add_sql_values', 'add_sql_values maps an overflowing addition to NULL and also returns the other operand when one operand is NULL: after an '
                    'overflow the next row restarts the sum, SUM / AVG return a wrong finite value instead of NULL', f.loc)


def _advance_amount(rng):
    """X for RangeFrom(len(X)) and RangeTo((len(A) Sub len(X))) - the pattern whose length is sliced off"""
    m = re.match(r'^RangeFrom\(len\((.*)\)\)$', rng)
    if m:
        return m.group(1)
    m = re.match(r'^RangeTo\(\((.*)\)(\.0)?\)$', rng)
    if not m:
        return None
    inner = m.group(1)
    d = 0
    for k in range(len(inner)):
        ch = inner[k]
        if ch in '([':
            d += 1
        elif ch in ')]':
            d -= 1
        elif d == 0 and inner.startswith(' Sub', k):
            rest = inner[k + 1:].split(' ', 1)
            if len(rest) == 2:
                mm = re.match(r'^len\((.*)\)$', rest[1])
                if mm and inner[:k].startswith('len('):
                    return mm.group(1)
    return None


def _same_root(cond, pat):
    a = re.findall(r'[A-Za-z_][A-Za-z_0-9]*\*?', pat)
    return bool(a) and a[0].rstrip('*') in cond


def _natural_loop_heads(g):
    return {h for (_b, h) in g.back_edges()}


def _loop_body(g, h):
    return {b for b in g.reachable() if g.dominates(h, b) and h in g.reach_from([b])}


def _opclass(detail):
    if 'Div' in detail or 'Rem' in detail or 'ByZero' in detail:
        return 'div'
    if 'Neg' in detail:
        return 'neg'
    return 'addsubmul'


def _is_counter(f, s):
    """i32/i64 increments by the constant 1 of a local counter (count += 1) are bounded by the number of rows processed"""
    from ..engine.cfg import op_const
    ops = s.term.get('ops') or []
    if s.detail.startswith('Overflow(Add)') and len(ops) == 2:
        c = [op_const(o) for o in ops]
        if 1 in c and not any(isinstance(x, int) and x != 1 for x in c):
            return True
    return False


def _nonzero_guard(prog, f, s):
    """division / remainder whose divisor is tested against zero on every path"""
    from ..engine.panics import dominating_facts, _normalise_fact
    if 'ByZero' not in s.detail:
        return None
    sym = Sym(f)
    ops = s.term.get('ops') or []
    if not ops:
        return None
    # the divisor is the operand of the Eq(x, 0) statement in the assert's block
    blk = f.blocks[s.block]
    div = None
    for st in blk['s']:
        if 'd' in st and st['v']['r'] == 'bin' and st['v']['op'] == 'Eq':
            div = sym.op(st['v']['a'])
    if div is None:
        return None
    for cond, val in dominating_facts(prog, f, s.block, sym):
        for (op, x, y) in _normalise_fact(prog, f, cond, val):
            if x == div and y in ('const(0)',) and op == 'Ne':
                return f'guarded by dominating test {x} != 0'
            if y == div and x in ('const(0)',) and op == 'Ne':
                return f'guarded by dominating test {y} != 0'
    return None
