"""C13 ROLLBACK restores exactly the state at BEGIN — snapshot completeness (T11).

Decides: the set of Database fields that statement execution can write is covered by the fields
BEGIN captures (by clone) and ROLLBACK restores; rollback assigns every captured field on its
success path; COMMIT restores nothing.  Does NOT decide that Clone of Table/Catalog is deep.
Database.operations (index manager, spatial indexes) is captured and restored through methods rather than by clone: one
level down, every field of Operations that statement execution writes must be read under begin_transaction and written
under rollback_transaction (the index manager: its definitions are captured and the indexes rebuilt over the restored
tables; the spatial indexes: cloned and assigned back).
(restore) Operations::restore rebuilds from the captured definitions, not from what the transaction left behind: its loop
over the registered indexes drops on every iteration, and its loop over the captured definitions re-creates on every
iteration (an index dropped and re-created under the same name inside the transaction must not survive by its name).
(own) outside the COMMIT/ROLLBACK executors a function ends (rolls back or commits) only a transaction that its
own begin_transaction opened on the same path."""
from ..engine.callgraph import CallGraph
from ..engine.facts import callee_name
from ..engine.paths import success_starts
from ..engine.cfg import cfg
from ..engine.cfg import op_place, defs_of, op_local
from . import matrix as M

UNITS = M.EXECUTOR_UNITS
DB = 'vibesql_storage::database::core::Database'
TM = 'vibesql_storage::database::transactions::TransactionManager::'

NON_TRANSACTIONAL = {
    'lifecycle': 'holds the transaction manager itself plus session role/security flags (session state, not database state)',
    'query_buffer_pool': 'scratch buffers reused between queries; not observable',
    'sql_mode': 'session setting chosen by the client, not part of the stored database',
}


# fields that are exempt only as long as their writers are exactly these functions
SESSION_ONLY_WRITERS = {
    'metadata': ({M.D + 'set_session_variable', M.D + 'clear_session_variables'},
                 'the only reachable writers are the session-variable setters (session state); the routine-body cache in '
                 'the same field is not written from any statement executor'),
}


def db_field_uses(fn, mutable_only, ty=None):
    """{field: line} Database fields (or fields of struct `ty`) borrowed (mutably) or assigned in fn"""
    out = {}
    ty = ty or DB
    dbl = {i for i, t in enumerate(fn.locals) if t.replace('&mut ', '').replace('&', '') == ty}
    if not dbl:
        return out

    def field_of(p):
        if p[0] in dbl:
            proj = [e for e in p[1] if e != '*']
            if proj and proj[0].startswith('.'):
                return proj[0][1:]
        return None
    for b in fn.blocks:
        if b['t'].get('cleanup'):
            continue
        for s in b['s']:
            if 'd' not in s:
                continue
            fl = field_of(s['d'])
            if fl and s['d'][1] and s['d'][1] != ['*']:
                out.setdefault(fl, s['l'])          # assignment into the field
            v = s['v']
            if v['r'] in ('ref', 'rawptr'):
                fl = field_of(v['p'])
                if fl and (v['mut'] or not mutable_only):
                    out.setdefault(fl, s['l'])
    return out


def run(ctx):
    prog = ctx.prog
    cg = CallGraph(prog)
    adt = prog.adt(DB)
    fields = [f['name'] for f in adt['variants'][0]['fields']]
    ctx.require(set(fields) >= {'catalog', 'tables', 'operations', 'lifecycle'}, f'Database fields changed: {fields}')
    vis = {f['name']: f['vis'] for f in adt['variants'][0]['fields']}

    # ---------------------------------------------------------------- captured / restored sets
    ctx.rule('C13.snapshot', 'fields of Database written by any function reachable from the statement executors ⊆ fields '
             'captured by Database::begin_transaction (cloned) ∩ fields restored by Database::rollback_transaction, except '
             'listed non-transactional fields')
    begin = ctx.fn(M.D + 'begin_transaction')
    rollback = ctx.fn(M.D + 'rollback_transaction')
    captured = set(db_field_uses(begin, mutable_only=False)) - {'lifecycle'}
    restored = set(db_field_uses(rollback, mutable_only=True)) - {'lifecycle'}
    ctx.extra['captured_by_begin'] = sorted(captured)
    ctx.extra['restored_by_rollback'] = sorted(restored)
    ctx.require(captured and restored, 'begin/rollback no longer touch any Database field: anchors moved')
    snap = captured & restored

    # TransactionManager level: begin clones both arguments into the Active state; rollback assigns both
    tb = ctx.fn(TM + 'begin_transaction')
    clones = [t for _, t in tb.calls() if (callee_name(t) or '').endswith('as core::clone::Clone>::clone')]
    cloned_args = set()
    dtb = defs_of(tb)
    for t in clones:
        l = op_local(t['args'][0])
        for _ in range(4):
            if l is None:
                break
            if 1 <= l <= tb.argc:
                cloned_args.add(l); break
            ds = dtb.get(l, [])
            if len(ds) != 1 or ds[0][1] != 'assign' or ds[0][2]['r'] != 'ref':
                break
            l = ds[0][2]['p'][0]
    ctx.instance('TransactionManager::begin_transaction', {'cloned_args': sorted(cloned_args)})
    if not {2, 3} <= cloned_args:
        ctx.finding('begin/clone', 'TransactionManager::begin_transaction no longer clones both the catalog and the tables', tb.loc)
    tr = ctx.fn(TM + 'rollback_transaction')
    assigned = set()
    for i, b in enumerate(tr.blocks):
        if b['t'].get('cleanup'):
            continue
        for s in b['s']:
            if 'd' in s and s['d'][1] == ['*'] and 1 <= s['d'][0] <= tr.argc:
                assigned.add(s['d'][0])
    ctx.instance('TransactionManager::rollback_transaction', {'assigned_args': sorted(assigned)})
    if not {2, 3} <= assigned:
        ctx.finding('rollback/assign', 'TransactionManager::rollback_transaction no longer assigns both *catalog and *tables from the snapshot', tr.loc)
    # the snapshot values come from the Active state (original_*), via clone
    srcs = set()
    for b in tr.blocks:
        for s in b['s']:
            if 'd' in s and s['v']['r'] == 'ref':
                for e in s['v']['p'][1]:
                    if e in ('.original_catalog', '.original_tables'):
                        srcs.add(e)
    if srcs != {'.original_catalog', '.original_tables'}:
        ctx.finding('rollback/source', f'rollback_transaction restores from {sorted(srcs)} instead of original_catalog+original_tables', tr.loc)

    # ---------------------------------------------------------------- writers
    entries = [f for f in prog.fns.values() if f.unit == 'vibesql_executor' and f.epub and not f.is_closure()
               and not f.nice.startswith('vibesql_executor::transaction::')]
    ctx.floor('effectively public executor functions (writer entry set)', len(entries), 300)
    reach = cg.reach([f.path for f in entries])
    tx_ctl = {M.D + n for n in ('begin_transaction', 'commit_transaction', 'rollback_transaction', 'rollback_to_savepoint',
                                'create_savepoint', 'release_savepoint', 'record_change', 'undo_change')}
    written = {}
    nfn = 0
    for p in reach:
        f = prog.fns[p]
        if f.nice in tx_ctl:
            continue
        u = db_field_uses(f, mutable_only=True)
        if u:
            nfn += 1
        for fl, line in u.items():
            written.setdefault(fl, []).append((f.nice, f'{f.file}:{line}'))
    ctx.extra['functions_writing_database_fields'] = nfn
    ctx.extra['written_fields'] = {k: len(v) for k, v in written.items()}
    ctx.floor('functions that write a Database field, reachable from executors', nfn, 20)
    for fl in fields:
        ws = written.get(fl, [])
        ctx.instance(f'field/{fl}', {'field': fl, 'writers': len(ws), 'snapshotted': fl in snap, 'sample_writer': ws[:1]})
        if not ws or fl in snap:
            continue
        if fl in NON_TRANSACTIONAL:
            ctx.exempt(f'snapshot/{fl}', NON_TRANSACTIONAL[fl])
            continue
        if fl in SESSION_ONLY_WRITERS and {w for w, _ in ws} <= SESSION_ONLY_WRITERS[fl][0]:
            ctx.exempt(f'snapshot/{fl}', SESSION_ONLY_WRITERS[fl][1])
            continue
        ctx.finding(f'snapshot/{fl}', f'Database.{fl} is written by {len(ws)} functions reachable from statement execution '
                    f'(e.g. {ws[0][0]}) but is neither captured by BEGIN nor restored by ROLLBACK', ws[0][1],
                    {'writers': ws[:20]})
    for fl in fields:
        if fl not in written and fl not in snap and vis[fl].startswith('Public'):
            pass

    # ---------------------------------------------------------------- one level down: the parts of Database.operations
    OPS = 'vibesql_storage::database::operations::Operations'
    ctx.rule('C13.snapshot.operations', 'Database.operations is captured and restored through methods, not by clone: every field of Operations that a function '
             'reachable from statement execution writes is read by what begin_transaction reaches and written by what rollback_transaction reaches')
    ops_fields = [f['name'] for f in prog.adt(OPS)['variants'][0]['fields']]
    ctx.require(len(ops_fields) >= 2, f'Operations fields changed: {ops_fields}')

    def ops_uses(paths, mutable_only):
        out = {}
        for p_ in paths:
            f_ = prog.fns.get(p_)
            if f_ is None:
                continue
            for k, line in db_field_uses(f_, mutable_only, OPS).items():
                out.setdefault(k, []).append((f_.nice, f'{f_.file}:{line}'))
        return out
    cap = ops_uses(cg.reach([begin.path]), mutable_only=False)
    res = ops_uses(cg.reach([rollback.path]), mutable_only=True)
    wr = ops_uses([p_ for p_ in reach if prog.fns[p_].nice not in tx_ctl], mutable_only=True)
    for fl in ops_fields:
        ws = [w for w in wr.get(fl, []) if not w[0].endswith('Operations::restore')]
        ok_ = fl in cap and fl in res
        ctx.instance(f'field/operations.{fl}', {'field': 'operations.' + fl, 'writers': len(ws), 'read_under_begin': fl in cap, 'written_under_rollback': fl in res})
        if ws and not ok_:
            ctx.finding(f'snapshot/operations.{fl}', f'Database.operations.{fl} is written by {len(ws)} functions reachable from statement execution (e.g. {ws[0][0]}) '
                        'but BEGIN does not read it and/or ROLLBACK does not write it: what a rolled-back transaction did to it stays', ws[0][1], {'writers': ws[:20]})

    # private fields: only vibesql-storage can touch them (closed world for the writer set)
    for fl in ('operations', 'metadata', 'lifecycle'):
        ctx.require(not vis[fl].startswith('Public'), f'Database.{fl} became public: the writer set is no longer closed-world')

    # ---------------------------------------------------------------- COMMIT restores nothing; executors reach the storage calls
    ctx.rule('C13.commit', 'Database::commit_transaction reaches neither rollback_transaction nor a write of catalog/tables; '
             'Begin/Commit/Rollback executors reach the matching Database call')
    commit = ctx.fn(M.D + 'commit_transaction')
    rc = cg.reach([commit.path])
    bad = [prog.fns[p].nice for p in rc if prog.fns[p].nice in (TM + 'rollback_transaction', M.D + 'rollback_transaction',
                                                               'vibesql_storage::database::lifecycle::Lifecycle::perform_rollback')]
    ctx.instance('commit')
    if bad or set(db_field_uses(commit, True)) & {'catalog', 'tables'}:
        ctx.finding('commit/restores', f'COMMIT path touches the snapshot restore ({bad})', commit.loc)
    for ex, target in (('BeginTransactionExecutor', 'begin_transaction'), ('CommitExecutor', 'commit_transaction'),
                       ('RollbackExecutor', 'rollback_transaction')):
        f = ctx.fn(f'vibesql_executor::transaction::{ex}::execute')
        names = {callee_name(t) for _, t in f.calls()}
        ctx.instance(f'executor/{ex}')
        if M.D + target not in names:
            ctx.finding(f'executor/{ex}', f'{ex}::execute no longer calls Database::{target}', f.loc)

    # ---------------------------------------------------------------- ownership of the transaction a statement ends
    ctx.rule('C13.own', 'outside the COMMIT / ROLLBACK executors, a function of the executor may call Database::rollback_transaction or '
             'commit_transaction only where its own successful Database::begin_transaction dominates the call (a statement ends only '
             'the transaction it opened itself, never the caller\'s)')
    TXEX = 'vibesql_executor::transaction::'
    nown = 0
    for f in prog.fns.values():
        if f.unit != 'vibesql_executor' or f.nice.startswith(TXEX) or '/tests' in f.file or '::tests::' in f.nice:
            continue
        ends = [(i, t) for i, t in f.calls() if callee_name(t) in (M.D + 'rollback_transaction', M.D + 'commit_transaction')]
        if not ends:
            continue
        g = cfg(f)
        begins = [i for i, t in f.calls() if callee_name(t) == M.D + 'begin_transaction']
        starts = set()
        for b in begins:
            starts |= set(success_starts(f, b))
        for i, t in ends:
            nown += 1
            what = callee_name(t).rsplit('::', 1)[1]
            owned = any(g.dominates(s0, i) for s0 in starts)
            if not owned and begins:
                # flag-correlated form: `if !in_tx { begin }` ... `if !in_tx { commit }` — the call runs only under the
                # conditions under which this function's begin ran
                from . import shared
                cb = set()
                for b in begins:
                    cb |= {c for c in shared.deciding_conditions(f, b) if not c[0].startswith('discr(branch(')}
                ce = shared.deciding_conditions(f, i)
                owned = bool(cb) and cb <= ce
            ctx.instance(f'own/{f.nice}/{what}', {'rule': 'C13.own', 'fn': f.nice, 'loc': f'{f.file}:{t["l"]}', 'dominated_by_own_begin': owned})
            if not owned:
                ctx.finding(f'own/{f.nice}/{what}', f'{f.nice} calls {what} on a path where it has not itself opened the transaction: a '
                            'failing statement inside BEGIN ... would end (roll back or commit) the user\'s transaction', f'{f.file}:{t["l"]}')
    ctx.floor('C13.own transaction-ending calls outside the transaction executors', nown, 2)
    ctx.assumptions.append('derived Clone of Catalog/Table/HashMap is a deep copy')


_run_main = run


def run(ctx):
    _run_main(ctx)
    restore_rule(ctx)


def restore_rule(ctx):
    import re
    from ..engine.paths import loop_headers, search
    from ..engine.symexpr import Sym
    prog = ctx.prog
    ctx.rule('C13.restore', 'Operations::restore: every iteration of the loop over list_indexes() passes IndexManager::drop_index, every iteration of the loop over the '
             'captured definitions passes Operations::create_index (no iteration path reaches the loop head again without it)')
    f = ctx.fn('vibesql_storage::database::operations::Operations::restore')
    s = Sym(f)
    g = cfg(f)
    lh = loop_headers(f)
    found = {}
    for h, (sw, none_t) in lh.items():
        it = s.op(f.blocks[h]['t']['args'][0]) if f.blocks[h]['t'].get('args') else ''
        kind = 'drop' if 'list_indexes(' in it else 'create' if re.search(r'snapshot\.indexes|\.indexes\b', it) else None
        if kind is None:
            continue
        want = 'drop_index' if kind == 'drop' else 'create_index'
        must = {i for i, t in f.calls() if (callee_name(t) or '').endswith('::' + want)}
        body = [x for x in g.succ[sw] if x != none_t and f.blocks[x]['t']['k'] != 'unreachable']
        reached, _ = search(f, body, must, loop_model=False)
        found[kind] = bool(must) and h not in reached
    ctx.instance('restore/loops', {'rule': 'C13.restore', 'fn': f.nice, 'drop_loop_drops_every_index': found.get('drop'), 'create_loop_recreates_every_definition': found.get('create')})
    if not found.get('drop'):
        ctx.finding('restore/drop-all', 'Operations::restore no longer drops every registered index before rebuilding: an index created inside the rolled-back transaction (or re-created '
                    'under an old name with another definition) survives ROLLBACK', f.loc)
    if not found.get('create'):
        ctx.finding('restore/create-all', 'Operations::restore no longer re-creates every captured index definition: definitions whose name is still registered are kept as the '
                    'transaction left them (DROP INDEX i; CREATE INDEX i ON t(b) inside the transaction survives ROLLBACK)', f.loc)
