"""C20 Loading damaged database files fails cleanly — structural clauses (T5 + T7 + T6).

Decides over the persistence functions reachable from Database::load / load_binary / load_compressed / load_json:
 (R1) complete may-panic inventory (asserts, panicking library calls, explicit panics, allocations): every construct is
      discharged by a local rule or listed in the reviewed table; anything else is a finding;
 (R2) untrusted sizes: no allocation (vec![x; n], with_capacity, reserve, resize) is sized by a value decoded from the
      file (read_u16/u32/u64) — a damaged length prefix must not turn into a huge allocation;
 (R3) untrusted loop bounds: a loop that runs up to a count decoded from the file either performs a fallible read on
      every iteration path (so it stops at end of file) or its bound is validated (compared, with an error exit)
      before the loop;
 (R4) the readers reachable from the loaders are not recursive without a depth limit.
The SQL-dump path is covered as far as the file itself is handled: read_sql_dump (format sniffing), parse_sql_statements (the
splitter), load_sql_dump and its error reporting, and the row normalisation that every loaded row passes (R1 applies to them).
Does NOT decide serde_json / zstd internals (a zstd frame can legitimately expand far beyond the file size:
reported in the evidence, not as a violation) nor parsing and execution of the statements of a dump (C23 / C24)."""
import re
from ..engine.facts import callee_name
from ..engine.callgraph import CallGraph
from ..engine.cfg import cfg
from ..engine.panics import may_panic_sites, auto_discharge, recursive_components, cycle_without
from ..engine.symexpr import Sym
from ..engine.paths import loop_headers, exit_classes
from .C23 import _const_nonzero_arg, _has_depth_guard
from . import shared

UNITS = {'vibesql_storage', 'vibesql_types', 'vibesql_catalog', 'vibesql_ast', 'vibesql_executor'}
P = 'vibesql_storage::persistence::'
REVIEWED = {
    (P + 'binary::data::read_data', 'alloc', 'alloc::vec::Vec::with_capacity'):
        'capacity = number of columns of the table already built from the catalog section (each column cost bytes of the file)',
}
UNTRUSTED = re.compile(r'read_u(8|16|32|64)\(|read_i(16|32|64)\(|from_le_bytes\(')


def run(ctx):
    prog = ctx.prog
    cg = CallGraph(prog)
    entries = [f for f in prog.fns.values() if f.unit == 'vibesql_storage' and not f.is_closure()
               and re.search(r'persistence::.*Database>::load(_binary|_compressed|_json)?$', f.nice)]
    ctx.floor('loader entry points', len(entries), 4)
    reach = cg.reach([f.path for f in entries])
    fns = [prog.fns[p] for p in reach if p in prog.fns and not shared.is_test(prog.fns[p]) and prog.fns[p].nice.startswith(P)]
    ctx.floor('persistence functions reachable from the loaders', len(fns), 100)
    # the SQL-dump path: the functions that read the file, sniff its format, split it into statements and report a failing statement
    # (parsing and executing the statements themselves is C23 / C24), and the row normalisation every loaded row goes through
    dump = [f for f in prog.fns.values() if not shared.is_test(f) and not f.is_closure() and f.dk != 'Promoted' and
            (f.nice.startswith('vibesql_storage::persistence::load::') or f.nice.startswith('vibesql_executor::persistence::')
             or (f.nice.startswith('vibesql_storage::table::normalization::') and f.path in reach))]
    ctx.floor('SQL-dump readers and row normalisation functions', len(dump), 6)
    fns = fns + [f for f in dump if f not in fns]
    ctx.extra['entries'] = sorted(f.nice for f in entries)

    # ------------------------------------------------------------------ R1
    ctx.rule('C20.R1', 'every may-panic construct and allocation in the persistence functions reachable from the loaders is auto-discharged '
             'or listed in the reviewed table')
    sites = may_panic_sites(prog, fns, with_alloc=True)
    ctx.floor('C20.R1 constructs inventoried', len(sites), 15)
    for s in sites:
        reason = auto_discharge(prog, s.fn, s) or _const_nonzero_arg(s) or _range_full(s)
        rk = (s.fn.nice, s.kind, s.detail)
        status = 'discharged' if reason else 'reviewed' if rk in REVIEWED else 'open'
        ctx.instance(f'R1/{s.key}', {'rule': 'C20.R1', 'fn': s.fn.nice, 'loc': s.loc, 'construct': f'{s.kind}:{s.detail}', 'status': status,
                                     'reason': (reason or REVIEWED.get(rk, ''))[:160]})
        if status == 'reviewed':
            ctx.exempt(f'R1/{s.key}', REVIEWED[rk])
        if status == 'open':
            ctx.finding(f'R1/{s.key}', f'{s.fn.nice}: {s.kind} `{s.detail}` can panic / abort on some file content and is neither guarded nor reviewed', s.loc)

    # ------------------------------------------------------------------ R2 untrusted allocation sizes
    ctx.rule('C20.R2', 'no allocation in the reader functions is sized by a value decoded from the file')
    nalloc = 0
    for s in sites:
        if s.kind != 'alloc':
            continue
        nalloc += 1
        sy = Sym(s.fn)
        size = ' '.join(sy.op(a) for a in s.term['args'])
        tainted = bool(UNTRUSTED.search(size))
        ctx.instance(f'R2/{s.key}', {'rule': 'C20.R2', 'fn': s.fn.nice, 'loc': s.loc, 'size': size[:140], 'from_file': tainted})
        if tainted:
            ctx.finding(f'R2/{s.fn.nice}/{s.detail}', f'{s.fn.nice}: allocation sized by `{size[:100]}`, a value read from the file: a damaged length '
                        'prefix requests up to 4 GiB (abort under a memory limit) before any byte of the payload is read', s.loc)
    ctx.extra['R2'] = {'allocations_examined': nalloc}

    # ------------------------------------------------------------------ R3 untrusted loop bounds
    ctx.rule('C20.R3', 'a loop over 0..n with n decoded from the file has a fallible read on every iteration path, or n takes part in a '
             'comparison with an error exit before the loop')
    readers = set()
    for p in reach:
        if p in prog.fns:
            f = prog.fns[p]
            if re.search(r'::read_(u8|u16|u32|u64|i64|f32|f64|bool|string|sql_value|exact)$', f.nice) or f.nice.endswith('::read_header'):
                readers.add(f.nice)
    for p in reach:
        if p in prog.fns and prog.fns[p].nice.startswith(P):
            if any(prog.fns[q].nice in readers for q in cg.reach([p]) if q in prog.fns):
                readers.add(prog.fns[p].nice)
    nloops = 0
    for f in fns:
        if f.is_closure():
            continue
        lh = loop_headers(f)
        if not lh:
            continue
        g = cfg(f)
        sy = Sym(f)
        from ..engine.linear import Encoder
        enc = Encoder(prog, f)
        for h in lh:
            root = _iter_sym(f, sy, h)
            if not UNTRUSTED.search(root):
                continue
            nloops += 1
            body = shared._body(enc, h)
            rblocks = {b for b in body if f.blocks[b]['t']['k'] == 'call' and (callee_name(f.blocks[b]['t']) or '') in readers}
            adj = {b: [x for x in g.succ[b] if x in body] for b in body}
            cyc = cycle_without(adj, list(body), rblocks)
            # validation of the bound before the loop
            bound = re.search(r'Range\(const\(0\), (.*)$', root)
            bexpr = bound.group(1) if bound else root
            while bexpr.endswith(')') and bexpr.count(')') > bexpr.count('('):
                bexpr = bexpr[:-1]
            validated = False
            try:
                err, _ok = exit_classes(f)
            except Exception:
                err = set()
            for sblk in g.reachable():
                t = f.blocks[sblk]['t']
                if t['k'] != 'switch' or not g.dominates(sblk, h) and sblk not in g.reach_from([0]):
                    continue
                if sblk in body:
                    continue
                cond = shared.switch_condition(f, sblk, sy)
                if bexpr in cond and re.search(r' (Gt|Ge|Lt|Le|Ne|Eq) ', cond):
                    # one arm leads to an error exit without entering the loop
                    for succ in g.succ[sblk]:
                        r = g.reach_from([succ], removed={h})
                        if r & err:
                            validated = True
            ctx.instance(f'R3/{f.nice}/loop@{_ordinal_loop(lh, h)}', {'rule': 'C20.R3', 'fn': f.nice, 'bound': bexpr[:100],
                                                                       'read_on_every_iteration': cyc is None, 'bound_validated': validated})
            if cyc and not validated:
                ctx.finding(f'R3/{f.nice}/{bexpr[:40]}', f'{f.nice}: the loop up to `{bexpr[:80]}` (a count read from the file) can complete an '
                            'iteration without reading from the file and the count is not validated: a damaged count makes the loader spin '
                            '(and grow) without end', f'{f.file}:{f.blocks[h]["t"]["l"]}')
    ctx.floor('C20.R3 loops bounded by a count read from the file', nloops, 8)

    # ------------------------------------------------------------------ R4 recursion
    ctx.rule('C20.R4', 'no recursive cycle among the persistence functions reachable from the loaders lacks a depth limit')
    comps = [c for c in recursive_components(prog, cg, reach) if any(prog.fns[p].nice.startswith(P) for p in c if p in prog.fns)]
    guards = {p for p in reach if p in prog.fns and _has_depth_guard(prog.fns[p])}
    ctx.instance('R4/recursion', {'rule': 'C20.R4', 'recursive_components': [sorted(prog.fns[p].nice for p in c if p in prog.fns)[:6] for c in comps]})
    for comp in comps:
        adj = {p: [q for q in cg.out.get(p, ()) if q in comp] for p in comp}
        cyc = cycle_without(adj, comp, guards)
        if cyc:
            rep = sorted(prog.fns[p].nice for p in comp if p in prog.fns)[0]
            ctx.finding(f'R4/{rep}', f'unbounded recursion while reading a file: {" -> ".join(prog.fns[p].nice.rsplit("::",1)[1] for p in cyc[:6] if p in prog.fns)}',
                        prog.fns[cyc[0]].loc)
    # decompression: reported, not alarmed
    dec = []
    for f in fns:
        for i, t in f.calls():
            if 'decode_all' in (callee_name(t) or ''):
                dec.append(f'{f.file}:{t["l"]}')
    ctx.extra['unbounded_decompression_calls'] = dec
    ctx.assumptions.append('serde_json and zstd are trusted not to panic; zstd::decode_all output size is not bounded by the loader (reported above)')


def _range_full(s):
    if s.kind == 'call' and s.detail.startswith('Index::index'):
        a = s.term['args']
        if len(a) >= 2:
            e = Sym(s.fn).op(a[1])
            if e.startswith('RangeFull'):
                return 'D1: full-range slice'
    return None


def _iter_sym(f, sy, h):
    t = f.blocks[h]['t']
    return sy.op(t['args'][0])


def _ordinal_loop(lh, h):
    return sorted(lh).index(h)
