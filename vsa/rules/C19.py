"""C19 SQL dump save/load round-trips table contents — alphabet and literal-form agreement (T8).

Decides: (R1) the dump writer doubles the quote character and wraps strings in quotes; (R2) every
character the statement splitter treats as an escape introducer inside a string is escaped by the
writer; (R3) the splitter's comment skipping and (R4) its line handling are not applied inside
string literals; (R5) every typed-literal keyword the writer emits has an arm in the parser's
literal parser; (R6) the signed numeric form the writer emits is a form the INSERT VALUES
evaluator accepts; (R7) the writer emits the string payload itself (only quote doubling applied); (R8) the
splitter leaves string mode only on the quote character that opened the string; (R9) the parser tries the exact
i64 reading of every numeric token before it falls back to f64.
Does NOT decide that INSERT coercion reproduces the exact value."""
from ..engine.facts import callee_name
from ..engine.cfg import cfg, op_const, op_local, op_place, defs_of, resolve_const, str_const
from ..engine.tables import enum_switches, switch_arm_regions
from ..engine.fmt import format_sites
from ..engine.paths import search, loop_headers, switch_target

UNITS = {'vibesql_storage', 'vibesql_types', 'vibesql_ast', 'vibesql_parser', 'vibesql_executor', 'vibesql_catalog'}
P = 'vibesql_storage::persistence::'
SV = 'vibesql_types::sql_value::SqlValue'


def char_switches(fn):
    """[(block, {char_code: target}, otherwise)] for switches on a `char` value"""
    out = []
    for i, b in enumerate(fn.blocks):
        t = b['t']
        if t['k'] == 'switch' and t['ty'] == 'char' and not t.get('cleanup'):
            out.append((i, {int(v): tb for v, tb in t['targets']}, t['else']))
    return out


def bool_flags(fn):
    """bool locals that are assigned a constant inside the function and tested by a switch: mode flags.
    {local: {'true_blocks': [...], 'false_blocks': [...], 'tests': [(block, true_target, false_target)]}}"""
    flags = {}
    for i, b in enumerate(fn.blocks):
        if b['t'].get('cleanup'):
            continue
        for s in b['s']:
            if 'd' in s and not s['d'][1] and fn.locals[s['d'][0]] == 'bool' and s['v']['r'] == 'use':
                c = op_const(s['v']['a'])
                if c in (0, 1) and s['d'][0] in fn.names:
                    f = flags.setdefault(s['d'][0], {'true_blocks': [], 'false_blocks': [], 'tests': []})
                    (f['true_blocks'] if c == 1 else f['false_blocks']).append(i)
    # tests: `_x = flag; switch _x`
    for i, b in enumerate(fn.blocks):
        t = b['t']
        if t['k'] != 'switch' or b['t'].get('cleanup'):
            continue
        on = op_place(t['on'])
        if on is None:
            continue
        src = on[0]
        for s in b['s']:
            if 'd' in s and s['d'][0] == on[0] and s['v']['r'] == 'use':
                p = op_place(s['v']['a'])
                if p and not p[1]:
                    src = p[0]
        if src in flags:
            flags[src]['tests'].append((i, switch_target(t, 1), switch_target(t, 0)))
    return {k: v for k, v in flags.items() if v['tests'] and v['true_blocks']}


def run(ctx):
    prog = ctx.prog
    w = ctx.fn(P + 'save::sql_value_to_literal')
    sp = ctx.fn(P + 'load::parse_sql_statements')

    # ---------------------------------------------------------------- R1 writer escaping
    ctx.rule('C19.R1', 'sql_value_to_literal: the Character/Varchar arm replaces the quote character by two quotes and wraps the text in quotes')
    sw = max(enum_switches(prog, w, SV), key=lambda s: len(s['arms']))
    regs = switch_arm_regions(w, sw)
    sreg = regs.get('Varchar', set()) | regs.get('Character', set())
    defs = defs_of(w)
    escaped = set()      # char codes escaped by the writer
    for i, t in w.calls():
        if i in sreg and (callee_name(t) or '').endswith('::replace'):
            pat = resolve_const(w, defs, t['args'][1])
            rep = resolve_const(w, defs, t['args'][2])
            if pat is not None and pat.get('t') == 'char' and rep is not None:
                r = str_const(rep)
                if r == chr(pat['v']) * 2:
                    escaped.add(pat['v'])
    tmpl = [s['text'] for s in format_sites(prog, w) if s['block'] in sreg]
    ctx.instance('R1/string-arm', {'rule': 'C19.R1', 'escaped_chars': sorted(chr(c) for c in escaped), 'templates': tmpl})
    if 39 not in escaped:
        ctx.finding('R1/quote-not-doubled', 'sql_value_to_literal no longer doubles the quote character inside string values', w.loc)
    if "'{}'" not in tmpl:
        ctx.finding('R1/not-quoted', f'sql_value_to_literal no longer wraps string values in quotes (templates {tmpl})', w.loc)

    # ---------------------------------------------------------------- R2 splitter escape introducers
    ctx.rule('C19.R2', 'parse_sql_statements: a character whose arm sets a one-shot flag (tested at the loop head and cleared on every '
             'path of its true branch: the "next character is escaped" idiom) must be a character the writer escapes')
    flags = bool_flags(sp)
    ctx.require(len(flags) >= 1, 'parse_sql_statements: no mode flags found (string state machine no longer recognised)')
    lh = loop_headers(sp)
    inner = max(lh) if lh else None
    one_shot = set()
    for fl, d in flags.items():
        for (tb, tt, ft) in d['tests']:
            resets = set(d['false_blocks'])
            # every path from the true target back to a loop header passes a reset of the flag
            reached, _ = search(sp, [tt], resets, loop_model=False)
            if not (reached & set(lh)):
                one_shot.add(fl)
    in_string = [fl for fl in flags if fl not in one_shot]
    cs = char_switches(sp)
    ctx.require(cs, 'parse_sql_statements: no per-character switch found')
    special = {}
    for blk, arms, other in cs:
        for c, tb in arms.items():
            special[c] = tb
    g = cfg(sp)
    esc_intro = set()
    for c, tb in special.items():
        reg = {x for x in g.reachable() if g.dominates(tb, x)}
        for fl in one_shot:
            if set(flags[fl]['true_blocks']) & reg:
                esc_intro.add(c)
    ctx.instance('R2/splitter', {'rule': 'C19.R2', 'special_chars': sorted(chr(c) for c in special),
                                 'one_shot_flags': [sp.names.get(f) for f in one_shot], 'string_flags': [sp.names.get(f) for f in in_string],
                                 'escape_introducers': sorted(chr(c) for c in esc_intro)})
    for c in sorted(esc_intro):
        if c not in escaped:
            ctx.finding(f'R2/escape-introducer/{c}', f'the statement splitter treats {chr(c)!r} as an escape character inside string literals '
                        f'but the dump writer emits it raw: a value ending in it swallows the closing quote', sp.loc)
    if 39 not in special:
        ctx.finding('R2/quote', 'the statement splitter no longer recognises the quote character', sp.loc)

    # ---------------------------------------------------------------- R3 comment skipping
    ctx.rule('C19.R3', 'the `--` comment test of the splitter is dominated by a test of the in-string flag (comments are skipped only '
             'outside string literals)')
    ctests = []
    sdefs = defs_of(sp)
    for i, t in sp.calls():
        if (callee_name(t) or '').endswith('::starts_with'):
            for a in t['args']:
                c = resolve_const(sp, sdefs, a)
                if c and str_const(c) == '--':
                    ctests.append(i)
    ctx.instance('R3/comment-tests', {'rule': 'C19.R3', 'count': len(ctests)})
    for b in ctests:
        guarded = False
        for fl in in_string:
            for (tb, tt, ft) in flags[fl]['tests']:
                if g.dominates(ft, b) and tb != b:
                    guarded = True
        if not guarded:
            ctx.finding('R3/comment-in-string', 'lines starting with `--` are skipped even when they are inside a multi-line string literal', sp.loc)

    # ---------------------------------------------------------------- R4 newlines
    ctx.rule('C19.R4', 'if the splitter iterates over str::lines() (which drops line terminators) it pushes a newline back when inside a string')
    uses_lines = any((callee_name(t) or '') == 'core::str::<impl str>::lines' for _, t in sp.calls())
    pushes_nl = False
    for i, t in sp.calls():
        if (callee_name(t) or '') == 'alloc::string::String::push':
            c = resolve_const(sp, sdefs, t['args'][1])
            if c is not None and c.get('v') == 10:
                pushes_nl = True
    ctx.instance('R4/lines', {'rule': 'C19.R4', 'uses_lines': uses_lines, 'pushes_newline': pushes_nl})
    if uses_lines and not pushes_nl:
        ctx.finding('R4/newline-dropped', 'the splitter iterates over lines() and never re-inserts the newline: a string value containing a '
                    'line break is loaded without it', sp.loc)

    # ---------------------------------------------------------------- R5 typed literal keywords
    ctx.rule('C19.R5', 'every keyword that heads a literal form the writer emits (NULL, TRUE, FALSE, DATE, TIME, TIMESTAMP, INTERVAL) has an arm '
             'in Parser::parse_literal')
    heads = set()
    for site in format_sites(prog, w):
        if site['pieces'] and site['pieces'][0][0] == 'lit':
            h = site['pieces'][0][1].split(" ")[0].strip("'")
            if h.isalpha():
                heads.add(h.upper())
    from ..engine.cfg import string_literals
    for s in string_literals(prog, w):
        if s.isalpha() and s.isupper():
            heads.add(s)
    pl = [f for f in prog.fns.values() if f.unit == 'vibesql_parser' and f.nice.endswith('::parse_literal') and not f.is_closure()]
    ctx.require(len(pl) == 1, 'Parser::parse_literal not found')
    pl = pl[0]
    KW = [a for a in prog.adts if a.startswith('vibesql_parser::') and a.endswith('::Keyword')]
    ctx.require(len(KW) == 1, 'parser Keyword enum not found')
    arms = set()
    for s in enum_switches(prog, pl, KW[0]):
        arms |= set(s['arms'])
    ctx.instance('R5/heads', {'rule': 'C19.R5', 'writer_heads': sorted(heads), 'parser_keyword_arms': sorted(arms)})
    for h in sorted(heads):
        if h.capitalize() not in arms:
            ctx.finding(f'R5/keyword/{h}', f'the dump writer emits {h} literals but Parser::parse_literal has no arm for Keyword::{h.capitalize()}', pl.loc)

    # ---------------------------------------------------------------- R6 signed numbers
    ctx.rule('C19.R6', 'integer/float values are written with Display (a leading minus for negatives); the INSERT VALUES evaluator must have an '
             'arm for unary operators (the parser produces UnaryOp(Minus, literal))')
    signed = False
    for v in ('Integer', 'Smallint', 'Bigint', 'Numeric', 'Double'):
        for i, t in w.calls():
            if i in regs.get(v, ()) and (callee_name(t) or '').endswith('ToString>::to_string'):
                signed = True
    ev = [f for f in prog.fns.values() if f.nice == 'vibesql_executor::insert::defaults::evaluate_insert_expression_with_trigger_context']
    ctx.require(len(ev) == 1, 'insert::defaults::evaluate_insert_expression_with_trigger_context not found')
    ev = ev[0]
    EX = 'vibesql_ast::expression::Expression'
    prog.adt(EX)
    earms = set()
    for s in enum_switches(prog, ev, EX):
        earms |= set(s['arms'])
    ctx.instance('R6/insert-evaluator', {'rule': 'C19.R6', 'writer_emits_signed_numbers': signed, 'evaluator_arms': sorted(earms)})
    ctx.require('Literal' in earms, 'INSERT VALUES evaluator: match on Expression not found')
    if signed and 'UnaryOp' not in earms:
        ctx.finding('R6/negative-number', 'the dump writer emits negative numbers as -N but the INSERT VALUES evaluator has no arm for unary '
                    'minus: a dump containing a negative number cannot be loaded', ev.loc)


    # ---------------------------------------------------------------- R7 payload written unchanged
    from ..engine.symexpr import Sym
    from . import shared
    import re
    ctx.rule('C19.R7', 'sql_value_to_literal: the text placed between the quotes is replace(<payload>, quote, two quotes) of the '
             'Varchar/Character payload itself — no trimming, case change or other transformation')
    ws = Sym(w)
    for v in ('Varchar', 'Character'):
        shapes = []
        for i, t in w.calls():
            if i in regs.get(v, ()) and ((callee_name(t) or '').endswith('::replace') or '::replace<' in (callee_name(t) or '')):
                shapes.append(ws.op(t['args'][0]))
        ctx.instance(f'R7/{v}', {'rule': 'C19.R7', 'variant': v, 'replace_applied_to': shapes})
        for e in shapes:
            if not re.fullmatch(r'[A-Za-z_0-9]+@(Varchar|Character)\.0|phi\([A-Za-z_0-9]+@(Varchar|Character)\.0 \| [A-Za-z_0-9]+@(Varchar|Character)\.0\)', e):
                ctx.finding(f'R7/{v}/transformed', f'sql_value_to_literal writes `{e[:80]}` for {v} values instead of the stored text itself: what is '
                            'loaded back differs from what was saved', w.loc)

    # ---------------------------------------------------------------- R8 closing quote = opening quote
    ctx.rule('C19.R8', 'parse_sql_statements: every transition that leaves string mode is decided by a comparison of the current character '
             'with the variable that was assigned the opening quote when string mode was entered')
    ssym = Sym(sp)
    string_flags = []
    for fl, d in flags.items():
        # the string-mode flag is the one whose entering transition also remembers a character
        if any('d' in st and not st['d'][1] and st['d'][0] != fl and st['d'][0] in sp.names and sp.locals[st['d'][0]] == 'char'
               for tb in d['true_blocks'] for st in sp.blocks[tb]['s']):
            string_flags.append(fl)
    ctx.require(string_flags, 'parse_sql_statements: string-mode flag not recognised')
    for fl in string_flags:
        d = flags[fl]
        # locals assigned in the blocks that enter string mode
        openers = set()
        for tb in d['true_blocks']:
            for st in sp.blocks[tb]['s']:
                if 'd' in st and not st['d'][1] and st['d'][0] != fl and st['d'][0] in sp.names and sp.locals[st['d'][0]] == 'char':
                    openers.add(st['d'][0])
        enc_ = __import__('vsa.engine.linear', fromlist=['Encoder']).Encoder(prog, sp)
        inner = [b for b in d['false_blocks'] if any(b in shared._body(enc_, h) for h in lh)]
        ctx.instance(f'R8/{sp.names.get(fl)}', {'rule': 'C19.R8', 'opening_quote_variables': sorted(sp.names[o] for o in openers), 'closing_transitions': len(inner)})
        ctx.require(openers, 'parse_sql_statements: variable remembering the opening quote not recognised')
        sdefs_ = defs_of(sp)
        for b in inner:
            ok = False
            for sblk in shared.deciding_switches(sp, b):
                on = op_place(sp.blocks[sblk]['t']['on'])
                for st in sp.blocks[sblk]['s']:
                    if 'd' in st and on and st['d'][0] == on[0] and st['v']['r'] == 'bin' and st['v']['op'] == 'Eq':
                        roots = {shared.named_root(sp, sdefs_, st['v'][k])[0] for k in ('a', 'b')}
                        if roots & openers:
                            ok = True
            if not ok:
                ctx.finding('R8/closing-quote', 'the statement splitter leaves string mode on a character that is not compared with the quote that '
                            'opened the string: a value containing the other quote character (6" nail; ...) ends the literal early and the '
                            'statement is cut at the next semicolon', sp.loc)

    # ---------------------------------------------------------------- R9 exact integer reading first
    ctx.rule('C19.R9', 'Parser::parse_literal: the f64 reading of a numeric token is reached only after the i64 reading of the same token was '
             'tried (the i64 parse dominates the f64 parse)')
    plf = pl
    from ..engine.cfg import cfg as _cfg
    gpl = _cfg(plf)
    def parses(ty):
        out = []
        for i, t in plf.calls():
            cn = callee_name(t) or ''
            if re.search(r'::parse(<|$)', cn) and re.search(r'\b' + ty + r'\b', cn + ' ' + str(t['f'].get('ga') or '')):
                out.append(i)
        return out
    pi, pf = parses('i64'), parses('f64')
    ctx.instance('R9/parse_literal', {'rule': 'C19.R9', 'i64_parses': len(pi), 'f64_parses': len(pf)})
    ctx.require(pf, 'parse_literal: f64 parse not found')
    if not pi or not all(any(gpl.dominates(a, b) for a in pi) for b in pf):
        ctx.finding('R9/f64-without-i64', 'parse_literal sends some numeric tokens to the f64 reading without first trying the exact i64 reading: '
                    'integers beyond 2^53 written by the dump come back rounded', plf.loc)
