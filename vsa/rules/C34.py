"""C34 Row triggers fire once per affected row with the right row images — structural clauses.

Decides: (a) every row-mutation site reachable from INSERT/UPDATE/DELETE is bracketed by
execute_before_triggers / execute_after_triggers with the event and (OLD,NEW) shape of its kind,
or is one of the frozen sites dominated by a proof-of-absence guard; (b) each DML executor fires
exactly one before/after statement-trigger pair, outside row loops; (c) the row entry points fire
only ROW triggers, the statement ones only STATEMENT triggers, with the right timing, behind the
recursion guard; (d) the stored trigger action text is written with a SQL Display, not Debug;
(e) a proof-of-absence guard that lets a fast path skip trigger firing asks for the event of its executor and
tests the unfiltered trigger list for emptiness; (f) in UPDATE and DELETE the BEFORE loop, the mutation and
the AFTER loop range over the same rows (a derived vector is pushed on every iteration); (g) the compensation
after a failed AFTER INSERT trigger removes the new row by position, not by content.
Does NOT decide WHEN evaluation or OLD/NEW resolution."""
from ..engine.callgraph import CallGraph
from ..engine.paths import Precede, Follow, switch_target
from ..engine.facts import callee_name
from ..engine.cfg import cfg, defs_of, op_local, op_place, adt_literals
from . import matrix as M

UNITS = M.EXECUTOR_UNITS
EX = 'vibesql_executor::'
TF = EX + 'trigger_execution::TriggerFirer::'
BEFORE = TF + 'execute_before_triggers'
AFTER = TF + 'execute_after_triggers'
BEFORE_S = TF + 'execute_before_statement_triggers'
AFTER_S = TF + 'execute_after_statement_triggers'
GET_TRIG = 'vibesql_catalog::store::advanced::triggers::<impl vibesql_catalog::store::Catalog>::get_triggers_for_table'
CAN_TRUNC = EX + 'truncate_validation::can_use_truncate'

INS = EX + 'insert::execution::execute_insert_internal'
UPD = EX + 'update::UpdateExecutor::execute_internal'
DEL = EX + 'delete::executor::DeleteExecutor::execute_internal'

# frozen sites that are allowed to mutate without firing because a proof-of-absence guard precedes them
ABSENCE_SITES = {
    (INS, M.D + 'insert_rows_batch'): ({GET_TRIG}, 'batch insert is chosen only when get_triggers_for_table(INSERT) is empty'),
    (EX + 'delete::executor::execute_truncate', M.T + 'clear'): ({CAN_TRUNC}, 'truncate fast path is taken only when can_use_truncate (no DELETE triggers) holds'),
}
# sites outside the property's text or serving another purpose (reviewed)
SITE_EXCEPTIONS = {
    (INS, M.T + 'delete_where'): 'compensation: removes the row just inserted after its AFTER trigger failed',
}
# referential actions on *other* tables: the property speaks of the DML statement's own table
REFERENTIAL = ('vibesql_executor::delete::integrity::', 'vibesql_executor::update::foreign_keys::')

KIND = {}
for m in M.ROW_INSERT | M.DB_INSERT:
    KIND[m] = 'Insert'
for m in M.ROW_UPDATE:
    KIND[m] = 'Update'
for m in M.ROW_DELETE:
    KIND[m] = 'Delete'
SHAPE = {'Insert': ('None', 'Some'), 'Update': ('Some', 'Some'), 'Delete': ('Some', 'None')}


def agg_variant(fn, op, defs, suffix, depth=0):
    """variant name of the aggregate (ADT path ending with suffix) an operand was built from"""
    l = op_local(op)
    for _ in range(8):
        if l is None:
            return None
        ds = defs.get(l, [])
        if len(ds) != 1 or ds[0][1] != 'assign':
            return None
        v = ds[0][2]
        if v['r'] == 'agg' and v.get('kind') == 'adt' and v['adt'].endswith(suffix):
            return v['variant']
        if v['r'] in ('use', 'cast'):
            l = op_local(v['a'])
        else:
            return None
    return None


def run(ctx):
    prog = ctx.prog
    M.check_api_closed(ctx)
    cg = CallGraph(prog)
    entries = M.dml_entries(ctx)
    reach = cg.reach([f.path for fs in entries.values() for f in fs])
    scope = [f for f in prog.fns.values() if f.unit == 'vibesql_executor' and f.path in reach and not M.in_impl_table(f)]
    roots = lambda f: not [c for c in cg.inn.get(f.path, ()) if c in reach]
    muts = set(KIND)

    # ---------------------------------------------------------------- (a) bracketing
    ctx.rule('C34.a', 'each row-mutation call site reachable from the DML executors is preceded by execute_before_triggers and followed '
             'by execute_after_triggers (same event, (OLD,NEW) shape of its kind) on every path, or is a frozen absence-guarded site')

    def bracket_site(t, fn):
        cn = callee_name(t)
        if cn not in muts:
            return False
        if (fn.nice, cn) in ABSENCE_SITES or (fn.nice, cn) in SITE_EXCEPTIONS:
            return False
        return True
    nsites = 0
    for f in scope:
        for i, t in f.calls():
            cn = callee_name(t)
            if cn in muts:
                nsites += 1
                ctx.instance(f'a/{f.nice}/{cn}', {'rule': 'C34.a', 'fn': f.nice, 'loc': f'{f.file}:{t["l"]}', 'mutation': cn})
                if (f.nice, cn) in SITE_EXCEPTIONS:
                    ctx.exempt(f'a/{f.nice}/{cn}', SITE_EXCEPTIONS[(f.nice, cn)])
    ctx.floor('C34.a row-mutation call sites reachable from DML entry points', nsites, 9)

    pre = Precede(prog, cg, bracket_site, lambda t, fn: callee_name(t) == BEFORE, scope, g_summaries=False)
    fol = Follow(prog, cg, bracket_site, lambda t, fn: callee_name(t) == AFTER, scope, o_summaries=False)
    for what, eng, txt in (('before', pre, 'no execute_before_triggers precedes it'), ('after', fol, 'no execute_after_triggers follows it')):
        for (ofn, ocal), chain in sorted(M.shortest_escapes(eng, roots).items()):
            f = prog.by_nice[ofn][0]
            key = f'a/{what}/{ofn}/{ocal}'
            if ofn.startswith(REFERENTIAL):
                ctx.exempt(key, 'referential action on a child table; the property speaks of the triggers of the DML statement\'s '
                           'own table (firing child-table triggers from cascades is not decided)')
                continue
            ctx.finding(key, f'{ofn}: rows are changed by {ocal.rsplit("::",1)[1]} but {txt} on some path ({M.chain_str(chain)})',
                        f.loc, {'chain': chain})
    # absence-guarded sites: the guard must still precede them
    for (fn_n, cn), (guards, why) in ABSENCE_SITES.items():
        f = ctx.fn(fn_n)
        ctx.require(any(callee_name(t) == cn for _, t in f.calls()), f'frozen absence-guarded site vanished: {fn_n} / {cn}')
        pg = Precede(prog, cg, lambda t, fn, fn_n=fn_n, cn=cn: fn.nice == fn_n and callee_name(t) == cn,
                     lambda t, fn, guards=guards: callee_name(t) in guards, scope, g_summaries=False)
        esc = M.shortest_escapes(pg, roots)
        ctx.instance(f'a/absence/{fn_n}/{cn}')
        if esc:
            ctx.finding(f'a/absence/{fn_n}/{cn}', f'{fn_n}: {cn.rsplit("::",1)[1]} fires no triggers and its proof-of-absence guard '
                        f'({", ".join(g.rsplit("::",1)[1] for g in guards)}) no longer precedes it on every path', f.loc)

    # event and (OLD, NEW) shape of every firing call in the three executors
    for fn_n, kind in ((INS, 'Insert'), (UPD, 'Update'), (DEL, 'Delete')):
        f = ctx.fn(fn_n)
        defs = defs_of(f)
        for i, t in f.calls():
            cn = callee_name(t)
            if cn in (BEFORE, AFTER):
                ev = agg_variant(f, t['args'][2], defs, 'TriggerEvent')
                old = agg_variant(f, t['args'][3], defs, 'option::Option')
                new = agg_variant(f, t['args'][4], defs, 'option::Option')
                ctx.instance(f'a/shape/{fn_n}/{cn}', {'fn': fn_n, 'call': cn.rsplit('::', 1)[1], 'event': ev, 'old': old, 'new': new})
                if ev != kind:
                    ctx.finding(f'a/event/{fn_n}/{cn}', f'{fn_n}: {cn.rsplit("::",1)[1]} fires TriggerEvent::{ev} in the {kind} executor', f'{f.file}:{t["l"]}')
                # the AFTER INSERT call is `let r = ...(None, Some(&row))`; shapes are literal Option aggregates
                if (old, new) != SHAPE[kind] and not (old is None and new is None and False):
                    ctx.finding(f'a/shape/{fn_n}/{cn}', f'{fn_n}: {cn.rsplit("::",1)[1]} passes (OLD,NEW)=({old},{new}); {kind} needs {SHAPE[kind]}', f'{f.file}:{t["l"]}')
            elif cn in (BEFORE_S, AFTER_S):
                ev = agg_variant(f, t['args'][2], defs, 'TriggerEvent')
                if ev != kind:
                    ctx.finding(f'b/event/{fn_n}/{cn}', f'{fn_n}: {cn.rsplit("::",1)[1]} fires TriggerEvent::{ev} in the {kind} executor', f'{f.file}:{t["l"]}')

    # ---------------------------------------------------------------- (e) absence proofs are unfiltered
    ctx.rule('C34.e', 'a proof-of-absence guard (the test that lets a fast path skip all trigger firing, statement triggers included) '
             'asks get_triggers_for_table for the event of its executor and consumes the result only through an emptiness test: '
             'no closure-taking adaptor (any/filter/find/...) may narrow it to a subset of the triggers')
    FILTERING = ('any', 'all', 'filter', 'find', 'find_map', 'filter_map', 'position', 'skip', 'skip_while', 'take_while', 'map_while',
                 'nth', 'step_by', 'rposition', 'try_fold', 'fold')
    guards_seen = 0
    for fn_n, kind in ((INS, 'Insert'), (EX + 'truncate_validation::has_delete_triggers', 'Delete')):
        f = ctx.fn(fn_n)
        defs = defs_of(f)
        for i, t in f.calls():
            if callee_name(t) != GET_TRIG:
                continue
            guards_seen += 1
            ev = agg_variant(f, t['args'][2], defs, 'TriggerEvent') if agg_variant(f, t['args'][2], defs, 'option::Option') == 'Some' else None
            # the Option<TriggerEvent> argument: Some(Event)
            evl = None
            l = op_local(t['args'][2])
            ds = defs.get(l, [])
            if len(ds) == 1 and ds[0][1] == 'assign' and ds[0][2]['r'] == 'agg' and ds[0][2].get('variant') == 'Some':
                evl = agg_variant(f, ds[0][2]['ops'][0], defs, 'TriggerEvent')
            ctx.instance(f'e/{fn_n}', {'rule': 'C34.e', 'fn': fn_n, 'event': evl})
            if evl != kind:
                ctx.finding(f'e/event/{fn_n}', f'{fn_n}: the trigger-absence guard asks for event {evl}, the fast path it guards is a {kind}', f'{f.file}:{t["l"]}')
            # consumers of the iterator: calls that take (a reference to) the result local
            it = t['d'][0]
            aliases = {it}
            changed = True
            while changed:
                changed = False
                for b in f.blocks:
                    for st in b['s']:
                        if 'd' in st and not st['d'][1] and st['d'][0] not in aliases:
                            v = st['v']
                            src = v['p'][0] if v['r'] == 'ref' else (op_local(v['a']) if v['r'] in ('use', 'cast') else None)
                            if src in aliases:
                                aliases.add(st['d'][0]); changed = True
            for j, t2 in f.calls():
                if j == i or not t2['args'] or op_local(t2['args'][0]) not in aliases:
                    continue
                short = (callee_name(t2) or '?').rsplit('::', 1)[-1].split('<')[0]
                closure_arg = any((f.locals[op_local(a)] if op_local(a) is not None else '').find('{closure@') >= 0 for a in t2['args'][1:])
                if short in FILTERING or closure_arg:
                    ctx.finding(f'e/filtered/{fn_n}/{short}', f'{fn_n}: the trigger-absence guard narrows the trigger list with {short}(..) before '
                                f'testing for emptiness: triggers that do not pass the filter (e.g. statement-level ones) are skipped by the fast path',
                                f'{f.file}:{t2["l"]}')
    ctx.floor('C34.e trigger-absence guards', guards_seen, 2)
    ctx.require(any(callee_name(t) == EX + 'truncate_validation::has_delete_triggers' for _, t in ctx.fn(CAN_TRUNC).calls()),
                'can_use_truncate no longer calls has_delete_triggers (absence guard moved: re-derive clause e)')

    # ---------------------------------------------------------------- (f) BEFORE / mutation / AFTER range over the same rows
    ctx.rule('C34.f', 'in UPDATE and DELETE the BEFORE-row loop, the mutation and the AFTER-row loop range over the same collection of '
             'affected rows; a derived collection must be pushed exactly on every iteration path of a loop over the original and '
             'is not otherwise narrowed')
    from ..engine.linear import Encoder
    from ..engine.paths import loop_headers, search
    for fn_n in (UPD, DEL):
        f = ctx.fn(fn_n)
        g = cfg(f)
        enc = Encoder(prog, f)
        fdefs = defs_of(f)
        loop_of = enc.loop_of_block()
        lh = loop_headers(f)

        def loop_root_of_call(nm):
            out = []
            for i, t in f.calls():
                if callee_name(t) == nm:
                    L = loop_of.get(i)
                    out.append((i, L, enc.loop_root(L) if L is not None else None))
            return out
        bl = loop_root_of_call(BEFORE)
        al = loop_root_of_call(AFTER)
        ctx.require(len(bl) == 1 and len(al) == 1 and bl[0][1] is not None and al[0][1] is not None,
                    f'{fn_n}: expected one BEFORE and one AFTER row firing, each inside a loop (found {bl} / {al})')
        rb, ra = bl[0][2], al[0][2]
        ctx.instance(f'f/{fn_n}', {'rule': 'C34.f', 'fn': fn_n, 'before_loop_over': rb, 'after_loop_over': ra})
        if rb == ra:
            continue
        # AFTER ranges over a derived vec: find the local of that name and its pushes
        cand = [l for l, n in f.names.items() if n == ra]
        ok = False
        why = f'the AFTER loop ranges over `{ra}`, the BEFORE loop over `{rb}`'
        for V in cand:
            pushes = []
            others = []
            for i, t in f.calls():
                if not t['args']:
                    continue
                a0 = t['args'][0]
                l0 = op_local(a0)
                # &mut V taken just before the call
                src = None
                for (_b, kind_, v_) in fdefs.get(l0, []):
                    if kind_ == 'assign' and v_['r'] == 'ref' and v_.get('mut') and not v_['p'][1]:
                        src = v_['p'][0]
                if src != V:
                    continue
                short = (callee_name(t) or '?').rsplit('::', 1)[-1]
                (pushes if short == 'push' else others).append((i, short))
            if others:
                why = f'`{ra}` is also changed by {sorted({s for _, s in others})}'
                continue
            for (pb, _) in pushes:
                L = loop_of.get(pb)
                if L is None or enc.loop_root(L) != rb:
                    why = f'`{ra}` is filled in a loop over `{enc.loop_root(L) if L is not None else None}`, not `{rb}`'
                    continue
                sw, none_t = lh[L]
                body = [s for s in g.succ[sw] if s != none_t]
                reached, _ = search(f, body, {pb}, loop_model=False)
                if L in reached:
                    why = (f'`{ra}` is not pushed on every iteration of the loop over `{rb}` (some path reaches the next iteration without '
                           f'the push): rows skipped there get their BEFORE trigger but never their AFTER trigger')
                else:
                    ok = True
        if not ok:
            ctx.finding(f'f/{fn_n}/after-rows', f'{fn_n}: {why}', f'{f.file}:{f.blocks[al[0][0]]["t"]["l"]}')

    # ---------------------------------------------------------------- (g) the INSERT compensation removes by position
    ctx.rule('C34.g', 'the compensation after a failed AFTER INSERT trigger removes the row at the remembered position: the predicate '
             'handed to delete_where must not inspect row contents (rows equal to the new one would be destroyed too)')
    f = ctx.fn(INS)
    comp = [(i, t) for i, t in f.calls() if callee_name(t) == M.T + 'delete_where']
    ctx.instance('g/insert-compensation', {'rule': 'C34.g', 'delete_where_sites': len(comp)})
    for i, t in comp:
        # locate the closure body: the closure defined at the call's source line
        cbody = None
        for c in prog.children(f):
            if c.is_closure() and abs(c.line - t['l']) <= 1:
                cbody = c
        ctx.require(cbody is not None, 'INSERT compensation: closure passed to delete_where not found')
        uses_row = False
        for b in cbody.blocks:
            for st in b['s']:
                txt = repr(st)
                if "'c': [2," in txt or "'m': [2," in txt or "'p': [2," in txt:
                    uses_row = True
            tt = b['t']
            if tt['k'] == 'call' and any(op_local(a) == 2 for a in tt['args']):
                uses_row = True
        if uses_row:
            ctx.finding('g/insert-compensation/by-content', 'execute_insert_internal: the rollback after a failed AFTER INSERT trigger selects '
                        'rows to delete by their contents; pre-existing rows equal to the new row are deleted as well', f'{f.file}:{t["l"]}')

    # ---------------------------------------------------------------- (b) statement-level triggers
    ctx.rule('C34.b', 'each of the three DML executors calls execute_before_statement_triggers and execute_after_statement_triggers '
             'exactly once, outside every loop, before resp. after its row mutations')
    for fn_n in (INS, UPD, DEL):
        f = ctx.fn(fn_n)
        g = cfg(f)
        in_loop = set()
        for comp in g.sccs():
            in_loop |= set(comp)
        for nm in (BEFORE_S, AFTER_S):
            bs = [i for i, t in f.calls() if callee_name(t) == nm]
            ctx.instance(f'b/{fn_n}/{nm}')
            if len(bs) != 1:
                ctx.finding(f'b/count/{fn_n}/{nm}', f'{fn_n} calls {nm.rsplit("::",1)[1]} {len(bs)} times (exactly once per statement expected)', f.loc)
            elif bs[0] in in_loop:
                ctx.finding(f'b/loop/{fn_n}/{nm}', f'{fn_n} calls {nm.rsplit("::",1)[1]} inside a loop (would fire per row)', f.loc)
        # row firing must be inside a loop or per-row path: not checked (single-row paths exist)

    # ---------------------------------------------------------------- (c) granularity / timing / recursion guard
    ctx.rule('C34.c', 'execute_before/after_triggers select TriggerTiming::Before/After and fire only TriggerGranularity::Row; the '
             'statement entry points only Statement; execute_trigger is reached on the true edge of that test; RecursionGuard::new '
             'dominates every firing')
    RG = EX + 'trigger_execution::RecursionGuard::new'
    for nm, timing, gran in ((BEFORE, 'Before', 'Row'), (AFTER, 'After', 'Row'), (BEFORE_S, 'Before', 'Statement'), (AFTER_S, 'After', 'Statement')):
        f = ctx.fn(nm)
        g = cfg(f)
        ctx.instance(f'c/{nm}')
        tim = adt_literals(prog, f, 'TriggerTiming')
        grn = adt_literals(prog, f, 'TriggerGranularity')
        if tim != {timing}:
            ctx.finding(f'c/timing/{nm}', f'{nm.rsplit("::",1)[1]} selects TriggerTiming::{sorted(tim)} (expected {timing})', f.loc)
        if grn != {gran}:
            ctx.finding(f'c/granularity/{nm}', f'{nm.rsplit("::",1)[1]} tests TriggerGranularity::{sorted(grn)} (expected {gran})', f.loc)
        # polarity: the execute_trigger call is dominated by the true target of the `granularity == X` switch
        eqb = [i for i, t in f.calls() if (callee_name(t) or '').startswith('<vibesql_ast::ddl::schema::TriggerGranularity as core::cmp::PartialEq>::eq')]
        etb = [i for i, t in f.calls() if callee_name(t) == TF + 'execute_trigger']
        rgb = [i for i, t in f.calls() if callee_name(t) == RG]
        ok = False
        if len(eqb) == 1 and etb:
            sw = f.blocks[eqb[0]]['t']['to']
            st = f.blocks[sw]['t']
            if st['k'] == 'switch':
                true_t = st['else'] if [v for v, _ in st['targets']] == [0] else switch_target(st, 1)
                ok = all(g.dominates(true_t, b) for b in etb)
        if not ok:
            ctx.finding(f'c/polarity/{nm}', f'{nm.rsplit("::",1)[1]}: execute_trigger is not confined to the branch where the granularity test is true', f.loc)
        if not rgb or not all(g.dominates(rgb[0], b) for b in etb):
            ctx.finding(f'c/recursion-guard/{nm}', f'{nm.rsplit("::",1)[1]}: RecursionGuard::new does not dominate execute_trigger', f.loc)

    # ---------------------------------------------------------------- (d) stored action text is re-parsable
    ctx.rule('C34.d', 'Parser::parse_trigger_action (writer of TriggerAction::RawSql, re-parsed by TriggerFirer::parse_trigger_sql) '
             'must not render tokens with Debug formatting')
    pta = [f for f in prog.fns.values() if f.unit == 'vibesql_parser' and f.nice.endswith('::parse_trigger_action')]
    ctx.require(len(pta) == 1, 'Parser::parse_trigger_action not found')
    pta = pta[0]
    dbg = []
    for f in [pta] + prog.children(pta):
        for i, t in f.calls():
            n = callee_name(t) or ''
            if 'fmt::rt::Argument' in n and 'new_debug' in n and 'Token' in (t['f'].get('ga') or ''):
                dbg.append(t['l'])
    ctx.instance('d/parse_trigger_action', {'debug_formatted_token_sites': dbg})
    if dbg:
        ctx.finding('d/parse_trigger_action/debug-format', 'trigger body tokens are stored with {:?} (Debug) formatting; the stored '
                    'RawSql text can never be re-parsed when the trigger fires', f'{pta.file}:{dbg[0]}')
    rd = ctx.fn(TF + 'parse_trigger_sql')
    if not any((callee_name(t) or '').endswith('Parser::parse_sql') for _, t in rd.calls()):
        ctx.finding('d/parse_trigger_sql/reader', 'parse_trigger_sql no longer feeds the stored text to Parser::parse_sql (reader changed: re-derive clause d)', rd.loc)
