"""C12 Referential integrity holds after every statement — structural clauses.

Decides: (a) every insert/update mutation site reachable from INSERT/UPDATE is preceded, on every
path where the schema has foreign keys, by the child-side FK validation; (b) every row deletion /
truncation site reachable from DELETE/TRUNCATE is preceded by the parent-side check;
(c) the ReferentialAction dispatch in delete::integrity and update::foreign_keys is exhaustive
without a wildcard, NO ACTION/RESTRICT arms reject, and the delete-side CASCADE/SET NULL/SET
DEFAULT arms call the action of the same name; (d) cascade_delete re-checks every child row it is
about to delete (multi-level cascades) in a loop over the same rows, on every path; (e) hash-index
probes made by the FK validators are keyed in the index's column order; (f) per-column vectors
consumed by position are filled on every iteration; (g) "key changed" tests are existential;
(h) every syntactic form that declares a foreign key reaches the schema: for each AST enum variant that carries a
ReferentialAction (discovered from the type definitions: the table-level FOREIGN KEY constraint and the column-level
REFERENCES clause) some executor function matches that variant with an arm that reads its payload and registers a
foreign key (TableSchema::add_foreign_key) - a declaration that is parsed and then dropped is never enforced.
Does NOT decide key comparison semantics."""
from ..engine.callgraph import CallGraph
from ..engine.paths import Precede, switch_target, _uses_local
from ..engine.facts import callee_name
from ..engine.cfg import op_place, defs_of
from ..engine.tables import enum_switches, arm_region, region_is_err_only
from . import matrix as M
import re

UNITS = M.EXECUTOR_UNITS
EX = 'vibesql_executor::'
CHILD_SIDE = {EX + 'insert::foreign_keys::validate_foreign_key_constraints',
              EX + 'update::foreign_keys::ForeignKeyValidator::validate_constraints',
              EX + "insert::row_validator::RowValidator::<'a>::validate_foreign_keys",
              EX + "insert::row_validator::RowValidator::<'a>::validate"}
PARENT_SIDE = {EX + 'delete::integrity::check_no_child_references', EX + 'truncate_validation::can_use_truncate',
               EX + 'truncate::constraints::validate_truncate_allowed', EX + 'truncate::core::collect_fk_dependencies'}
RA = 'vibesql_catalog::foreign_key::ReferentialAction'


def fk_empty_edges(fn):
    """edges taken when `schema.foreign_keys.is_empty()` is true: nothing to validate on them"""
    out = set()
    defs = None
    for i, t in fn.calls():
        if callee_name(t) != 'alloc::vec::Vec::<T, A>::is_empty' or t.get('to') is None:
            continue
        defs = defs or defs_of(fn)
        l = op_place(t['args'][0])
        ok = False
        for _ in range(4):
            if l is None:
                break
            if '.foreign_keys' in l[1]:
                ok = True; break
            ds = defs.get(l[0], [])
            if len(ds) != 1 or ds[0][1] != 'assign' or ds[0][2]['r'] not in ('ref', 'use'):
                break
            l = ds[0][2]['p'] if ds[0][2]['r'] == 'ref' else op_place(ds[0][2]['a'])
        if not ok:
            continue
        d = t['d'][0]
        nb = t['to']
        blk = fn.blocks[nb]
        neg = None
        for s in blk['s']:
            if 'd' in s and s['v']['r'] == 'un' and s['v']['op'] == 'Not' and _uses_local(s['v']['a'], d):
                neg = s['d'][0]
        tt = blk['t']
        if tt['k'] != 'switch':
            continue
        if _uses_local(tt['on'], d):
            out.add((nb, switch_target(tt, 1)))       # is_empty == true
        elif neg is not None and _uses_local(tt['on'], neg):
            out.add((nb, switch_target(tt, 0)))       # !is_empty == false
    return out


def run(ctx):
    fk_declaration_rule(ctx)
    prog = ctx.prog
    cg = CallGraph(prog)

    # ---------------------------------------------------------------- (a) child side
    ctx.rule('C12.a', 'every Table::insert|update_row* / Database::insert_row* site reachable from InsertExecutor/UpdateExecutor is preceded '
             'by validate_foreign_key_constraints | ForeignKeyValidator::validate_constraints | RowValidator::validate on every path on '
             'which schema.foreign_keys is non-empty')
    ent = M.dml_entries(ctx, ('insert', 'update'))
    reach = cg.reach([f.path for fs in ent.values() for f in fs])
    scope = [f for f in prog.fns.values() if f.unit == 'vibesql_executor' and f.path in reach]
    roots = lambda f: not [c for c in cg.inn.get(f.path, ()) if c in reach]
    MUT = M.ROW_INSERT | M.ROW_UPDATE | M.DB_INSERT
    EXC = {
        (EX + 'insert::execution::execute_insert_internal', M.T + 'delete_where'): 'compensation',
    }
    REFERENTIAL = (EX + 'delete::integrity::', EX + 'update::foreign_keys::')
    pr = Precede(prog, cg, lambda t, fn: callee_name(t) in MUT, lambda t, fn: callee_name(t) in CHILD_SIDE, scope,
                 g_summaries=False, dead=fk_empty_edges)
    n = 0
    for f in scope:
        for i, t in f.calls():
            if callee_name(t) in MUT:
                n += 1
                ctx.instance(f'a/{f.nice}/{callee_name(t)}', {'rule': 'C12.a', 'fn': f.nice, 'loc': f'{f.file}:{t["l"]}'})
    ctx.floor('C12.a insert/update mutation sites', n, 6)
    for (ofn, ocal), chain in sorted(M.shortest_escapes(pr, roots).items()):
        f = prog.by_nice[ofn][0]
        if (ofn, ocal) == (EX + 'insert::bulk_transfer::execute_bulk_transfer', M.D + 'insert_row'):
            bt = prog.by_nice[ofn][0]
            if EX + 'insert::foreign_keys::validate_foreign_key_constraints' in {callee_name(t) for _, t in bt.calls()}:
                ctx.exempt(f'a/{ofn}/{ocal}', 'the FK validation call is present and guarded by compat_result.validate_foreign_keys, a flag '
                           'computed from the destination schema (value-level guard the path rule cannot follow)')
                continue
        if ofn.startswith(REFERENTIAL):
            ctx.exempt(f'a/{ofn}/{ocal}', 'referential action: writes NULL / the default / the new parent key into child rows as the '
                       'declared ON DELETE/UPDATE action (whether a SET DEFAULT value has a parent is value-level; not decided)')
            continue
        ctx.finding(f'a/{ofn}/{ocal}', f'{ofn}: rows are written by {ocal.rsplit("::",1)[1]} with no foreign-key validation before it on '
                    f'some path with foreign keys ({M.chain_str(chain)})', f.loc, {'chain': chain})

    # ---------------------------------------------------------------- (b) parent side
    ctx.rule('C12.b', 'every Table::delete_where|remove_row|clear site reachable from DeleteExecutor/TruncateTableExecutor is preceded by '
             'check_no_child_references | can_use_truncate | validate_truncate_allowed | collect_fk_dependencies on every path')
    dent = M.dml_entries(ctx, ('delete',))['delete'] + [ctx.fn(EX + 'truncate::TruncateTableExecutor::execute')]
    dreach = cg.reach([f.path for f in dent])
    dscope = [f for f in prog.fns.values() if f.unit == 'vibesql_executor' and f.path in dreach]
    droots = lambda f: not [c for c in cg.inn.get(f.path, ()) if c in dreach]
    pr2 = Precede(prog, cg, lambda t, fn: callee_name(t) in M.ROW_DELETE, lambda t, fn: callee_name(t) in PARENT_SIDE, dscope, g_summaries=False)
    nd = 0
    for f in dscope:
        for i, t in f.calls():
            if callee_name(t) in M.ROW_DELETE:
                nd += 1
                ctx.instance(f'b/{f.nice}/{callee_name(t)}', {'rule': 'C12.b', 'fn': f.nice, 'loc': f'{f.file}:{t["l"]}'})
    ctx.floor('C12.b delete/truncate mutation sites', nd, 4)
    DEXC = {
        (EX + 'insert::execution::execute_insert_internal', M.T + 'delete_where'): 'compensation: removes the row the same statement just inserted (no child can reference it yet)',
        (EX + 'delete::integrity::cascade_delete', M.T + 'delete_where'): None,   # must itself recurse into check_no_child_references
    }
    for (ofn, ocal), chain in sorted(M.shortest_escapes(pr2, droots).items()):
        f = prog.by_nice[ofn][0]
        if (ofn, ocal) in DEXC and DEXC[(ofn, ocal)]:
            ctx.exempt(f'b/{ofn}/{ocal}', DEXC[(ofn, ocal)])
            continue
        ctx.finding(f'b/{ofn}/{ocal}', f'{ofn}: rows are removed by {ocal.rsplit("::",1)[1]} with no parent-side referential check before it '
                    f'on some path ({M.chain_str(chain)})', f.loc, {'chain': chain})

    # ---------------------------------------------------------------- (c) action dispatch
    ctx.rule('C12.c', 'the `match` on ReferentialAction in delete::integrity::check_no_child_references and '
             'update::foreign_keys::check_no_child_references has an arm for all five variants and no wildcard; NoAction/Restrict arms '
             'only return Err; on the delete side Cascade/SetNull/SetDefault arms call cascade_delete/set_null/set_default')
    adt = prog.adt(RA)
    vn = [v['name'] for v in adt['variants']]
    ctx.require(vn == ['NoAction', 'Restrict', 'Cascade', 'SetNull', 'SetDefault'], f'ReferentialAction variants changed: {vn}')
    ACTION = {'Cascade': EX + 'delete::integrity::cascade_delete', 'SetNull': EX + 'delete::integrity::set_null',
              'SetDefault': EX + 'delete::integrity::set_default'}
    for fn_n, side in ((EX + 'delete::integrity::check_no_child_references', 'delete'),
                       (EX + 'update::foreign_keys::ForeignKeyValidator::check_no_child_references', 'update')):
        f = ctx.fn(fn_n)
        sws = enum_switches(prog, f, RA)
        ctx.require(len(sws) >= 1, f'{fn_n}: match on ReferentialAction not found')
        for k, sw in enumerate(sws):
            ctx.instance(f'c/{fn_n}#{k}', {'rule': 'C12.c', 'fn': fn_n, 'arms': sorted(sw['arms']), 'wildcard': sw['otherwise'] is not None})
            # explicit arms: a variant not listed falls to `otherwise`
            listed = set(sw['arms'])
            missing = [v for v in vn if v not in listed]
            if sw['otherwise'] is not None and len(missing) > 1:
                ctx.finding(f'c/{fn_n}/wildcard', f'{fn_n}: ReferentialAction variants {missing} share a fall-through arm', f.loc)
            target_of = lambda v: sw['arms'].get(v, sw['otherwise'])
            for v in ('NoAction', 'Restrict'):
                tb = target_of(v)
                if tb is None or not region_is_err_only(f, arm_region(f, tb), tb):
                    ctx.finding(f'c/{fn_n}/{v}', f'{fn_n}: the {v} arm does not reject the statement', f.loc)
            for v in ('Cascade', 'SetNull', 'SetDefault'):
                tb = target_of(v)
                if tb is None:
                    ctx.finding(f'c/{fn_n}/{v}/missing', f'{fn_n}: no arm for {v}', f.loc)
                    continue
                reg = arm_region(f, tb)
                if region_is_err_only(f, reg, tb):
                    ctx.finding(f'c/{fn_n}/{v}/rejects', f'{fn_n}: the {v} arm rejects instead of applying the action', f.loc)
                if side == 'delete':
                    called = {callee_name(t) for i, t in f.calls() if i in reg and callee_name(t) in ACTION.values()}
                    if called != {ACTION[v]}:
                        ctx.finding(f'c/{fn_n}/{v}/action', f'{fn_n}: the {v} arm calls {sorted(c.rsplit("::",1)[1] for c in called)}', f.loc)
    # cascade_delete recurses into the parent-side check for the rows it removes
    cd = ctx.fn(EX + 'delete::integrity::cascade_delete')
    ctx.instance('c/cascade_delete/recursion')
    if EX + 'delete::integrity::check_no_child_references' not in {callee_name(t) for _, t in cd.calls()}:
        ctx.finding('c/cascade_delete/recursion', 'cascade_delete no longer checks grandchildren (check_no_child_references) before deleting child rows', cd.loc)


    # ---------------------------------------------------------------- (d) multi-level cascade
    from ..engine.paths import search
    from ..engine.linear import Encoder
    from . import shared
    ctx.rule('C12.d', 'delete::integrity::cascade_delete: the loop that deletes the collected child rows is preceded on every path by a loop '
             'over the same collection that calls check_no_child_references for each of them (grandchildren are handled before their '
             'parents disappear)')
    cd = ctx.fn(EX + 'delete::integrity::cascade_delete')
    enc = Encoder(prog, cd)
    loop_of = enc.loop_of_block()
    chk = [i for i, t in cd.calls() if callee_name(t) == EX + 'delete::integrity::check_no_child_references']
    dels = [i for i, t in cd.calls() if callee_name(t) in M.ROW_DELETE]
    ctx.require(dels, 'cascade_delete: row deletion site not found')
    ctx.instance('d/cascade_delete', {'rule': 'C12.d', 'recursive_checks': len(chk), 'delete_sites': len(dels)})
    bad = None
    if not chk:
        bad = 'no recursive check_no_child_references call is left'
    else:
        rc = {enc.loop_root(loop_of[b]) if loop_of.get(b) is not None else None for b in chk}
        rd = {enc.loop_root(loop_of[b]) if loop_of.get(b) is not None else None for b in dels}
        if rc != rd or None in rc:
            bad = f'the recursive check ranges over {sorted(map(str, rc))}, the deletion over {sorted(map(str, rd))}'
        else:
            reached, _ = search(cd, [0], set(chk), loop_model=True)
            if reached & set(dels):
                bad = 'the deletion loop can be reached without passing the recursive check'
    if bad:
        ctx.finding('d/cascade_delete/recursion', f'cascade_delete: {bad}: rows that reference the deleted child rows (second level of an '
                    'ON DELETE CASCADE chain, e.g. a self-referencing table) are left dangling', cd.loc)

    # ---------------------------------------------------------------- (e) (f) (g) shared rules in the FK modules
    FKMOD = re.compile(r"^vibesql_executor::(insert::foreign_keys::|update::foreign_keys::|delete::integrity::|"
                       r"insert::row_validator::RowValidator::<'a>::validate_foreign_keys)")
    shared.hash_key_rule(ctx, 'C12.e', lambda f: bool(FKMOD.match(f.nice)), exceptions=shared.PREEXTRACTED)
    shared.key_order_rule(ctx, 'C12.e2')
    shared.aligned_rule(ctx, 'C12.f', lambda f: bool(FKMOD.match(f.nice)), floor=1)
    shared.quantifier_rule(ctx, 'C12.g', lambda f: f.nice.startswith('vibesql_executor::update::') or f.nice.startswith('vibesql_executor::delete::'))


def fk_declaration_rule(ctx):
    """(h) no foreign-key declaration form is parsed and then dropped"""
    from ..engine.symexpr import Sym
    from . import shared
    prog = ctx.prog
    ctx.rule('C12.h', 'for every vibesql_ast enum variant with a ReferentialAction field: a vibesql_executor function has a match arm for it whose region uses the '
             'payload, and that function calls TableSchema::add_foreign_key')
    forms = []
    for path, adt in prog.adts.items():
        if not path.startswith('vibesql_ast::') or not adt.get('variants') or len(adt['variants']) < 2:
            continue
        for v in adt['variants']:
            if any(any(a.endswith('::ReferentialAction') for a in fl.get('adts', [])) for fl in v.get('fields', [])):
                forms.append((path, v['name']))
    ctx.floor('C12.h declaration forms (AST variants carrying a ReferentialAction)', len(forms), 2)
    for path, vname in forms:
        consumers = []
        for f in prog.fns.values():
            if f.unit != 'vibesql_executor' or shared.is_test(f):
                continue
            try:
                sws = enum_switches(prog, f, path)
            except KeyError:
                sws = []
            if not sws:
                continue
            registers = any((callee_name(t) or '').endswith('TableSchema::add_foreign_key') for _i, t in f.calls())
            for sw in sws:
                tb = sw['arms'].get(vname)
                if tb is None:
                    continue
                region = arm_region(f, tb)
                uses_payload = False
                for b in region:
                    for st in f.blocks[b]['s']:
                        if 'd' in st and ('@' + vname) in str(st['v']):
                            uses_payload = True
                        if 'd' in st and st['v']['r'] in ('ref', 'use') and any(isinstance(pe, str) and vname in pe for pe in (st['v'].get('p') or [0, []])[1]):
                            uses_payload = True
                consumers.append({'fn': f.nice, 'reads_payload': uses_payload, 'registers': registers})
        ok = any(c['reads_payload'] and c['registers'] for c in consumers)
        short = path.rsplit('::', 1)[1] + '::' + vname
        ctx.instance(f'h/{short}', {'rule': 'C12.h', 'form': short, 'matched_in': [c for c in consumers][:8], 'stored': ok})
        if not ok:
            ctx.finding(f'h/{short}', f'the foreign-key declaration form {short} is parsed but no executor function that matches it registers a foreign key '
                        '(TableSchema::add_foreign_key): `p INT REFERENCES par(id) ON DELETE CASCADE` creates a table without the constraint - orphan rows are '
                        'accepted and the referential action never runs', next((c['fn'] for c in consumers), 'vibesql_executor'))
