"""C22 Temporal values: parsing is total — totality clause (T5) and writer/reader shape agreement (T8).

Decides over everything reachable from <Date|Time|Timestamp|Interval as FromStr>::from_str, Interval::new and the
interval helpers:
 (R1) complete may-panic inventory (asserts, panicking library calls such as slicing at byte offsets, unwrap,
      arithmetic overflow on parsed fields): every construct is discharged by a local rule (guarded index, slice bounds
      that are find() positions, byte offsets on text tested is_ascii(), constant divisors, ...) or is an entry of the
      reviewed table; anything else is a finding — so no input text can make the parsers panic;
 (R2) Display / FromStr shape agreement: for Date and Time the separators and the number of fields written by Display
      equal those FromStr splits on and requires;
 (R3) positional fields keep their width: FromStr reads the text after `.` as a left-aligned decimal fraction (it pads
      it on the right to 9 digits), so Time's Display must derive what it writes after `.` from the nanosecond
      rendered zero-padded to width 9 (trailing zeros may be trimmed); the hour/minute/second (and year/month/day)
      placeholders keep a zero-padded fixed width.
 (R4) sign against separator: Date's year is a signed field and Display separates fields with `-`, the sign character;
      FromStr must take a leading `-` off (strip_prefix / starts_with on `-`) before it splits on the separator.
Does NOT decide equality of the value after a text round trip (a runtime-value property)."""
import re
from ..engine.facts import callee_name
from ..engine.callgraph import CallGraph
from ..engine.cfg import cfg, op_const, defs_of, resolve_const
from ..engine.panics import may_panic_sites, auto_discharge
from ..engine.fmt import format_sites
from .C23 import _const_nonzero_arg

UNITS = {'vibesql_types'}
T = 'vibesql_types::temporal::'

REVIEWED = {
    (T + 'timestamp::strip_timezone_suffix', 'assert', 'Overflow(Sub)'):
        's.len() - 1 after s.ends_with(\'Z\' | \'z\'): the string is not empty',
    (T + 'timestamp::strip_timezone_suffix', 'call', 'Index::index on str'):
        '&s[..len-1] removes the one-byte ASCII suffix that ends_with just matched; &s[pos..] / &s[..pos] use the position returned '
        'by rfind of the ASCII characters + and - (a character boundary)',
    (T + 'timestamp::is_timezone_offset', 'call', 'core::option::Option::unwrap'):
        'chars().next() after the length test s.len() >= 3',
    (T + 'timestamp::<impl core::str::traits::FromStr for vibesql_types::temporal::timestamp::Timestamp>::from_str', 'call', 'core::result::Result::unwrap'):
        'Time::new(0, 0, 0, 0) with constant in-range arguments',
    ('<vibesql_types::temporal::timestamp::Timestamp as core::str::traits::FromStr>::from_str', 'call', 'core::result::Result::unwrap'):
        'Time::new(0, 0, 0, 0) with constant in-range arguments',
    ('<vibesql_types::temporal::time::Time as core::str::traits::FromStr>::from_str', 'call', 'Index::index on alloc::string::String'):
        'padded[..9.min(len)]: the fraction was checked to consist of ASCII digits (side condition below: an all() test dominates the slice)',
    (T + 'interval::Interval::parse_interval', 'call', 'Index::index on alloc::vec::Vec<T, A>'):
        ('parts[to_pos - 1] with to_pos >= 2 and to_pos < parts.len() (to_pos is a position() inside parts); the other indexings are '
         'discharged automatically', r'SubWithOverflow const\(1\)'),
}


def run(ctx):
    prog = ctx.prog
    cg = CallGraph(prog)
    entries = [f for f in prog.fns.values() if f.unit == 'vibesql_types' and 'temporal' in f.nice and not f.is_closure() and not _is_test(f)
               and (re.search(r'FromStr>::from_str$', f.nice) or f.nice.endswith('Interval::new') or f.nice.rsplit('::', 1)[-1].startswith('parse'))]
    ctx.floor('temporal parsing entry points', len(entries), 7)
    reach = cg.reach([f.path for f in entries])
    fns = [prog.fns[p] for p in reach if p in prog.fns and not _is_test(prog.fns[p]) and prog.fns[p].unit == 'vibesql_types']
    ctx.extra['entries'] = sorted(f.nice for f in entries)

    ctx.rule('C22.R1', 'every may-panic construct reachable from the temporal FromStr implementations and Interval::new is auto-discharged '
             '(D1 guarded index, D2 constant divisor, D3 position + constant, D4 guarded subtraction, D5 find()-position slice bounds, '
             'D6 byte offsets on is_ascii() text) or listed in the reviewed table')
    sites = may_panic_sites(prog, fns)
    ctx.floor('C22.R1 may-panic constructs inventoried', len(sites), 25)
    nd = nr = 0
    for s in sites:
        reason = auto_discharge(prog, s.fn, s) or _const_nonzero_arg(s)
        rk = (s.fn.nice, s.kind, s.detail)
        rev = REVIEWED.get(rk)
        if isinstance(rev, tuple):
            from ..engine.symexpr import Sym
            sy = Sym(s.fn)
            txt = ' '.join(sy.op(o) for o in (s.term.get('args') or s.term.get('ops') or []))
            rev = rev[0] if re.search(rev[1], txt) else None
        status = 'discharged' if reason else 'reviewed' if rev else 'open'
        nd += status == 'discharged'; nr += status == 'reviewed'
        ctx.instance(f'R1/{s.key}', {'rule': 'C22.R1', 'fn': s.fn.nice, 'loc': s.loc, 'construct': f'{s.kind}:{s.detail}', 'status': status,
                                     'reason': (reason or rev or '')[:160]})
        if status == 'reviewed':
            ctx.exempt(f'R1/{s.key}', rev)
        if status == 'open':
            what = 'arithmetic on a parsed field can overflow (panic in debug builds, silent wrap in release builds)' if s.kind == 'assert' and 'Overflow' in s.detail \
                else 'can panic on some input text'
            ctx.finding(f'R1/{s.key}', f'{s.fn.nice}: {s.kind} `{s.detail}` {what}; it is neither guarded by a recognisable check nor reviewed', s.loc)
    ctx.extra['R1'] = {'discharged_automatically': int(nd), 'reviewed': int(nr), 'total': len(sites)}
    # side condition of the Time fraction entry
    tf = [f for f in fns if f.nice == '<vibesql_types::temporal::time::Time as core::str::traits::FromStr>::from_str']
    ctx.require(len(tf) == 1, 'Time::from_str not found')
    tf = tf[0]
    g = cfg(tf)
    alls = [i for i, t in tf.calls() if re.search(r'Iterator::all(<|$)', callee_name(t) or '')]
    sl = [i for i, t in tf.calls() if 'ops::index::Index' in (callee_name(t) or '') and 'String' in (callee_name(t) or '')]
    ctx.instance('R1/side-condition/time-fraction', {'rule': 'C22.R1', 'all_tests': len(alls), 'slicings': len(sl)})
    for sb in sl:
        if not any(g.dominates(a, sb) for a in alls):
            ctx.finding('R1/side-condition/time-fraction', 'Time::from_str cuts the padded fraction at a byte offset without a dominating '
                        'all-characters-are-ASCII-digits test: a multi-byte character in the fraction makes the parser panic', f'{tf.file}:{tf.blocks[sb]["t"]["l"]}')

    # ------------------------------------------------------------------ R2 Display / FromStr shapes
    ctx.rule('C22.R2', 'Date: Display writes three fields separated by `-`, FromStr splits on `-` and requires three parts; Time: Display '
             'writes three fields separated by `:` (fraction after `.`), FromStr splits the part before `.` on `:` and requires three parts')
    for ty, sep, mod in (('Date', '-', 'date'), ('Time', ':', 'time')):
        disp = [f for f in prog.fns.values() if f.unit == 'vibesql_types' and re.search(rf'<vibesql_types::temporal::{mod}::{ty} as core::fmt::Display>::fmt$', f.nice)]
        frm = [f for f in prog.fns.values() if f.unit == 'vibesql_types' and re.search(rf'<vibesql_types::temporal::{mod}::{ty} as core::str::traits::FromStr>::from_str$', f.nice)]
        ctx.require(len(disp) == 1 and len(frm) == 1, f'{ty}: Display/FromStr not found')
        texts = [x['text'] for x in format_sites(prog, disp[0]) if x['text']]
        main = [t for t in texts if t.count('{}') >= 3]
        seps_ok = bool(main) and all(re.fullmatch(r'\{\}' + re.escape(sep) + r'\{\}' + re.escape(sep) + r'\{\}(\.\{\})?', t) for t in main)
        fr = frm[0]
        fdefs = defs_of(fr)
        split_chars = set()
        for i, t in fr.calls():
            if re.search(r'::split(<|$)', callee_name(t) or ''):
                c = resolve_const(fr, fdefs, t['args'][1]) if len(t['args']) > 1 else None
                if c is not None and c.get('t') == 'char':
                    split_chars.add(chr(c['v']))
        need3 = False
        for b in fr.blocks:
            for st in b['s']:
                if 'd' in st and st['v']['r'] == 'bin' and st['v']['op'] in ('Ne', 'Eq') and 3 in (op_const(st['v']['a']), op_const(st['v']['b'])):
                    need3 = True
        ctx.instance(f'R2/{ty}', {'rule': 'C22.R2', 'display_templates': texts, 'from_str_splits_on': sorted(split_chars), 'requires_three_parts': need3})
        if not seps_ok or sep not in split_chars or not need3:
            ctx.finding(f'R2/{ty}', f'{ty}: Display writes {main or texts} but FromStr splits on {sorted(split_chars)} (three parts required: {need3}): '
                        'the text form is not what the parser expects', disp[0].loc)
    _fraction_rule(ctx, prog)
    _sign_rule(ctx, prog)


def _fraction_rule(ctx, prog):
    from ..engine.symexpr import Sym
    ctx.rule('C22.R3', 'Time::fmt: the value written after `.` is derived from a placeholder of width 9 with zero padding applied to self.nanosecond '
             '(the reader pads the fraction on the right to 9 digits, so leading zeros are significant); hour, minute and second are written with '
             'zero-padded width 2; Date::fmt writes month and day with zero-padded width 2')
    disp = [f for f in prog.fns.values() if f.unit == 'vibesql_types' and re.search(r'<vibesql_types::temporal::time::Time as core::fmt::Display>::fmt$', f.nice)]
    ctx.require(len(disp) == 1, 'Time Display not found')
    f = disp[0]
    sites = format_sites(prog, f)
    with_frac = [x for x in sites if x['text'] and re.fullmatch(r'\{\}:\{\}:\{\}\.\{\}', x['text'])]
    ctx.require(with_frac, 'Time::fmt: template with a fraction not found')
    nano9 = [x for x in sites if x['text'] == '{}' and x.get('specs') and x['specs'][0]['width'] == 9 and x['specs'][0]['zero']
             and x['args'] and x['args'][0][1] == 'u32']
    sy = Sym(f)
    ok = False
    for x in with_frac:
        t = f.blocks[x['block']]['t']
        arr = sy.op(t['args'][1])
        parts = re.match(r'^array\((.*)\)$', arr)
        last = parts.group(1).rsplit(', ', 1)[-1] if parts else arr
        # the last argument must be built from the width-9 rendering of the nanosecond
        if nano9 and "fmt('{}'; self.nanosecond)" in arr.split('self.second, ', 1)[-1]:
            ok = True
    two = all(x.get('specs') and all(sp['width'] == 2 and sp['zero'] for sp in x['specs'][:3]) for x in sites if x['text'] and x['text'].startswith('{}:{}:{}'))
    ctx.instance('R3/Time', {'rule': 'C22.R3', 'fraction_from_width9_zero_padded_nanosecond': ok, 'hms_width2_zero': two})
    if not ok:
        ctx.finding('R3/Time/fraction', 'Time::fmt writes the fraction without the zero-padded width-9 rendering of the nanosecond: leading zeros of the '
                    'fraction are lost (12:00:00.05 is written as 12:00:00.5) and FromStr reads another value back', f.loc)
    if not two:
        ctx.finding('R3/Time/hms', 'Time::fmt no longer writes hour, minute and second with zero-padded width 2', f.loc)
    dd = [g for g in prog.fns.values() if g.unit == 'vibesql_types' and re.search(r'<vibesql_types::temporal::date::Date as core::fmt::Display>::fmt$', g.nice)]
    ctx.require(len(dd) == 1, 'Date Display not found')
    ds = [x for x in format_sites(prog, dd[0]) if x['text'] == '{}-{}-{}']
    okd = bool(ds) and all(x.get('specs') and all(sp['width'] == 2 and sp['zero'] for sp in x['specs'][1:3]) for x in ds)
    ctx.instance('R3/Date', {'rule': 'C22.R3', 'month_day_width2_zero': okd, 'specs': [x.get('specs') for x in ds]})
    if not okd:
        ctx.finding('R3/Date', 'Date::fmt no longer writes month and day with zero-padded width 2', dd[0].loc)


def _sign_rule(ctx, prog):
    ctx.rule('C22.R4', 'Date: the first field written by Display is a signed integer and the separator is its sign character `-`: FromStr removes '
             'a leading `-` (strip_prefix / starts_with with the constant `-`) before splitting')
    dd = [g for g in prog.fns.values() if g.unit == 'vibesql_types' and re.search(r'<vibesql_types::temporal::date::Date as core::fmt::Display>::fmt$', g.nice)]
    fr = [g for g in prog.fns.values() if g.unit == 'vibesql_types' and re.search(r'<vibesql_types::temporal::date::Date as core::str::traits::FromStr>::from_str$', g.nice)]
    ctx.require(len(dd) == 1 and len(fr) == 1, 'Date Display / FromStr not found')
    ds = [x for x in format_sites(prog, dd[0]) if x['text'] == '{}-{}-{}']
    ctx.require(ds, 'Date::fmt template not found')
    signed = any(x['args'] and re.fullmatch(r'i(8|16|32|64|128|size)', x['args'][0][1]) for x in ds)
    fdefs = defs_of(fr[0])
    strips = False
    for i, t in fr[0].calls():
        if re.search(r'::(strip_prefix|starts_with|trim_start_matches)(<|$)', callee_name(t) or '') and len(t['args']) > 1:
            c = resolve_const(fr[0], fdefs, t['args'][1])
            if c is not None and c.get('t') == 'char' and c.get('v') == 45:
                strips = True
    ctx.instance('R4/Date', {'rule': 'C22.R4', 'year_is_signed': signed, 'from_str_handles_leading_minus': strips})
    if signed and not strips:
        ctx.finding('R4/Date', 'Date::fmt writes a signed year next to the separator `-`, but FromStr splits the whole text on `-`: a date with a negative '
                    'year (reachable through date arithmetic) is written as -001-06-15 and cannot be parsed back (dump and JSON loads fail)', fr[0].loc)


def _is_test(f):
    return '/tests' in f.file or '::tests::' in f.nice or f.file.endswith('tests.rs')
