"""C27 Wire-protocol message decoding is safe and respects framing — structural clauses.

Decides for FrontendMessage::decode, decode_startup and read_cstring:
 (R1) length hygiene: the i32 frame length taken from the wire is range-checked (compared with a
      constant on a path that leaves on failure) before it is cast to usize / used in arithmetic;
 (R2) byte-budget accounting: every constant-index read, advance(n) and get_iN is covered by the
      minimum buffer length guaranteed by the dominating `buf.len() < C → return` checks minus the
      bytes already consumed on the dominating path;
 (R3) frame confinement: payload readers work on a buffer split off with split_to(frame length), not
      on the connection buffer;
 (R4) may-panic inventory of the three functions: every other panic-capable construct is reviewed.
Does NOT decide that decoding an encoded message yields the message (value-level)."""
import re
from ..engine.facts import callee_name
from ..engine.cfg import cfg, defs_of, op_place, op_const, op_local, root_of

UNITS = {'vibesql_server'}
FM = 'vibesql_server::protocol::messages::FrontendMessage::'
RC = 'vibesql_server::protocol::messages::read_cstring'
CONSUME = {'advance': None, 'get_u8': 1, 'get_i8': 1, 'get_i16': 2, 'get_u16': 2, 'get_i32': 4, 'get_u32': 4, 'get_i64': 8, 'get_u64': 8}
PANIC_CALLS = ('unwrap', 'expect', 'split_to', 'split_off', 'advance', 'copy_to_slice', 'remove', 'insert', 'swap_remove')


def lower_bounds(fn):
    """[(ok_target, key, C)]: on ok_target the value identified by key is >= C (from `if x < C {return ..}`)"""
    from ..engine.paths import switch_target
    out = []
    defs = defs_of(fn)
    for i, b in enumerate(fn.blocks):
        t = b['t']
        if t['k'] != 'switch':
            continue
        on = op_place(t['on'])
        if on is None:
            continue
        for s in b['s']:
            if 'd' in s and s['d'][0] == on[0] and s['v']['r'] == 'bin' and s['v']['op'] == 'Lt':
                c = op_const(s['v']['b'])
                r = root_of(fn, defs, s['v']['a'])
                if isinstance(c, int) and r[0] == 'call' and r[1].endswith('from_be_bytes'):
                    out.append((switch_target(t, 0), 'wire-length', c))
    return out


def len_checks(fn):
    """[(block, C, ok_target)]: `if buf.len() < C { return .. }` — on ok_target the buffer has at least C bytes.
    `if buf.len() < K + len` with a range-checked wire length (len >= L) guarantees K + L bytes."""
    out = []
    defs = defs_of(fn)
    lbs = lower_bounds(fn)
    g = cfg(fn)
    for i, b in enumerate(fn.blocks):
        t = b['t']
        if t['k'] != 'switch':
            continue
        on = op_place(t['on'])
        if on is None:
            continue
        for s in b['s']:
            if 'd' in s and s['d'][0] == on[0] and s['v']['r'] == 'bin' and s['v']['op'] in ('Lt', 'Ge', 'Le', 'Gt'):
                a, bb = s['v']['a'], s['v']['b']
                ra = root_of(fn, defs, a); c = op_const(bb)
                from ..engine.paths import switch_target
                if ra[0] == 'call' and ra[1].endswith('::len') and isinstance(c, int):
                    if s['v']['op'] == 'Lt':      # len < C : false edge guarantees len >= C
                        out.append((i, c, switch_target(t, 0)))
                    elif s['v']['op'] == 'Ge':    # len >= C : true edge
                        out.append((i, c, switch_target(t, 1)))
                elif ra[0] == 'call' and ra[1].endswith('::len') and s['v']['op'] == 'Lt':
                    # buf.len() < (K +) wire_length : trace the right-hand side to the cast of the wire length
                    extra = 0
                    rb = root_of(fn, defs, bb)
                    if rb[0] == 'local':
                        ds = defs.get(rb[1], [])
                        if len(ds) == 1 and ds[0][1] == 'assign' and ds[0][2]['r'] == 'bin' and ds[0][2]['op'] in ('Add', 'AddWithOverflow'):
                            ka, kb = op_const(ds[0][2]['a']), op_const(ds[0][2]['b'])
                            extra = ka if isinstance(ka, int) else kb if isinstance(kb, int) else 0
                            other = ds[0][2]['b'] if isinstance(ka, int) else ds[0][2]['a']
                            rb = root_of(fn, defs, other)
                    if rb[0] == 'call' and rb[1].endswith('from_be_bytes'):
                        L = max([c2 for (ok2, key, c2) in lbs if key == 'wire-length' and g.dominates(ok2, i)] + [0])
                        if L:
                            out.append((i, extra + L, switch_target(t, 0)))
    return out


def run(ctx):
    prog = ctx.prog
    fns = {n: ctx.fn(n) for n in (FM + 'decode', FM + 'decode_startup', RC)}

    for name, f in fns.items():
        g = cfg(f)
        defs = defs_of(f)
        short = name.rsplit('::', 1)[1]
        checks = len_checks(f)

        def guaranteed(block):
            return max([c for (cb, c, ok) in checks if g.dominates(ok, block)] + [0])

        # ------------------------------------------------------------ R1 length hygiene
        if short != 'read_cstring':
            ctx.rule('C27.R1', 'the i32 length decoded with from_be_bytes is compared with a constant (range check) on a dominating path before '
                     'it is cast to usize or used in arithmetic')
            for i, b in enumerate(f.blocks):
                for s in b['s']:
                    if 'd' in s and s['v']['r'] == 'cast' and s['v']['from'] == 'i32' and s['v']['to'] == 'usize':
                        src = root_of(f, defs, s['v']['a'])
                        if src[0] == 'call' and src[1].endswith('from_be_bytes'):
                            # is the i32 (or the usize) range-checked against a constant before any use?
                            lenl = s['d'][0]
                            checked = False
                            for j, bj in enumerate(f.blocks):
                                for sj in bj['s']:
                                    if 'd' in sj and sj['v']['r'] == 'bin' and sj['v']['op'] in ('Lt', 'Le', 'Gt', 'Ge'):
                                        ops = (sj['v']['a'], sj['v']['b'])
                                        consts = [op_const(o) for o in ops]
                                        roots = [root_of(f, defs, o) for o in ops]
                                        if any(isinstance(c, int) for c in consts) and any(r == ('local', lenl) or (r[0] == 'call' and r[1].endswith('from_be_bytes')) for r in roots):
                                            checked = True
                            ctx.instance(f'R1/{short}', {'rule': 'C27.R1', 'fn': short, 'range_checked': checked})
                            if not checked:
                                ctx.finding(f'R1/{short}/unchecked-length', f'{short}: the frame length from the wire is cast to usize and used '
                                            f'without a range check (a negative or tiny length wraps / under-runs)', f'{f.file}:{s["l"]}')

        # ------------------------------------------------------------ R2 byte budget
        ctx.rule('C27.R2', 'constant-index reads, advance(n) and get_iN are covered by the dominating `len() < C → return` checks minus the bytes '
                 'already consumed on the dominating path')
        consumers = []
        for i, t in f.calls():
            n = callee_name(t) or ''
            sh = n.rsplit('::', 1)[-1]
            if ('Buf' in n or 'BytesMut' in n) and sh in CONSUME:
                k = CONSUME[sh]
                if k is None:
                    c = op_const(t['args'][1]) if len(t['args']) > 1 else None
                    k = c if isinstance(c, int) else None
                consumers.append((i, sh, k))
        for i, b in enumerate(f.blocks):
            t = b['t']
            if t['k'] == 'assert' and t['kind'] == 'BoundsCheck':
                from ..engine.cfg import resolve_const
                rc_ = resolve_const(f, defs, t['ops'][1])
                idx = rc_.get('v') if rc_ else None
                G = guaranteed(i)
                used = sum(k for (cb, sh, k) in consumers if k and cb != i and g.dominates(cb, i))
                ctx.instance(f'R2/{short}/index/{idx}', {'rule': 'C27.R2', 'fn': short, 'index': idx, 'guaranteed': G, 'consumed_before': used})
                if not isinstance(idx, int) or used + idx + 1 > G:
                    ctx.finding(f'R2/{short}/index/{idx}', f'{short}: byte index {idx} is read with only {G} bytes guaranteed ({used} consumed before)',
                                f'{f.file}:{t["l"]}')
        for (cb, sh, k) in consumers:
            G = guaranteed(cb)
            used = sum(k2 for (c2, s2, k2) in consumers if k2 and c2 != cb and g.dominates(c2, cb))
            line = f.blocks[cb]['t']['l']
            ctx.instance(f'R2/{short}/{sh}@{used}', {'rule': 'C27.R2', 'fn': short, 'op': sh, 'needs': k, 'guaranteed': G, 'consumed_before': used})
            if short == 'read_cstring':
                # advance(1) after split_to(null_pos): the NUL found by position() is still in the buffer
                pos = [j for j, t2 in f.calls() if (callee_name(t2) or '').endswith('::position')]
                if sh == 'advance' and k == 1 and pos and g.dominates(pos[0], cb):
                    ctx.exempt(f'R2/{short}/{sh}', 'skips the NUL byte whose position was just found in the same buffer')
                    continue
            if k is None or used + k > G:
                ctx.finding(f'R2/{short}/{sh}@{used}', f'{short}: {sh} needs {k} more bytes after {used} consumed, but only {G} bytes are guaranteed '
                            f'by the length checks', f'{f.file}:{line}')

        # ------------------------------------------------------------ R3 frame confinement
        if short != 'read_cstring':
            ctx.rule('C27.R3', 'after the whole-frame check, payload readers (read_cstring, get_iN) are applied to a buffer produced by '
                     'split_to(frame length), not to the connection buffer itself')
            splits = [i for i, t in f.calls() if (callee_name(t) or '').endswith('::split_to')]
            readers = [(i, t) for i, t in f.calls() if callee_name(t) == RC or ((callee_name(t) or '').rsplit('::', 1)[-1] in CONSUME and (callee_name(t) or '').rsplit('::', 1)[-1] != 'advance')]
            for i, t in readers:
                src = root_of(f, defs, t['args'][0])
                confined = src[0] == 'call' and src[1].endswith('::split_to') or (src[0] == 'local' and any(g.dominates(sp, i) for sp in splits))
                ctx.instance(f'R3/{short}/{(callee_name(t) or "").rsplit("::",1)[-1]}', {'rule': 'C27.R3', 'fn': short, 'reader_source': str(src[:2])})
                if not confined:
                    ctx.finding(f'R3/{short}/unconfined-reader', f'{short}: payload is read from the connection buffer itself; a reader can run past the '
                                f'declared end of the frame into the next message', f'{f.file}:{t["l"]}')
                    break

        # ------------------------------------------------------------ R4 remaining may-panic constructs
        ctx.rule('C27.R4', 'Overflow asserts on values derived from the wire length and other panic-capable calls are listed; '
                 'each needs a dominating range check')
        for i, b in enumerate(f.blocks):
            t = b['t']
            if t['k'] == 'assert' and t['kind'].startswith('Overflow'):
                wire = False
                for o in t['ops']:
                    r = root_of(f, defs, o)
                    if r[0] == 'call' and r[1].endswith('from_be_bytes') or r[0] == 'local':
                        wire = True
                ctx.instance(f'R4/{short}/overflow', {'rule': 'C27.R4', 'fn': short, 'kind': t['kind']})
                if wire and not lower_bounds(f):
                    ctx.finding(f'R4/{short}/{t["kind"]}', f'{short}: arithmetic on the unchecked wire length can overflow (debug panic / release wrap)',
                                f'{f.file}:{t["l"]}')
            if t['k'] == 'call':
                sh = (callee_name(t) or '').rsplit('::', 1)[-1]
                if sh in ('unwrap', 'expect'):
                    ctx.finding(f'R4/{short}/{sh}', f'{short}: {sh} on data from the wire', f'{f.file}:{t["l"]}')
    ctx.floor('functions analysed', len(fns), 3)
