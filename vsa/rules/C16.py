"""C16 Query results do not depend on the index storage backend — arm agreement (T8).

Decides: in every function of vibesql-storage that matches on IndexData, the InMemory and the
DiskBacked arm perform the same operation class (add one row id / remove one row id / remove a
whole key / rebuild / point lookup / range lookup); (keys) both backends are fed keys built by the same
pipeline at every maintenance site (normalize(truncate(value, prefix))); (spill) the conversion of an in-memory
index to the disk backend emits one entry per (key, row) pair — every push of an entry is inside the loop over the
key's row list — and does not depend on the index being UNIQUE.
(bounds) the two arms of IndexData::range_scan adjust their bounds with the same helpers: a bound-adjusting helper of
range_bounds (successor of a value for an inclusive end / exclusive start over multi-column keys) that the InMemory arm
applies is also applied by the DiskBacked arm (a one-element bound [v] is an approximation for keys [v, x]).
Does NOT decide the B+tree's own behaviour (C17: search, splits, leaf reuse) or spill thresholds."""
import collections, re
from ..engine.callgraph import CallGraph
from ..engine.facts import callee_name, callee_generic_name
from ..engine.tables import enum_switches, switch_arm_regions

UNITS = {'vibesql_storage', 'vibesql_executor'}
ID = 'vibesql_storage::database::indexes::index_metadata::IndexData'
BT = 'vibesql_storage::btree::node::btree_index::'
BM = 'alloc::collections::btree::map::BTreeMap::<K, V, A>::'

MEM_CLASS = {
    BM + 'entry': 'add', 'alloc::vec::Vec::<T, A>::retain': 'remove-one', BM + 'clear': 'clear',
    BM + 'get': 'point', BM + 'contains_key': 'point', BM + 'range': 'range', BM + 'keys': 'range',
    BM + 'values': 'range', BM + 'iter': 'range', BM + 'insert': 'add', BM + 'remove': 'remove-key',
    BM + 'get_mut': None, 'alloc::collections::btree::map::entry::Entry::<\'a, K, V, A>::or_insert_with': None,
    'alloc::vec::Vec::<T, A>::push': None, BM + 'len': None, BM + 'is_empty': None,
}
DISK_CLASS = {
    BT + 'insert::<impl vibesql_storage::btree::node::btree_index::BTreeIndex>::insert': 'add',
    BT + 'delete::<impl vibesql_storage::btree::node::btree_index::BTreeIndex>::delete': 'remove-key',
    BT + 'delete::<impl vibesql_storage::btree::node::btree_index::BTreeIndex>::delete_specific': 'remove-one',
    BT + 'bulk_load::<impl vibesql_storage::btree::node::btree_index::BTreeIndex>::bulk_load': 'rebuild',
    BT + 'query::<impl vibesql_storage::btree::node::btree_index::BTreeIndex>::lookup': 'point',
    BT + 'query::<impl vibesql_storage::btree::node::btree_index::BTreeIndex>::multi_lookup': 'point',
    BT + 'query::<impl vibesql_storage::btree::node::btree_index::BTreeIndex>::range_scan': 'range',
    BT + 'BTreeIndex::key_width': None,      # accessor: number of key columns, no index operation
}
# functions whose arms legitimately differ (reviewed)
EXEMPT_FN = {
    'vibesql_storage::database::indexes::index_manager::IndexManager::spill_index_to_disk':
        'converts an InMemory index into a DiskBacked one: the arms are the conversion itself',
    '<vibesql_storage::database::indexes::index_metadata::IndexData as core::clone::Clone>::clone': 'derived-style clone',
    '<vibesql_storage::database::indexes::index_metadata::IndexData as core::fmt::Debug>::fmt': 'debug formatting',
}


def norm(classes):
    c = set(classes)
    # remove-one on a BTreeMap is `retain` (+ `remove` of the emptied key): the key removal is its clean-up
    if 'remove-one' in c:
        c.discard('remove-key')
    # rebuild in memory = clear + add ; on disk = bulk_load
    if 'clear' in c:
        c.discard('clear'); c.discard('add'); c.add('rebuild')
    return c


def run(ctx):
    prog = ctx.prog
    ctx.prog.adt(ID)
    cg = CallGraph(prog)
    ctx.rule('C16.arms', 'for every `match` on IndexData in vibesql-storage the InMemory arm and the DiskBacked arm are reduced to '
             'operation classes (add / remove-one / remove-key / rebuild / point / range) from the BTreeMap resp. BTreeIndex calls '
             'they make; the class sets must be equal')
    n = 0
    by_name = {}
    for f in sorted(prog.fns.values(), key=lambda f: f.nice):
        if f.unit != 'vibesql_storage' or f.dk == 'Promoted':
            continue
        sws = [s for s in enum_switches(prog, f, ID) if set(s['arms']) == {'InMemory', 'DiskBacked'}]
        for k, sw in enumerate(sws):
            regs = switch_arm_regions(f, sw)
            # include closures created inside each arm
            def classes(reg, table, other):
                out = []; unknown = []
                bodies = [(f, reg)]
                for b in reg:
                    for s in f.blocks[b]['s']:
                        if 'd' in s and s['v']['r'] == 'agg' and s['v'].get('kind') == 'closure' and s['v']['def'] in prog.fns:
                            cf = prog.fns[s['v']['def']]
                            bodies.append((cf, set(range(len(cf.blocks)))))
                for fn2, rg in bodies:
                    for i, t in fn2.calls():
                        if i not in rg:
                            continue
                        cn = callee_name(t)
                        gn = callee_generic_name(t)
                        for name in (cn, gn):
                            if name in table:
                                if table[name]:
                                    out.append(table[name])
                                break
                        else:
                            if cn in other or gn in other:
                                continue
                            if cn and (cn.startswith('alloc::collections::btree::map::BTreeMap') or cn.startswith(BT)):
                                unknown.append(cn)
                return out, unknown
            mem, mu = classes(regs['InMemory'], MEM_CLASS, DISK_CLASS)
            disk, du = classes(regs['DiskBacked'], DISK_CLASS, MEM_CLASS)
            n += 1
            key = f'{f.nice}#{k}' if len(sws) > 1 else f.nice
            ctx.instance(f'arms/{key}', {'rule': 'C16.arms', 'fn': f.nice, 'loc': f.loc, 'in_memory': sorted(set(mem)), 'disk_backed': sorted(set(disk))})
            if mu or du:
                ctx.require(False, f'{f.nice}: index call not in the operation-class table: {sorted(set(mu + du))}')
            if f.nice in EXEMPT_FN:
                ctx.exempt(f'arms/{key}', EXEMPT_FN[f.nice])
                continue
            a, b = norm(mem), norm(disk)
            if a != b:
                if not b and not cg.inn.get(f.path) and not a - {'range'}:
                    ctx.exempt(f'arms/{key}', 'disk arm is an unimplemented stub of a read accessor that no code calls (dead API)')
                    continue
                ctx.finding(f'arms/{key}', f'{f.nice}: InMemory arm does {sorted(a)} but DiskBacked arm does {sorted(b)}', f.loc,
                            {'in_memory': sorted(mem), 'disk_backed': sorted(disk)})
    ctx.floor('match expressions on IndexData with both arms', n, 12)


    # ---------------------------------------------------------------- (keys) same key pipeline for both backends
    from .C02 import key_builder_rule
    key_builder_rule(ctx, 'C16.keys')

    # ---------------------------------------------------------------- (spill) lossless conversion
    from ..engine.linear import Encoder
    from ..engine.symexpr import Sym
    from ..engine.cfg import defs_of, op_local
    from . import shared
    ctx.rule('C16.spill', 'IndexManager::spill_index_to_disk: every push into the entry list handed to BTreeIndex::bulk_load happens inside a '
             'loop over the row list of the current key (one entry per key and row), and no deciding condition of a push mentions `unique`')
    sp = ctx.fn('vibesql_storage::database::indexes::index_manager::IndexManager::spill_index_to_disk')
    enc = Encoder(prog, sp)
    loop_of = enc.loop_of_block()
    sy = Sym(sp)
    fdefs = defs_of(sp)
    pushes = []
    for i, t in sp.calls():
        cn = callee_name(t) or ''
        if cn.startswith('alloc::vec::Vec') and cn.rsplit('::', 1)[-1].split('<')[0] == 'push' and t['args']:
            l, nm = shared.named_root(sp, fdefs, t['args'][0])
            if nm and 'entr' in nm:
                pushes.append((i, nm))
    ctx.floor('C16.spill pushes into the bulk-load entry list', len(pushes), 1)
    for i, nm in pushes:
        depth = 0; roots = []
        for h in enc.lh:
            if i in shared._body(enc, h):
                depth += 1; roots.append(enc.loop_root(h))
        conds = [c for c, _v in shared.deciding_conditions(sp, i, sy)]
        uses_unique = [c for c in conds if re.search(r'\.unique\b', c)]
        ctx.instance(f'spill/push@{shared._ordinal(sp, i)}', {'rule': 'C16.spill', 'vector': nm, 'loop_depth': depth, 'loops_over': [r[:60] for r in roots],
                                                               'conditions_on_unique': uses_unique})
        if depth < 2 or uses_unique:
            ctx.finding('spill/lossy-conversion', 'spill_index_to_disk does not emit one entry per (key, row) pair for every index: an entry is pushed '
                        f'outside the loop over the key\'s row list{" under a test of `unique`" if uses_unique else ""}; rows sharing a key (NULL keys of a UNIQUE index) '
                        'disappear when the index moves to disk', f'{sp.file}:{sp.blocks[i]["t"]["l"]}')

    # ------------------------------------------------------------------ bounds
    ctx.rule('C16.bounds', 'IndexData::range_scan: every bound-adjusting helper of range_bounds (try_increment_sqlvalue, smart_increment_value, calculate_next_value) '
             'called in the InMemory arm (closures included) is also called in the DiskBacked arm')
    rs = [f for f in prog.fns.values() if f.unit == 'vibesql_storage' and not f.is_closure() and f.dk != 'Promoted' and re.search(r'IndexData>::range_scan$', f.nice)]
    if len(rs) != 1:
        from ..engine.run import AnalysisError
        raise AnalysisError('IndexData::range_scan not found')
    f = rs[0]
    sw = [x for x in enum_switches(prog, f, ID) if set(x['arms']) == {'InMemory', 'DiskBacked'}][0]
    regs = switch_arm_regions(f, sw)
    from ..engine.symexpr import Sym
    sy = Sym(f)

    def helpers(blocks):
        out = set()
        for b in blocks:
            t = f.blocks[b]['t']
            if t['k'] == 'call':
                cn = callee_name(t) or ''
                if 'range_bounds::' in cn:
                    out.add(cn.rsplit('::', 1)[1])
                # closures handed to map / and_then in this block
                txt = ' '.join(sy.op(a) for a in t['args'])
                for k in re.findall(r'closure#(\d+)', txt):
                    for c in prog.children(f):
                        if c.nice.endswith('{closure#%s}' % k):
                            for _i, t2 in c.calls():
                                c2 = callee_name(t2) or ''
                                if 'range_bounds::' in c2:
                                    out.add(c2.rsplit('::', 1)[1])
        return out
    hm, hd = helpers(regs['InMemory']), helpers(regs['DiskBacked'])
    ctx.instance('bounds/range_scan', {'rule': 'C16.bounds', 'in_memory_arm': sorted(hm), 'disk_backed_arm': sorted(hd)})
    ctx.floor('C16.bounds bound-adjusting helpers in the InMemory arm', len(hm), 2)
    missing = sorted(hm - hd)
    if missing:
        ctx.finding('range-end/IndexData::range_scan', f'IndexData::range_scan adjusts its bounds with {missing} on the in-memory backend only: over a multi-column index the '
                    'disk-backed backend misses the keys [v, x] for an inclusive end v (WHERE k <= 30 loses k = 30 once the table has 100 000 rows)', f.loc)
