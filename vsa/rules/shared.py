"""Rules shared by several properties (each caller passes the scope it is responsible for).

 hash_key_rule      T10: every access of a table's primary-key / unique hash index is keyed by a value list
                    collected in the index's own column order (get_primary_key_indices /
                    get_unique_constraint_indices), or by a designated key extractor.
 aligned_rule       T14: a vector that is read positionally with the enumerate counter of a loop over
                    collection C must have been filled with exactly one push on every iteration path of
                    a loop over C.
 quantifier_rule    change detection is existential: no Iterator::all whose closure tests membership in a
                    changed-column set or inequality of two row images.
 deciding_switches  the branch conditions that decide whether a block executes (excluding early-error guards).
"""
import re
from ..engine.facts import callee_name
from ..engine.symexpr import Sym
from ..engine.cfg import cfg, defs_of, op_local
from ..engine.paths import loop_headers, search


def is_test(f):
    return '/tests' in f.file or '::tests::' in f.nice or f.file.endswith('tests.rs')


# --------------------------------------------------------------------------------------------- hash keys
PK_KEY = re.compile(r'^collect\(map\(iter\(get_primary_key_indices\([^()]*(\([^()]*\))?[^()]*\)@Some\.0\), closure#\d+\([A-Za-z_0-9., ]*\)\)\)$')
UQ_KEY = re.compile(r'^collect\(map\(iter\(.*get_unique_constraint_indices\(.*\).*\), closure#\d+\([A-Za-z_0-9., ]*\)\)\)$')
KEY_EXTRACTORS = ('extract_primary_key_lookup(',)


def hash_key_rule(ctx, rule_id, scope_pred, exceptions=None, floor=None):
    """scope_pred(fn) selects the functions this caller answers for"""
    prog = ctx.prog
    exceptions = exceptions or {}
    ctx.rule(rule_id, 'every HashMap access on Table::primary_key_index() / unique_indexes() is keyed by collect(map(iter(<the index\'s own '
             'column list from the schema>), |i| row[i])) or by the result of extract_primary_key_lookup: a key assembled in another '
             'column order (or from another column list) addresses a different entry')
    n = 0
    for f in prog.fns.values():
        if is_test(f) or f.unit not in ('vibesql_executor', 'vibesql_storage') or not scope_pred(f):
            continue
        s = None
        for i, t in f.calls():
            cn = callee_name(t) or ''
            op = cn.rsplit('::', 1)[-1].split('<')[0]
            if 'HashMap' not in cn or op not in ('get', 'contains_key', 'insert', 'remove', 'get_mut', 'entry') or len(t['args']) < 2:
                continue
            s = s or Sym(f)
            recv = s.op(t['args'][0])
            kind = 'pk' if 'primary_key_index' in recv else 'unique' if 'unique_indexes' in recv else None
            if kind is None:
                continue
            n += 1
            key = s.op(t['args'][1])
            ok = bool((PK_KEY if kind == 'pk' else UQ_KEY).match(key)) or any(key.startswith(e) for e in KEY_EXTRACTORS)
            k = f'{rule_id.split(".")[-1]}/hash-key/{f.nice}/{kind}/{op}'
            ctx.instance(k + f'@{t["l"]}', {'rule': rule_id, 'fn': f.nice, 'loc': f'{f.file}:{t["l"]}', 'index': kind, 'op': op, 'key': key[:200], 'canonical': ok})
            if ok:
                continue
            if not ok and _local_key_ok(prog, f, s, t['args'][1], kind):
                continue
            if (f.nice, kind) in exceptions:
                ctx.exempt(k, exceptions[(f.nice, kind)])
                continue
            ctx.finding(k, f'{f.nice}: the {"primary-key" if kind == "pk" else "unique"} hash index is accessed ({op}) with key `{key[:120]}`, which is '
                        'not collected in the index\'s own column order from the schema: for composite keys declared in another order the '
                        'lookup answers for a different key', f'{f.file}:{t["l"]}')
    if floor is not None:
        ctx.floor(f'{rule_id} hash-index accesses in scope', n, floor)
    return n


def _local_key_ok(prog, f, s, op, kind):
    """key held in a named Option local (`pk_values@Some.0`, element of a Vec of keys): every definition of that local is
    canonical or None"""
    defs = defs_of(f)
    l = op_local(op)
    seen = set()
    for _ in range(12):
        if l is None or l in seen:
            return False
        seen.add(l)
        ds = defs.get(l, [])
        if len(ds) == 1 and ds[0][1] == 'assign' and ds[0][2]['r'] in ('ref', 'use', 'cast'):
            v = ds[0][2]
            l = v['p'][0] if v['r'] == 'ref' else op_local(v['a'])
            continue
        break
    if l is None:
        return False
    rx = PK_KEY if kind == 'pk' else UQ_KEY
    alts = []
    for (_b, k, v) in defs.get(l, []):
        if k == 'assign':
            if v['r'] == 'agg' and v.get('variant') == 'None':
                continue
            if v['r'] == 'agg' and v.get('variant') == 'Some':
                alts.append(s.op(v['ops'][0]))
            else:
                alts.append(s._one(l, (_b, k, v), 0))
        else:
            alts.append(s._one(l, (_b, k, v), 0))
    alts = [a for a in alts if a != 'None()']
    # keys pushed into a vector of per-constraint keys
    if not alts:
        return False
    return all(rx.match(a) or re.match(r'^Some\((.*)\)$', a) and rx.match(re.match(r'^Some\((.*)\)$', a).group(1)) for a in alts)


# --------------------------------------------------------------------------------------------- aligned vectors
def aligned_vectors(prog, f):
    """[{vec, filled_over, every_iteration, consumers}] for named Vec locals of f pushed inside one iterator loop and read
    positionally (get/index) with an enumerate counter in f or its closures"""
    from ..engine.linear import Encoder
    out = []
    pushes = {}
    fdefs = defs_of(f)
    for i, t in f.calls():
        cn = callee_name(t) or ''
        if cn.startswith('alloc::vec::Vec') and cn.rsplit('::', 1)[-1].split('<')[0] == 'push' and t['args']:
            l0 = op_local(t['args'][0]); src = None
            for (_b, k, v) in fdefs.get(l0, []):
                if k == 'assign' and v['r'] == 'ref' and v.get('mut') and not v['p'][1]:
                    src = v['p'][0]
            if src is not None and src in f.names:
                pushes.setdefault(src, []).append(i)
    if not pushes:
        return out
    enc = Encoder(prog, f); loop_of = enc.loop_of_block(); lh = loop_headers(f); g = cfg(f)
    for V, pbs in pushes.items():
        Ls = {loop_of.get(b) for b in pbs}
        if None in Ls or len(Ls) != 1:
            continue
        L = Ls.pop(); sw, none_t = lh[L]
        body = [s_ for s_ in g.succ[sw] if s_ != none_t]
        reached, _ = search(f, body, set(pbs), loop_model=False)
        every = L not in reached
        # at most one push per iteration: from after a push, no other push is reachable before the header
        twice = False
        for pb in pbs:
            nxt = f.blocks[pb]['t'].get('to')
            if nxt is None:
                continue
            r2, _ = search(f, [nxt], {L}, loop_model=False)
            if r2 & (set(pbs)):
                twice = True
        name = f.names[V]
        cons = []
        for fn in [f] + prog.children(f):
            s = Sym(fn)
            for i, t in fn.calls():
                cn = callee_name(t) or ''
                op = cn.rsplit('::', 1)[-1].split('<')[0]
                if op in ('get', 'index', 'get_mut', 'index_mut') and len(t['args']) >= 2:
                    r = s.op(t['args'][0])
                    if re.search(r'(^|[^A-Za-z_0-9])' + re.escape(name) + r'$', r):
                        ix = s.op(t['args'][1])
                        if 'enumerate(' in ix:
                            cons.append({'in': fn.nice, 'op': op, 'index': ix[:120], 'line': t['l']})
        if cons:
            out.append({'vec': name, 'filled_over': enc.loop_root(L), 'every_iteration': every, 'more_than_once': twice, 'consumers': cons,
                        'line': f.blocks[pbs[0]]['t']['l']})
    return out


def aligned_rule(ctx, rule_id, scope_pred, floor=None):
    prog = ctx.prog
    ctx.rule(rule_id, 'a vector read positionally with the enumerate counter of a loop over a collection is filled by exactly one push on '
             'every iteration path of a loop over that collection (a skipped or doubled push shifts every later slot)')
    n = 0
    for f in prog.fns.values():
        if f.is_closure() or is_test(f) or f.dk == 'Promoted' or not scope_pred(f):
            continue
        for rec in aligned_vectors(prog, f):
            n += 1
            k = f'{rule_id.split(".")[-1]}/aligned/{f.nice}/{rec["vec"]}'
            ctx.instance(k, dict(rec, rule=rule_id, fn=f.nice))
            if not rec['every_iteration'] or rec['more_than_once']:
                what = 'is not pushed on every iteration' if not rec['every_iteration'] else 'can be pushed twice in one iteration'
                ctx.finding(k, f'{f.nice}: `{rec["vec"]}` is indexed by the position of each element of `{rec["filled_over"]}` but {what} of the '
                            'loop that fills it: the slots of later elements shift and are matched against the wrong element',
                            f'{f.file}:{rec["line"]}')
    if floor is not None:
        ctx.floor(f'{rule_id} positionally consumed vectors in scope', n, floor)
    return n


# --------------------------------------------------------------------------------------------- quantifiers
def quantifier_rule(ctx, rule_id, scope_pred, control_floor=None):
    prog = ctx.prog
    ctx.rule(rule_id, 'change detection over a set of columns is existential: no Iterator::all whose closure tests membership in a '
             'changed-column set or inequality between two row images (a key / index is affected as soon as ONE of its columns changes); '
             'the matcher is kept live by the Iterator::any sites of the same shape')
    live = 0
    for f in prog.fns.values():
        if is_test(f) or f.unit not in ('vibesql_executor', 'vibesql_storage') or not scope_pred(f):
            continue
        for i, t in f.calls():
            cn = callee_name(t) or ''
            op = cn.rsplit('::', 1)[-1].split('<')[0]
            if op not in ('all', 'any') or 'iter' not in cn.lower():
                continue
            s = Sym(f); s.closures = set()
            for a in t['args'][1:]:
                s.op(a)
            for cp in s.closures:
                c = prog.fns.get(cp)
                if c is None:
                    continue
                ret = Sym(c).local(0)
                change_test = bool(re.search(r'contains\(\w*changed\w*', ret)) or _ne_of_two_rows(ret)
                if not change_test:
                    continue
                live += 1
                k = f'{rule_id.split(".")[-1]}/quantifier/{f.nice}/{op}@{_ordinal(f, i)}'
                ctx.instance(k, {'rule': rule_id, 'fn': f.nice, 'loc': f'{f.file}:{t["l"]}', 'quantifier': op, 'test': ret[:160]})
                if op == 'all':
                    ctx.finding(k, f'{f.nice}: "changed" is decided with Iterator::all over `{ret[:100]}`: a composite key or index counts as '
                                'changed only when every one of its columns changes, so a partial change is not propagated', f'{f.file}:{t["l"]}')
    if control_floor is not None:
        ctx.floor(f'{rule_id} matcher control (existential change tests seen)', live, control_floor)
    return live


def _ordinal(f, block):
    return sum(1 for i, _ in f.calls() if i < block)


def _ne_of_two_rows(ret):
    m = re.match(r'^(?:ne|\()\(?(.*?)(?:, | Ne )(.*?)\)+$', ret)
    if not (ret.startswith('ne(') or ' Ne ' in ret):
        return False
    parts = re.findall(r'index\(([A-Za-z_0-9.]+?)(?:\.values)?, ', ret)
    return len(set(parts)) >= 2


# --------------------------------------------------------------------------------------------- deciding switches
def deciding_switches(f, block, is_guard_region=None):
    """switch blocks S that dominate `block` and have a successor from which `block` is not reachable; regions that satisfy
    is_guard_region(reachable_blocks) (early error / 'not applicable' exits) are ignored"""
    g = cfg(f)
    out = []
    for sblk in g.reachable():
        t = f.blocks[sblk]['t']
        if t['k'] != 'switch' or not g.dominates(sblk, block) or sblk == block:
            continue
        for succ in g.succ[sblk]:
            reach = _forward_reach(g, succ)
            if block not in reach:
                if is_guard_region and is_guard_region(reach):
                    continue
                out.append(sblk)
                break
    return out


def _forward_reach(g, start):
    back = set(g.back_edges())
    seen = {start}; work = [start]
    while work:
        b = work.pop()
        for s_ in g.succ[b]:
            if (b, s_) in back or s_ in seen:
                continue
            seen.add(s_); work.append(s_)
    return seen


def switch_condition(f, sblk, sym=None):
    """symbolic expression of the value a switch block tests"""
    from ..engine.cfg import op_place
    sym = sym or Sym(f)
    t = f.blocks[sblk]['t']
    p = op_place(t['on'])
    if p is None:
        return '?'
    # discriminant read in the same block
    for st in f.blocks[sblk]['s']:
        if 'd' in st and st['d'][0] == p[0] and st['v']['r'] == 'discr':
            return 'discr(' + sym.place(st['v']['p']) + ')'
    return sym.place(p)


# --------------------------------------------------------------------------------------------- pre-extracted keys
RV = "vibesql_executor::insert::row_validator::RowValidator::<'a>::"
PREEXTRACTED = {
    (RV + 'validate_primary_key_uniqueness', 'pk'): 'key pre-extracted by RowValidator::validate_column_constraints; its derivation is checked by the key-order rule',
    (RV + 'validate_unique_constraints', 'unique'): 'key pre-extracted by RowValidator::validate_column_constraints; its derivation is checked by the key-order rule',
}


def key_order_rule(ctx, rule_id):
    """RowValidator::validate_column_constraints: the PK / UNIQUE / FK key values handed to the later phases are collected by
    iterating each key's own index list; nothing is pushed inside the loop over the table's columns (column order)"""
    from ..engine.linear import Encoder
    prog = ctx.prog
    ctx.rule(rule_id, 'RowValidator::validate_column_constraints: result.primary_key / unique_keys / foreign_keys are computed from '
             'get_primary_key_indices / get_unique_constraint_indices / fk.column_indices (declared key order); no value is pushed into '
             'a key buffer inside the loop over schema.columns (which would yield column order)')
    f = ctx.fn(RV + 'validate_column_constraints')
    s = Sym(f)
    enc = Encoder(prog, f)
    loop_of = enc.loop_of_block()
    bad = []
    for i, t in f.calls():
        cn = callee_name(t) or ''
        if cn.startswith('alloc::vec::Vec') and cn.rsplit('::', 1)[-1].split('<')[0] == 'push':
            L = loop_of.get(i)
            chain = []
            while L is not None:
                chain.append(enc.loop_root(L))
                # enclosing loop
                outer = [h for h in set(loop_of.values()) if h is not None and h != L and loop_of.get(h) == h and L in _body(enc, h)]
                L = None
            if any('schema.columns' in c for c in chain) or _in_columns_loop(enc, loop_of, i):
                bad.append(t['l'])
    src = {}
    for bi, b in enumerate(f.blocks):
        for st in b['s']:
            if 'd' in st and st['d'][1] and st['d'][1][-1] == '.primary_key':
                src['primary_key'] = s._one(0, (bi, 'assign', st['v']), 0)
    for i, t in f.calls():
        cn = callee_name(t) or ''
        if cn.endswith('index_mut') and t['args']:
            r = s.op(t['args'][0])
            if r.endswith('.unique_keys') or r.endswith('.foreign_keys'):
                src[r.rsplit('.', 1)[1]] = s.op(t['args'][1])
    ctx.instance(f'{rule_id.split(".")[-1]}/key-order', {'rule': rule_id, 'sources': {k: v[:160] for k, v in src.items()}, 'pushes_in_column_loop': bad})
    need = {'primary_key': 'get_primary_key_indices', 'unique_keys': 'get_unique_constraint_indices', 'foreign_keys': 'foreign_keys'}
    for k, marker in need.items():
        if marker not in src.get(k, ''):
            ctx.finding(f'{rule_id.split(".")[-1]}/key-order/{k}', f'validate_column_constraints: result.{k} is not derived from {marker} (found `{src.get(k, "nothing")[:100]}`)', f.loc)
    if bad:
        ctx.finding(f'{rule_id.split(".")[-1]}/key-order/column-order', 'validate_column_constraints assembles key values while iterating schema.columns: the '
                    'values come out in table column order, but the hash indexes and parent lookups use the declared key order '
                    '(PRIMARY KEY (b, a) on columns (a, b): duplicates are accepted, distinct keys rejected)', f'{f.file}:{bad[0]}')


def _body(enc, h):
    g = enc.g
    return {b for b in g.reachable() if g.dominates(h, b) and h in g.reach_from([b])}


def _in_columns_loop(enc, loop_of, block):
    """is `block` inside (any nesting depth of) a loop whose iterator ranges over schema.columns"""
    for h in enc.lh:
        if block in _body(enc, h) and 'schema.columns' in enc.loop_root(h):
            return True
    return False


def deciding_conditions(f, block, sym=None):
    """{(condition expression, value on the branch that leads to `block`)} for the switches that decide whether block runs"""
    g = cfg(f)
    sym = sym or Sym(f)
    out = set()
    lh = loop_headers(f)
    hdr = {sw for (sw, _n) in lh.values()}
    for sblk in deciding_switches(f, block):
        if sblk in hdr:
            continue
        t = f.blocks[sblk]['t']
        vals = []
        for v, tb in t['targets']:
            if block in _forward_reach(g, tb) or tb == block:
                vals.append(str(v))
        if t.get('else') is not None and (block in _forward_reach(g, t['else']) or t['else'] == block):
            vals.append('else:' + ','.join(str(v) for v, _ in t['targets']))
        out.add((switch_condition(f, sblk, sym), '|'.join(vals)))
    return out


def named_root(f, defs, op, depth=0):
    """(local, name) of the named variable an operand refers to, following only borrows / copies / moves (no calls)"""
    from ..engine.cfg import op_place
    p = op_place(op) if isinstance(op, dict) else op
    for _ in range(16):
        if p is None:
            return (None, None)
        l = p[0]
        if l in f.names:
            return (l, f.names[l])
        ds = defs.get(l, [])
        if len(ds) != 1 or ds[0][1] != 'assign':
            return (l, None)
        v = ds[0][2]
        if v['r'] == 'ref':
            p = v['p']
        elif v['r'] in ('use', 'cast'):
            p = op_place(v['a'])
        else:
            return (l, None)
    return (None, None)


# --------------------------------------------------------------------------------------------- swapped arguments
def swapped_arguments_rule(ctx, rule_id, scope_pred, floor=None):
    """a call to a workspace function passes the variable named like parameter B for parameter A and the variable named like
    A for B (exact cross swap of two same-typed parameters)"""
    prog = ctx.prog
    ctx.rule(rule_id, 'no call passes, for two parameters p and q of the callee that have the same type, a value named q for p and a value '
             'named p for q (old/new row images, source/destination, parent/child handed over in swapped order)')
    checked = 0
    for f in prog.fns.values():
        if is_test(f) or f.dk == 'Promoted' or not scope_pred(f):
            continue
        s = None
        for i, t in f.calls():
            cn = callee_name(t) or ''
            if not cn.startswith('vibesql_'):
                continue
            cands = prog.by_nice.get(cn)
            if not cands:
                continue
            callee = cands[0]
            if callee.argc != len(t['args']) or callee.argc < 2:
                continue
            pnames = [callee.names.get(k) for k in range(1, callee.argc + 1)]
            ptypes = [callee.locals[k] for k in range(1, callee.argc + 1)]
            fdefs = defs_of(f)
            actual = [named_root(f, fdefs, a)[1] for a in t['args']]
            checked += 1
            for a_i in range(len(pnames)):
                for b_i in range(a_i + 1, len(pnames)):
                    pa, pb = pnames[a_i], pnames[b_i]
                    if not pa or not pb or pa == pb or ptypes[a_i] != ptypes[b_i]:
                        continue
                    if actual[a_i] == pb and actual[b_i] == pa:
                        k = f'{rule_id.split(".")[-1]}/swapped/{f.nice}/{callee.nice.rsplit("::", 1)[1]}/{pa}-{pb}'
                        ctx.finding(k, f'{f.nice}: {callee.nice.rsplit("::",1)[1]}(.. {pa}, {pb} ..) is called with `{actual[a_i]}` for {pa} and '
                                    f'`{actual[b_i]}` for {pb}: the two arguments are swapped', f'{f.file}:{t["l"]}')
    ctx.instance(f'{rule_id.split(".")[-1]}/swapped', {'rule': rule_id, 'calls_with_named_parameters_checked': checked})
    if floor is not None:
        ctx.floor(f'{rule_id} calls checked for swapped arguments', checked, floor)


# --------------------------------------------------------------------------------------------- statement clauses on the result path
def stmt_atoms(prog, f, block, sym, depth=0):
    """what the branch conditions on the way to `block` establish about the SELECT statement `stmt`:
    '<field>_none' / '<field>_some' for its Option fields (where_clause, limit, offset, set_operation, ..), 'not_distinct';
    bool helpers that returned true and Option helpers that returned Some are replaced by what holds on all their true / Some paths"""
    out = set()
    for c, v in deciding_conditions(f, block, sym):
        none = (c.startswith('is_some(') and v == '0') or (c.startswith('is_none(') and v != '0') or (c.startswith('discr(') and v in ('0', 'else:1'))
        some = (c.startswith('is_some(') and v != '0') or (c.startswith('is_none(') and v == '0') or (c.startswith('discr(') and v in ('1', 'else:0'))
        m = re.match(r'^(?:is_some|is_none|discr)\((?:as_ref\()?\(?\*?(?:stmt|select_stmt|self\.stmt|subquery)\)?\.(\w+)\)?\)$', c)
        if m and (none or some):
            out.add(m.group(1) + ('_none' if none else '_some'))
        elif re.search(r'\bstmt\.distinct$', c):
            if v == '0':
                out.add('not_distinct')
        elif v != '0' and depth < 2:
            m = re.match(r'^(\w+)\(', c)
            if m:
                for h in prog.fns.values():
                    if h.unit == f.unit and h.nice.endswith('::' + m.group(1)) and h.locals and h.locals[0] == 'bool' and not is_test(h) \
                            and '::select::' in h.nice and not h.is_closure():
                        out |= _helper_atoms(prog, h, depth + 1)
            m = re.match(r'^discr\((\w+)\(', c)
            if m and v in ('1', 'else:0'):
                for h in prog.fns.values():
                    if h.unit == f.unit and h.nice.endswith('::' + m.group(1)) and h.locals and 'option::Option<' in h.locals[0] and not is_test(h) \
                            and '::select::' in h.nice and not h.is_closure():
                        out |= _helper_atoms(prog, h, depth + 1, some=True)
    return out


def _helper_atoms(prog, h, depth, some=False):
    """atoms established on every path on which the helper returns true (bool helper) / Some(..) (Option helper)"""
    from ..engine.cfg import op_const
    s = Sym(h)
    sets = []
    for bi, b in enumerate(h.blocks):
        for st in b['s']:
            if 'd' in st and st['d'][0] == 0 and not st['d'][1]:
                v = st['v']
                if some:
                    if v['r'] == 'agg' and v.get('variant') == 'Some':
                        sets.append(stmt_atoms(prog, h, bi, s, depth))
                    elif v['r'] == 'agg' and v.get('variant') == 'None':
                        pass
                    else:
                        return set()
                    continue
                c = op_const(v['a']) if 'a' in v else None
                if c in (True, 1, 'true'):
                    sets.append(stmt_atoms(prog, h, bi, s, depth))
                elif c in (False, 0, 'false'):
                    pass
                else:
                    return set()
    return set.intersection(*sets) if sets else set()


WRAPPERS = re.compile(r'(Try>::branch|From<.*>::from|Into<.*>::into|Result::<T, E>::map_err|Option::<T>::(ok_or|ok_or_else))$')


def flows_to_return(f, call_block):
    """the value returned by the call in call_block is the value this function returns: its destination reaches _0 through moves, field
    projections, Ok(..)/Some(..) wrapping and the `?` plumbing only - not through another call (a later phase of the pipeline)"""
    from ..engine.cfg import op_place
    t = f.blocks[call_block]['t']
    if t['d'][0] == 0:
        return True
    tainted = {t['d'][0]}
    changed = True
    while changed:
        changed = False
        for b in f.blocks:
            for st in b['s']:
                if 'd' not in st:
                    continue
                v = st['v']
                srcs = []
                if 'a' in v:
                    srcs.append(op_place(v['a']))
                srcs += [op_place(o) for o in v.get('ops', [])]
                if 'p' in v:
                    srcs.append(v['p'])
                if any(p and p[0] in tainted for p in srcs) and st['d'][0] not in tainted and v['r'] in ('use', 'agg', 'ref', 'cast'):
                    tainted.add(st['d'][0]); changed = True
            tt = b['t']
            if tt['k'] == 'call' and WRAPPERS.search(callee_name(tt) or ''):
                if any((op_place(a) or [None])[0] in tainted for a in tt['args']) and tt['d'][0] not in tainted:
                    tainted.add(tt['d'][0]); changed = True
    return 0 in tainted


def result_path_rule(ctx, prog, rule_id, clauses, describe, floor=6, reviewed=None):
    """From execute_with_ctes downwards (every select-executor callee that receives the same `stmt` and whose rows are the rows its caller
    returns): for each clause, no successful return is reachable without passing a block that satisfies the clause.
    clauses: {name: fn(f, sym, g, atoms_of_block) -> set of satisfying blocks}; describe(name, fn, lines) -> finding text.
    Returns of an empty vector and declining returns (Ok(None)) are exempt."""
    from ..engine.paths import ok_exit_reachable
    tops = [f for f in prog.fns.values() if f.unit == 'vibesql_executor' and not f.is_closure() and f.nice.endswith('::execute_with_ctes') and not is_test(f)]
    ctx.require(len(tops) == 1, 'execute_with_ctes not found')
    verdict, report, witness, through = {}, {}, {}, {}
    short_id = rule_id.split('.')[-1]

    def stmt_param(f):
        return any(f.names.get(k) == 'stmt' for k in range(1, f.argc + 1))

    def candidates(f, s):
        out = []
        for i, t in f.calls():
            cn = callee_name(t) or ''
            hs = [h for h in prog.by_nice.get(cn, []) if h.unit == 'vibesql_executor' and '::select::' in h.nice and h.locals
                  and 'result::Result<' in h.locals[0] and 'Vec<vibesql_storage::row::Row>' in h.locals[0].replace('alloc::vec::', '') and stmt_param(h)]
            if len(hs) == 1 and any(s.op(a) == 'stmt' for a in t['args']) and flows_to_return(f, i):
                out.append((i, hs[0]))
        return out

    reviewed = reviewed or {}

    def complete(f, depth=0):
        if f.nice in verdict:
            return verdict[f.nice]
        short_name = re.sub(r"<impl [^>]*>::", '', f.nice).rsplit('::', 1)[-1]
        if short_name in reviewed:
            verdict[f.nice] = True
            report[f.nice] = {'complete': True, 'reviewed': reviewed[short_name], 'callees_with_the_same_stmt': []}
            witness[f.nice] = ({}, {}, set())
            through[f.nice] = set()
            return True
        verdict[f.nice] = True           # recursion: assume
        s = Sym(f)
        g = cfg(f)
        cand = candidates(f, s) if depth < 6 else []
        safe_calls = {i for i, h in cand if complete(h, depth + 1)}
        # a callee that may decline (Ok(None)) does not end the caller's obligation: only the return of its Some(..) rows is satisfied
        declining = {i: h for i, h in cand if 'option::Option<' in h.locals[0]}
        safe_returns = set()
        for i, h in declining.items():
            if i in safe_calls:
                nm = h.nice.rsplit('::', 1)[1] + '('
                for b in g.reachable():
                    for st in f.blocks[b]['s']:
                        if 'd' in st and st['d'][0] == 0 and not st['d'][1] and st['v']['r'] == 'agg' and st['v'].get('ops') and nm in s.op(st['v']['ops'][0]):
                            safe_returns.add(b)
        safe_calls = {i for i in safe_calls if i not in declining}
        atoms = {b: stmt_atoms(prog, f, b, s) for b in g.reachable()}
        exempt = set()
        for b in g.reachable():
            for st in f.blocks[b]['s']:
                if 'd' in st and st['d'][0] == 0 and not st['d'][1] and st['v']['r'] == 'agg' and st['v'].get('variant') == 'Ok' and st['v'].get('ops'):
                    if re.match(r'^(new\(\)|None\(\)|None\(\)@Some\.0)$', s.op(st['v']['ops'][0])):   # empty / declining / payload of a constant None (dead)
                        exempt.add(b)
        res = {}
        for cl, sat in clauses.items():
            removed = set(safe_calls) | safe_returns | exempt | set(sat(f, s, g, atoms))
            res[cl] = ok_exit_reachable(f, [0], removed, loop_model=False)
        ok = not any(res.values())
        verdict[f.nice] = ok
        # paths that are this function's own: they pass none of the callees whose rows are returned
        own = {}
        if not ok:
            for cl, sat in clauses.items():
                removed = {i for i, _h in cand if i not in declining} | safe_returns | exempt | set(sat(f, s, g, atoms))
                own[cl] = ok_exit_reachable(f, [0], removed, loop_model=False)
            if not any(own.values()) and not thr_pending(cand):
                own = res                 # nothing else to blame
        # callees through whose call an unsatisfied path of this function runs
        thr = set()
        if not ok:
            for cl, sat in clauses.items():
                removed = set(safe_calls) | safe_returns | exempt | set(sat(f, s, g, atoms))
                reached, _ = search(f, [0], removed, loop_model=False)
                for i, _h in cand:
                    if i in reached and i not in removed and ok_exit_reachable(f, [i], removed, loop_model=False):
                        thr.add(i)
        through[f.nice] = thr
        witness[f.nice] = (own, dict(cand), safe_calls)
        report[f.nice] = {'complete': ok, 'callees_with_the_same_stmt': sorted(h.nice.rsplit('::', 1)[1] for _i, h in cand)}
        return ok

    def thr_pending(cand):
        return any(not verdict.get(h.nice, True) for _i, h in cand)

    def blame(f, seen):
        """report the functions in which an unsatisfied path ends: every incomplete callee whose rows are returned is examined, and the function
        itself when a path remains that passes none of those callees"""
        if f.nice in seen or verdict.get(f.nice, True):
            return
        seen.add(f.nice)
        own, cand, safe_calls = witness[f.nice]
        for b, h in cand.items():
            if not verdict.get(h.nice, True) and b in through[f.nice]:
                blame(h, seen)
        for cl, path in own.items():
            if path:
                lines = sorted({f.blocks[b]['t']['l'] for b in path})
                short = re.sub(r"<impl [^>]*>::", '', f.nice).rsplit('::', 1)[-1]
                ctx.finding(f'{short_id}/{short}', describe(cl, f, lines[:8]), f.loc)
                break

    complete(tops[0])
    blame(tops[0], set())
    for k, v in report.items():
        ctx.instance(f'{short_id}/' + re.sub(r"<impl [^>]*>::", '', k).rsplit('::', 1)[-1], dict(rule=rule_id, fn=k, **v))
    ctx.floor(f'{rule_id} functions on the result path', len(report), floor)
