"""C05 Join algorithms and subquery rewrites preserve query meaning — structural clauses (T14 + T8).

Plan equivalence as a whole is a semantic property and stays undecided.  Decided are three necessary conditions, each
written from a defect that was demonstrated on the pinned tree and repaired:
 (R1) row / schema layout of the join operators: every operator hands out rows laid out (left, right), so the schema of
      every FromResult it builds must be rooted at its first input (combine(left.schema, ..), left.schema for semi / anti
      joins).  A schema taken from a delegate that ran with the inputs swapped (RIGHT OUTER JOIN = LEFT OUTER JOIN of
      (right, left)) lists the sides in the other order;
 (R2) NULL semantics of the NOT IN -> anti join rewrite: in try_convert_in_to_join the join condition built on the
      `negated` path is `x = s OR x IS NULL OR s IS NULL` (two IS NULL tests, one per operand, combined with OR): an anti
      join on `x = s` alone returns rows although the subquery yields a NULL, and rows whose x is NULL;
 (R2') in the same function the subquery's own WHERE clause is AND-ed to the WHOLE NULL-aware condition
      ((x = s OR x IS NULL OR s IS NULL) AND p), never to the equality alone: the And node's left operand has the OR form
      as an alternative and no Or node has an And operand;
 (R4) "common to ALL branches": analyze_or_equi_join looks for an equi-join that every OR branch carries; its loop over
      the branches pushes one entry per branch onto branch_equijoins or leaves the function - an iteration that skips the
      push lets a branch without a key drop out of the comparison, and the hash join then loses the rows only that
      branch accepts;
 (R5) scope of the statement's WHERE clause: execute_join hands that clause to its inputs for predicate pushdown; the right
      input of a SEMI / ANTI join (a rewritten IN / EXISTS subquery) is outside its scope, so the clause reaches the
      right input only through a value that is None for these join types (decided by the discriminant of join_type);
 (R6) the join condition `x = c` of the IN rewrite is evaluated over the columns of both tables: both operands of the
      equality go through a qualification step (an alternative ColumnRef { table: Some(..) } built from the outer table
      for x and from the subquery's table for c) - an unqualified name on both sides would compare a column with
      itself when the tables share a column name;
 (R3) NOT EXISTS is not decorrelated to NOT IN: in the subquery rewriter the call of rewrite_exists_to_in is reachable
      only on the `negated == false` side (NOT IN and NOT EXISTS differ under NULLs).
Does NOT decide join-order independence, the hash / nested-loop agreement on values, nor the semi-join rewrites of
positive IN / EXISTS (they have no NULL asymmetry). (R7) a subquery with LIMIT / OFFSET keeps its form: in optimizer::subquery_rewrite every shape-changing step - the
      assignment of `distinct = true` on a (copy of a) subquery, the call of rewrite_in_to_exists, and a Some(..) answer of
      rewrite_exists_to_in - is decided by tests that the subquery's limit and offset are both None.  DISTINCT before the
      cut, a correlation predicate pushed under the cut, or one cut for all outer rows change which rows survive.
 (R8) the two subquery-to-join conversions agree on what a join cannot express: in optimizer::subquery_to_join every
      function that answers Some(join) for a subquery (IN and EXISTS forms) decides that the subquery's OFFSET is None and
      tests its LIMIT on the way (a semi / anti join ignores a per-outer-row cut).
 (R9) a hash join is chosen only for key columns with one value representation: hash tables match keys by SqlValue
      equality, which tells Integer(1) from Bigint(1) and Float(1.0), while the `=` that the nested loop evaluates does not;
      in join_analyzer every Some(EquiJoinInfo) answer of analyze_single_equi_join (all hash-join paths go through it) is
      decided by a test that reads the declared types of both key columns.
"""
import re
from ..engine.facts import callee_name
from ..engine.cfg import cfg
from ..engine.symexpr import Sym
from . import shared

UNITS = {'vibesql_executor', 'vibesql_ast'}
EX = 'vibesql_executor::'
J = EX + 'select::join::'


def run(ctx):
    prog = ctx.prog
    # ------------------------------------------------------------------ R1 result layout of the join operators
    ctx.rule('C05.R1', 'every join operator (FromResult, FromResult, ..) -> FromResult builds its result with a schema rooted at its FIRST input '
             '(combine(left.schema, ..), CombinedSchema(left.schema.table_schemas, ..) or left.schema for semi / anti joins): rows are laid out '
             '(left, right), so a schema taken from a delegate that was called with the inputs swapped, or rooted at the second input, misnames the columns')
    ops = [f for f in prog.fns.values() if f.unit == 'vibesql_executor' and not f.is_closure() and not shared.is_test(f) and f.nice.startswith(J)
           and f.argc >= 2 and 'FromResult' in f.locals[1] and 'FromResult' in f.locals[2]]
    ctx.floor('C05.R1 join operators', len(ops), 10)
    nres = 0
    for f in ops:
        a1, a2 = f.names.get(1, 'arg1'), f.names.get(2, 'arg2')
        s = Sym(f)
        for i, t in f.calls():
            cn = callee_name(t) or ''
            if not re.search(r'FromResult::(from_rows|from_rows_sorted|from_rows_where_filtered|from_iterator)$', cn) or not t['args']:
                continue
            nres += 1
            sch = s.op(t['args'][0])
            rooted = re.match(r'^(combine\(|CombinedSchema\()?(clone\()?' + re.escape(a1) + r'\.schema\b', sch) is not None
            ctx.instance(f'R1/{f.nice.rsplit("::", 1)[1]}@{shared._ordinal(f, i)}', {'rule': 'C05.R1', 'fn': f.nice, 'schema': sch[:90], 'rooted_at_first_input': rooted})
            if not rooted:
                ctx.finding(f'R1/{f.nice.rsplit("::", 1)[1]}', f'{f.nice} returns rows laid out ({a1}, {a2}) with the schema `{sch[:70]}`, which does not start with '
                            f'{a1}.schema: column names then resolve to the other table\'s values (SELECT a.x .. FROM a RIGHT JOIN b returned b\'s column)',
                            f'{f.file}:{t["l"]}')
    ctx.floor('C05.R1 results built by join operators', nres, 10)

    # ------------------------------------------------------------------ R2 NOT IN -> anti join is NULL aware
    ctx.rule('C05.R2', 'try_convert_in_to_join: on the negated path the join condition is an OR of the equality with an IS NULL test of each operand')
    g = ctx.fn(EX + 'optimizer::subquery_to_join::try_convert_in_to_join')
    sg = Sym(g)
    ors = []
    for bi, b in enumerate(g.blocks):
        for st in b['s']:
            if 'd' in st and st['v']['r'] == 'agg' and str(st['v'].get('adt', '')).endswith('::Expression') and st['v'].get('variant') == 'BinaryOp':
                ops_ = [sg.op(o) for o in st['v'].get('ops', [])]
                if ops_ and ops_[0].startswith('Or('):
                    neg = [(c, v) for c, v in shared.deciding_conditions(g, bi, sg) if c == 'negated' and v != '0']
                    if neg:
                        ors.append(' '.join(ops_))
    isnull_builders = []
    for c in [g] + prog.children(g):
        for b in c.blocks:
            for st in b['s']:
                if 'd' in st and st['v']['r'] == 'agg' and str(st['v'].get('adt', '')).endswith('::Expression') and st['v'].get('variant') == 'IsNull':
                    isnull_builders.append(c.nice)
    # the outermost OR on the negated path must mention the equality, the outer expression and the subquery column through the IS NULL builder
    full = [o for o in ors if 'Equal()' in o and o.count('closure#') >= 2 or (o.count('IsNull(') >= 2 and 'Equal()' in o)]
    ok = bool(isnull_builders) and bool(full) and any(('expr' in o and 'select_list' in o) for o in full)
    ctx.instance('R2/try_convert_in_to_join', {'rule': 'C05.R2', 'or_conditions_on_negated_path': len(ors), 'is_null_constructed_in': sorted(set(isnull_builders)), 'null_aware': ok})
    if not ok:
        ctx.finding('R2/not-in-anti-join', 'try_convert_in_to_join turns x NOT IN (SELECT s ..) into an anti join without IS NULL alternatives for x and s: rows are '
                    'returned although the subquery yields a NULL (NOT IN is then never TRUE), and rows with a NULL x are returned', g.loc)

    # ------------------------------------------------------------------ R3 NOT EXISTS is not decorrelated to NOT IN
    ctx.rule('C05.R3', 'the rewriter calls rewrite_exists_to_in only where the EXISTS predicate is not negated')
    callers = []
    for f in prog.fns.values():
        if f.unit != 'vibesql_executor' or shared.is_test(f):
            continue
        for i, t in f.calls():
            if (callee_name(t) or '').endswith('subquery_rewrite::transformations::rewrite_exists_to_in'):
                callers.append((f, i, t))
    ctx.floor('C05.R3 callers of rewrite_exists_to_in', len(callers), 1)
    for f, i, t in callers:
        sf = Sym(f)
        conds = shared.deciding_conditions(f, i, sf)
        guarded = any(re.search(r'negated', c) and v == '0' for c, v in conds)
        ctx.instance(f'R3/{f.nice.rsplit("::", 1)[1]}', {'rule': 'C05.R3', 'fn': f.nice, 'only_when_not_negated': guarded,
                                                         'conditions': [(c[:50], v) for c, v in conds if 'negated' in c]})
        if not guarded:
            ctx.finding(f'R3/{f.nice.rsplit("::", 1)[1]}', f'{f.nice} decorrelates NOT EXISTS to NOT IN: with a NULL in the inner key the predicate is never TRUE and with '
                        'a NULL outer key it is UNKNOWN, where NOT EXISTS is TRUE in both cases', f'{f.file}:{t["l"]}')

    # ------------------------------------------------------------------ R2' the subquery WHERE is AND-ed to the whole condition
    ctx.rule("C05.R2'", 'try_convert_in_to_join: And(join_condition, subquery_where) takes the NULL-aware OR form as its left operand on the negated path; '
             'no Or node is built over an And node')
    ands = []; or_over_and = False
    for bi, b in enumerate(g.blocks):
        for st in b['s']:
            if 'd' in st and st['v']['r'] == 'agg' and str(st['v'].get('adt', '')).endswith('::Expression') and st['v'].get('variant') == 'BinaryOp':
                ops_ = [sg.op(o) for o in st['v'].get('ops', [])]
                if ops_ and ops_[0].startswith('And('):
                    ands.append(ops_)
                if ops_ and ops_[0].startswith('Or(') and any('And()' in o for o in ops_[1:]):
                    or_over_and = True
    left_has_or = any('Or()' in o[1] for o in ands if len(o) > 1)
    ctx.instance("R2'/try_convert_in_to_join", {'rule': "C05.R2'", 'and_nodes': len(ands), 'and_left_operand_contains_the_or_form': left_has_or, 'or_over_and': or_over_and})
    if ands and (not left_has_or or or_over_and):
        ctx.finding("R2'/where-inside-the-null-aware-condition", 'try_convert_in_to_join attaches the subquery\'s WHERE clause to the equality instead of to the whole '
                    'NULL-aware condition ((x = s AND p) OR x IS NULL OR s IS NULL): a row that p filters out but whose s is NULL still blocks every outer row, and a '
                    'NULL x is dropped although p empties the subquery', g.loc)

    # ------------------------------------------------------------------ R4 one entry per OR branch
    from ..engine.paths import loop_headers
    from ..engine.linear import Encoder
    ctx.rule('C05.R4', 'analyze_or_equi_join: every iteration of the loop over the OR branches either returns or pushes onto branch_equijoins')
    ao = ctx.fn(EX + 'select::join::join_analyzer::analyze_or_equi_join')
    so = Sym(ao); go = cfg(ao); eo = Encoder(prog, ao)
    checked = 0
    from ..engine.cfg import defs_of
    dao = defs_of(ao)

    from ..engine.cfg import op_local

    def var_of(op, depth=0):
        """name of the user variable an operand refers to; the hidden loop variable `iter` is traced back through into_iter(..)"""
        l, nm = shared.named_root(ao, dao, op)
        if nm and nm != 'iter':
            return nm
        if depth > 6:
            return nm
        start = l if l is not None else (op_local(op) if isinstance(op, dict) else None)
        for dd in dao.get(start, []):
            if dd[1] == 'assign' and dd[2]['r'] == 'use':
                return var_of(dd[2]['a'], depth + 1)
            if dd[1] == 'call' and dd[2]['args']:
                return var_of(dd[2]['args'][0], depth + 1)
        return nm
    for h, (sw, none_t) in loop_headers(ao).items():
        root = var_of(ao.blocks[h]['t']['args'][0]) or ''
        if root != 'or_branches':
            continue
        body = shared._body(eo, h)
        pushes = [i for i in body if ao.blocks[i]['t']['k'] == 'call' and (callee_name(ao.blocks[i]['t']) or '').endswith('::push')
                  and var_of(ao.blocks[i]['t']['args'][0]) == 'branch_equijoins']
        ctx.require(pushes, 'analyze_or_equi_join: push onto branch_equijoins not found in the loop over the OR branches')
        checked += 1
        some_t = [x for x in go.succ[sw] if x != none_t and not ao.blocks[x]['t'].get('cleanup')]
        reach = go.reach_from(some_t, removed=set(pushes) | {h})
        skipped = any(h in go.succ[b] for b in reach if b in body)
        ctx.instance('R4/analyze_or_equi_join', {'rule': 'C05.R4', 'loop_over': root[:60], 'pushes_in_loop': len(pushes), 'iteration_can_skip_the_push': skipped})
        if skipped:
            ctx.finding('R4/analyze_or_equi_join', 'analyze_or_equi_join can finish an iteration over an OR branch without recording it: a branch without an equi-join '
                        'no longer prevents the hash join on the key of the other branches, and the rows that only that branch accepts are lost', ao.loc)
    ctx.floor('C05.R4 loops over the OR branches', checked, 1)

    # ------------------------------------------------------------------ R5 WHERE clause scope under SEMI / ANTI joins
    ctx.rule('C05.R5', 'execute_join: the WHERE-clause argument of the execute_from_clause call for the RIGHT input is not the raw where_clause parameter but a value '
             'that is None on the paths selected by join_type in {Semi, Anti}')
    ej = ctx.fn(EX + 'select::scan::join_scan::execute_join')
    sj = Sym(ej)
    calls = [(i, t) for i, t in ej.calls() if (callee_name(t) or '').endswith('select::scan::execute_from_clause') and sj.op(t['args'][0]) == 'right']
    ctx.floor('C05.R5 execute_from_clause calls for the right input', len(calls), 1)
    for i, t in calls:
        w = sj.op(t['args'][3])
        raw = w == 'where_clause'
        guarded = False
        if not raw and 'None()' in w:
            for bi, b in enumerate(ej.blocks):
                for st in b['s']:
                    if 'd' in st and st['v']['r'] == 'agg' and str(st['v'].get('adt', '')).endswith('option::Option') and st['v'].get('variant') == 'None':
                        for c, v in shared.deciding_conditions(ej, bi, sj):
                            if 'join_type' in c:
                                guarded = True
                        # the test may go through a bool computed by matches!(join_type, ..): follow the switch operand to its definitions
                        from ..engine.cfg import defs_of, op_local
                        dj = defs_of(ej)
                        for sb in shared.deciding_switches(ej, bi):
                            l = op_local(ej.blocks[sb]['t']['on'])
                            seen = set()
                            work = [l]
                            while work:
                                x = work.pop()
                                if x is None or x in seen:
                                    continue
                                seen.add(x)
                                for dd in dj.get(x, []):
                                    if dd[1] == 'assign':
                                        if any('join_type' in c for c, _v in shared.deciding_conditions(ej, dd[0], sj)):
                                            guarded = True
                                        a = dd[2].get('a')
                                        if isinstance(a, dict):
                                            work.append(op_local(a))
        ctx.instance('R5/execute_join', {'rule': 'C05.R5', 'where_argument_for_the_right_input': w[:80], 'none_for_semi_anti': guarded})
        if raw or not guarded:
            ctx.finding('R5/execute_join', 'execute_join pushes the statement\'s WHERE clause into the right input of every join, also of the SEMI / ANTI joins that replace '
                        'IN / EXISTS subqueries: a predicate on an unqualified column that both tables have is applied to the subquery\'s table '
                        '(WHERE x IN (SELECT y FROM b) AND v > 1 filters b.v)', f'{ej.file}:{t["l"]}')

    # ------------------------------------------------------------------ R6 both sides of the IN join condition are qualified
    ctx.rule('C05.R6', 'try_convert_in_to_join: each operand of the Equal node has an alternative of the form ColumnRef(Some(<table of its side>), ..): the outer one built '
             'from the outer FROM clause, the inner one from the subquery\'s FROM clause')
    eqs = []
    for bi, b in enumerate(g.blocks):
        for st in b['s']:
            if 'd' in st and st['v']['r'] == 'agg' and str(st['v'].get('adt', '')).endswith('::Expression') and st['v'].get('variant') == 'BinaryOp':
                ops_ = [sg.op(o) for o in st['v'].get('ops', [])]
                if ops_ and ops_[0].startswith('Equal('):
                    eqs.append(ops_)
    ctx.require(eqs, 'try_convert_in_to_join: Equal node not found')
    def builds_qualified_ref(fn_name):
        """a function of the crate (closures and callees included) that constructs Expression::ColumnRef with table = Some(..)"""
        for g2 in prog.fns.values():
            if g2.unit == 'vibesql_executor' and (g2.nice.endswith('::' + fn_name) or ('::' + fn_name + '::') in g2.nice):
                sy2 = Sym(g2)
                for b2 in g2.blocks:
                    for st2 in b2['s']:
                        if 'd' in st2 and st2['v']['r'] == 'agg' and str(st2['v'].get('adt', '')).endswith('::Expression') and st2['v'].get('variant') == 'ColumnRef':
                            if sy2.op(st2['v']['ops'][0]).startswith('Some('):
                                return True
        return False
    for ops_ in eqs:
        outer_ok = 'from@Table' in ops_[1] and ('ColumnRef(Some(' in ops_[1] or
                                                any(builds_qualified_ref(nm) for nm in re.findall(r'([a-z_][a-z_0-9]*)\(', ops_[1])
                                                    if nm not in ('new', 'phi', 'branch', 'unwrap_or', 'unwrap_or_else', 'clone')))
        inner_ok = 'ColumnRef(Some(' in ops_[2] and 'subquery.from' in ops_[2]
        ctx.instance('R6/try_convert_in_to_join', {'rule': 'C05.R6', 'outer_operand_qualified': outer_ok, 'inner_operand_qualified': inner_ok})
        if not (outer_ok and inner_ok):
            ctx.finding('R6/in-join-condition', 'try_convert_in_to_join builds the join condition from unqualified column references: with the same column name on both sides '
                        '(k IN (SELECT k FROM u)) the condition compares a column with itself and every row qualifies', g.loc)


_run_main = run


def run(ctx):
    _run_main(ctx)
    _rewrite_cut_rule(ctx)
    _join_conversion_cut_rule(ctx)
    _hash_key_type_rule(ctx)


def _rewrite_cut_rule(ctx):
    from ..engine.cfg import op_const
    prog = ctx.prog
    ctx.rule('C05.R7', 'optimizer::subquery_rewrite: blocks that assign true to a .distinct field, call rewrite_in_to_exists, or build the Some(..) answer of rewrite_exists_to_in are '
             'decided by limit == None and offset == None of `subquery`')
    sites = []
    for f in prog.fns.values():
        if f.unit != 'vibesql_executor' or shared.is_test(f) or '::optimizer::subquery_rewrite::' not in f.nice:
            continue
        s = Sym(f)
        for bi, b in enumerate(f.blocks):
            if b['t'].get('cleanup'):
                continue
            for st in b['s']:
                if 'd' in st and st['d'][1] and st['d'][1][-1] == '.distinct' and st['v']['r'] == 'use' and op_const(st['v']['a']) in (True, 1):
                    sites.append((f, bi, 'distinct = true', st['l'], s))
                if 'd' in st and st['d'][0] == 0 and not st['d'][1] and st['v']['r'] == 'agg' and st['v'].get('variant') == 'Some' and f.nice.endswith('::rewrite_exists_to_in'):
                    sites.append((f, bi, 'Some(..) of rewrite_exists_to_in', st['l'], s))
            t = b['t']
            if t['k'] == 'call' and (callee_name(t) or '').endswith('::rewrite_in_to_exists'):
                sites.append((f, bi, 'rewrite_in_to_exists', t['l'], s))
    ctx.floor('C05.R7 shape-changing rewrite steps', len(sites), 3)
    for f, bi, what, line, s in sites:
        at = shared.stmt_atoms(prog, f, bi, s)
        # a bool local computed from both tests (`has_cut`) decides the step as well
        conds = shared.deciding_conditions(f, bi, s)
        via_flag = any(('limit' in c and 'offset' in c) and v == '0' for c, v in conds)
        # `let has_cut = q.limit.is_some() || q.offset.is_some();` lowers to a flag that is const(true) behind the limit test and
        # is_some(q.offset) otherwise: the flag being false at the site means both tests were false
        g = cfg(f)
        for c, v in conds:
            m = re.match(r'^phi\(const\(1\) \| is_some\((.*)\.offset\)\)$', c)
            if m and v == '0':
                want = f'is_some({m.group(1)}.limit)'
                if any(b2['t']['k'] == 'switch' and shared.switch_condition(f, b2i, s) == want and g.dominates(b2i, bi) for b2i, b2 in enumerate(f.blocks)):
                    via_flag = True
        ok = {'limit_none', 'offset_none'} <= at or via_flag
        short = f.nice.rsplit('::', 1)[1]
        key = f'R7/{short}/{what.split(" ")[0].split("(")[0]}'
        ctx.instance(key + f'@{line}', {'rule': 'C05.R7', 'fn': f.nice, 'loc': f'{f.file}:{line}', 'step': what, 'decided_by_no_cut': ok, 'atoms': sorted(at)})
        if not ok:
            ctx.finding(key, f'{f.nice}: the rewrite step `{what}` is applied to a subquery without deciding that it has neither LIMIT nor OFFSET: '
                        'x IN (SELECT y FROM b ORDER BY y LIMIT 2) became IN (SELECT DISTINCT y .. LIMIT 2) and matched a second value', f'{f.file}:{line}')


def _join_conversion_cut_rule(ctx):
    prog = ctx.prog
    ctx.rule('C05.R8', 'optimizer::subquery_to_join::try_convert_*_to_join: every Some(..) answer is decided by offset == None of `subquery` and by a test that reads subquery.limit')
    n = 0
    for f in prog.fns.values():
        if f.unit != 'vibesql_executor' or shared.is_test(f) or not re.search(r'optimizer::subquery_to_join::try_convert_\w+_to_join$', f.nice):
            continue
        s = Sym(f)
        somes = []
        for bi, b in enumerate(f.blocks):
            for st in b['s']:
                if 'd' in st and st['d'][0] == 0 and not st['d'][1] and st['v']['r'] == 'agg' and st['v'].get('variant') == 'Some':
                    somes.append((bi, st['l']))
        if not somes:
            continue
        n += 1
        ok = True
        for bi, line in somes:
            at = shared.stmt_atoms(prog, f, bi, s)
            conds = shared.deciding_conditions(f, bi, s)
            limit_read = 'limit_none' in at or any(re.search(r'\bsubquery\.limit\b', c) for c, _v in conds)
            if 'offset_none' not in at or not limit_read:
                ok = False
        short = f.nice.rsplit('::', 1)[1]
        ctx.instance(f'R8/{short}', {'rule': 'C05.R8', 'fn': f.nice, 'loc': f.loc, 'some_answers': len(somes), 'decided_by_offset_none_and_limit_test': ok})
        if not ok:
            ctx.finding(f'R8/{short}', f'{f.nice} converts a subquery into a semi / anti join without deciding that it has no OFFSET (and without looking at its LIMIT): '
                        'WHERE EXISTS (SELECT 1 FROM b WHERE b.y = a.x OFFSET 1) is true for outer rows with a single match', f.loc)
    ctx.floor('C05.R8 subquery-to-join conversions', n, 2)


def _hash_key_type_rule(ctx):
    prog = ctx.prog
    ctx.rule('C05.R9', 'join_analyzer::analyze_single_equi_join: every Some(EquiJoinInfo{..}) answer is decided by a condition that reads the data types of both key columns '
             '(two column_data_type / .data_type reads in one deciding call); analyze_equi_join / analyze_compound_equi_join / analyze_or_equi_join reach no other producer of EquiJoinInfo')
    f = ctx.fn('vibesql_executor::select::join::join_analyzer::analyze_single_equi_join')
    s = Sym(f)
    somes = []
    for bi, b in enumerate(f.blocks):
        for st in b['s']:
            if 'd' in st and st['d'][0] == 0 and not st['d'][1] and st['v']['r'] == 'agg' and st['v'].get('variant') == 'Some':
                somes.append((bi, st['l']))
    ctx.floor('C05.R9 Some(EquiJoinInfo) answers', len(somes), 2)
    ok = True
    for bi, line in somes:
        conds = shared.deciding_conditions(f, bi, s)
        typed = [c for c, v in conds if v != '0' and len(re.findall(r'data_type', c)) >= 2]
        if not typed:
            ok = False
    # no other function builds an EquiJoinInfo
    others = []
    for g_ in prog.fns.values():
        if g_.unit != 'vibesql_executor' or shared.is_test(g_) or g_ is f or g_.trait:      # derived Clone copies an existing one
            continue
        for b in g_.blocks:
            for st in b['s']:
                if 'd' in st and st['v']['r'] == 'agg' and str(st['v'].get('adt', '')).endswith('join_analyzer::EquiJoinInfo'):
                    others.append(g_.nice)
    ctx.instance('R9/analyze_single_equi_join', {'rule': 'C05.R9', 'fn': f.nice, 'loc': f.loc, 'answers': len(somes), 'decided_by_key_column_types': ok,
                                                  'other_producers_of_EquiJoinInfo': sorted(set(others))})
    if not ok:
        ctx.finding('R9/analyze_single_equi_join', 'analyze_single_equi_join answers "hash join on these two columns" without looking at their declared types: a JOIN b ON a.x = b.w '
                    'with x INT and w BIGINT (or FLOAT / NUMERIC) returns no rows, because the hash table tells Integer(1) from Bigint(1), while ON a.x + 0 = b.w + 0 '
                    '(nested loop) matches', f.loc)
    for o in sorted(set(others)):
        ctx.finding(f'R9/other-producer/{o.rsplit("::", 1)[1]}', f'{o} builds an EquiJoinInfo without going through analyze_single_equi_join (the key-column type test is bypassed)',
                    prog.by_nice[o][0].loc)
