"""C31 CLI import/export transfers data faithfully and safely — structural clauses (T7 + T8).

Decides:
 (R1) in SqlExecutor::handle_copy the column validation of the file (validate_csv_columns / validate_json_columns)
      dominates the import that turns the file into INSERT statements;
 (R2) validate_json_columns collects the keys of EVERY object of the array (a loop over the array contains the keys()
      call; no constant-index access to the array), because import_json uses each object's own keys as column list;
 (R2') that loop is left only when the array is exhausted or with an error: no early exit from which the function can still
      report success (a `break` once "enough" keys were seen leaves the remaining objects unvalidated);
 (R3) import_json renders a value by its JSON type: an exhaustive match over serde_json::Value; only the Null arm yields
      the unquoted NULL; the String arm doubles the quote and is wrapped in quotes; no comparison with the text "NULL"
      decides quoting;  import_csv doubles the quote and wraps every field in quotes;
 (R4) CSV alphabet agreement: every character that makes export's escape_csv_value quote a field (and its quote
      character) is a character the import reader tests for, with the separators handled on the not-in-quotes side;
      import_csv and validate_csv_columns read records through that reader (not lines()/split(','));
 (R5) the exported cell text is the value's text: the rows handed to export are not rendered with Debug formatting and
      the header carries column names (not a constant).
 (R6) the CSV reader's per-field flags are reset at every field terminator: on each path from a separator test (',' / CR /
      LF on the not-in-quotes side) back to the loop head, every flag that the loop sets to true is either assigned
      false or known false from the branch condition (a flag that survives the end of a record changes how the first
      field of the next record is read);
 (R7) the set of unquoted (numeric / boolean) columns handed to import_csv is keyed like it is looked up: the closure that
      builds the set applies the same case normaliser to the column name as the `contains` test in import_csv.
Does NOT decide that INSERT coercion reproduces each value, nor file-system behaviour."""
import re
from ..engine.facts import callee_name
from ..engine.cfg import cfg, defs_of, op_const, op_place, op_local, resolve_const, str_const, string_literals
from ..engine.symexpr import Sym
from ..engine.tables import enum_switches, switch_arm_regions
from ..engine.fmt import format_sites
from ..engine.linear import Encoder
from .C30 import char_tests

UNITS = {'vibesql_cli'}
CLI = 'vibesql_cli::'


def _doubles_quote(prog, f, blocks=None):
    defs = defs_of(f)
    for i, t in f.calls():
        if blocks is not None and i not in blocks:
            continue
        if (callee_name(t) or '').endswith('::replace') or '::replace<' in (callee_name(t) or ''):
            a = [resolve_const(f, defs, x) for x in t['args'][1:3]]
            vals = []
            for c in a:
                if c is None:
                    vals.append(None)
                elif c.get('t') == 'char':
                    vals.append(chr(c['v']))
                else:
                    vals.append(str_const(c))
            if vals == ["'", "''"]:
                return True
    return False


def run(ctx):
    prog = ctx.prog
    hc = [f for f in prog.fns.values() if f.unit == 'vibesql_cli' and f.nice.endswith('::handle_copy') and not f.is_closure()]
    ctx.require(len(hc) == 1, 'SqlExecutor::handle_copy not found')
    hc = hc[0]
    g = cfg(hc)
    # ------------------------------------------------------------------ R1
    ctx.rule('C31.R1', 'handle_copy: validate_csv_columns dominates DataIO::import_csv and validate_json_columns dominates DataIO::import_json; '
             'validate_table_name dominates both')
    def blocks_of(suffix):
        return [i for i, t in hc.calls() if (callee_name(t) or '').endswith(suffix)]
    for val, imp in (('validation::validate_csv_columns', 'DataIO::import_csv'), ('validation::validate_json_columns', 'DataIO::import_json')):
        vb, ib = blocks_of(val), blocks_of(imp)
        ctx.instance(f'R1/{imp}', {'rule': 'C31.R1', 'validator_calls': len(vb), 'import_calls': len(ib)})
        ctx.require(ib, f'handle_copy: {imp} call not found')
        if not vb or not all(any(g.dominates(v, i) for v in vb) for i in ib):
            ctx.finding(f'R1/{imp}', f'handle_copy: {imp.split("::")[1]} runs on a path where {val.split("::")[1]} has not checked the file\'s column '
                        'names: header / key text reaches the INSERT statement unchecked', hc.loc)
    tb = blocks_of('validation::validate_table_name')
    firsts = blocks_of('DataIO::import_csv') + blocks_of('DataIO::import_json')
    if not tb or not all(any(g.dominates(v, i) for v in tb) for i in firsts):
        ctx.finding('R1/table-name', 'handle_copy: the table name is interpolated into statements without validate_table_name before it', hc.loc)

    # ------------------------------------------------------------------ R2
    ctx.rule('C31.R2', 'validate_json_columns: keys() is called inside a loop that ranges over the parsed array; the array is never accessed '
             'with a constant index')
    vj = ctx.fn(CLI + 'executor::validation::validate_json_columns')
    s = Sym(vj)
    enc = Encoder(prog, vj)
    loop_of = enc.loop_of_block()
    keys_calls = [(i, t) for i, t in vj.calls() if re.search(r'::keys(<|$)', callee_name(t) or '')]
    in_loop = bool(keys_calls)
    for i, t in keys_calls:
        recv = s.op(t['args'][0])
        # the object whose keys are read is the element of an iteration (next(into_iter(<array>))), on a loop
        if not (recv.startswith('next(') and loop_of.get(i) is not None):
            in_loop = False
    const_idx = []
    for i, t in vj.calls():
        cn = callee_name(t) or ''
        if re.search(r'::index(<|$)', cn) and len(t['args']) >= 2:
            if isinstance(op_const(t['args'][1]), int) and 'from_str' in s.op(t['args'][0]):
                const_idx.append(t['l'])
    ctx.instance('R2/validate_json_columns', {'rule': 'C31.R2', 'keys_calls': len(keys_calls), 'keys_inside_loop_over_array': in_loop,
                                              'constant_index_accesses': const_idx})
    ctx.require(keys_calls, 'validate_json_columns: keys() call not found')
    if not in_loop or const_idx:
        ctx.finding('R2/first-object-only', 'validate_json_columns looks at a fixed element of the array (not at every object), but import_json '
                    'builds the column list of each INSERT from that object\'s own keys: a later object can carry SQL text in a key', vj.loc)

    # R2': no early successful exit from the key-collecting loop
    from ..engine.paths import loop_headers, ok_exit_reachable
    from . import shared
    gv = cfg(vj)
    lhv = loop_headers(vj)
    nloops = 0
    for h, (sw, none_t) in lhv.items():
        body = shared._body(enc, h)
        if not any(i in body for i, _t in keys_calls):
            continue
        if loop_of.get(keys_calls[0][0]) is None:
            continue
        # only the loop(s) ranging over the array itself (the inner loop ranges over one object's keys)
        root = s.op(vj.blocks[h]['t']['args'][0])
        if 'keys(' in root:
            continue
        nloops += 1
        early = []
        for b in body:
            tb = vj.blocks[b]['t']
            if tb['k'] not in ('switch', 'goto'):
                continue
            for x in gv.succ[b]:
                if x in body or x == none_t or vj.blocks[x]['t'].get('cleanup') or vj.blocks[x]['t']['k'] in ('unreachable', 'resume'):
                    continue
                if ok_exit_reachable(vj, [x], set()) is not None:
                    early.append(f'{vj.file}:{tb["l"]}')
        ctx.instance(f'R2/loop@{nloops}', {'rule': 'C31.R2', 'array_loop': root[:80], 'early_successful_exits': early})
        if early:
            ctx.finding('R2/early-exit', 'validate_json_columns can leave the loop over the array before the last object and still succeed: the keys of '
                        'the remaining objects are not validated, but import_json turns them into column lists', early[0])
    ctx.require(nloops >= 1, 'validate_json_columns: loop over the array not found')

    # ------------------------------------------------------------------ R3
    ctx.rule('C31.R3', 'import_json: exhaustive match on serde_json::Value inside the value renderer; the String arm doubles quotes and formats '
             "inside '...'; no string comparison with \"NULL\" decides quoting; import_csv: quote doubling and '...' template for every field")
    ij = ctx.fn(CLI + 'data_io::DataIO::import_json')
    # serde_json::Value is an external enum: arms are identified by the downcast projection their region reads
    rend = None
    for c in [ij] + prog.children(ij):
        for bi, b in enumerate(c.blocks):
            t = b['t']
            if t['k'] != 'switch':
                continue
            for st in b['s']:
                if 'd' in st and st['v']['r'] == 'discr' and 'serde_json::value::Value' in str(st['v'].get('t')):
                    rend = (c, bi)
    ctx.require(rend is not None, 'import_json: match over serde_json::Value not found')
    c, swb = rend
    gc = cfg(c)
    t = c.blocks[swb]['t']
    targets = [tb for _v, tb in t['targets']] + ([t['else']] if t.get('else') is not None else [])
    reaches = {tb: gc.reach_from([tb], removed={swb}) for tb in targets}
    common = set.intersection(*reaches.values()) if reaches else set()
    arms = {}
    for tb in targets:
        reg = (reaches[tb] - common) | {tb}
        if all(c.blocks[b]['t']['k'] == 'unreachable' for b in reg):
            continue
        variant = None
        for b in reg:
            m = re.search(r"'@(String|Bool|Number|Array|Object)'", repr(c.blocks[b]['s']))
            if m:
                variant = m.group(1); break
        quoted = _doubles_quote(prog, c, reg) and any(x['text'] == "'{}'" for x in format_sites(prog, c) if x['block'] in reg)
        lits = set()
        for b in reg:
            for st in c.blocks[b]['s']:
                if 'd' in st and st['v']['r'] in ('use',):
                    k = str_const(st['v']['a'])
                    if k is not None:
                        lits.add(k)
        arms[tb] = {'variant': variant or ('<no payload: Null>' if tb != t.get('else') else '<other>'), 'quoted': quoted, 'literals': sorted(lits)}
    null_cmp = False
    for c_ in [ij] + prog.children(ij):
        cdefs = defs_of(c_)
        for i, t2 in c_.calls():
            cn = callee_name(t2) or ''
            if 'PartialEq' in cn or cn.endswith('::eq') or cn.endswith('::ne'):
                for a in t2['args']:
                    k = resolve_const(c_, cdefs, a)
                    if k is not None and str_const(k) == 'NULL':
                        null_cmp = True
    ctx.instance('R3/import_json', {'rule': 'C31.R3', 'arms': list(arms.values()), 'text_comparison_with_NULL': null_cmp})
    for tb, a in arms.items():
        if a['quoted']:
            continue
        if a['variant'] in ('Number', 'Bool') or (a['variant'].startswith('<no payload') and a['literals'] == ['NULL']):
            continue
        ctx.finding(f'R3/import_json/unquoted/{a["variant"]}', f'import_json: the {a["variant"]} arm puts file text into the statement without '
                    'quoting and quote doubling', ij.loc)
    if not any(a['variant'] == 'String' and a['quoted'] for a in arms.values()):
        ctx.finding('R3/import_json/string-arm', 'import_json: JSON strings are not rendered as quoted literals with doubled quotes', ij.loc)
    if null_cmp:
        ctx.finding('R3/import_json/null-text', 'import_json decides quoting by comparing the rendered text with "NULL": the JSON string "NULL" '
                    'is imported as SQL NULL', ij.loc)
    ic = ctx.fn(CLI + 'data_io::DataIO::import_csv')
    ok_csv = False
    for c2 in [ic] + prog.children(ic):
        if _doubles_quote(prog, c2) and any(x['text'] == "'{}'" for x in format_sites(prog, c2)):
            ok_csv = True
    # fields written WITHOUT quotes: only on the branch where is_plain_literal(field) holds, and that predicate admits only
    # digits, sign, dot, exponent letters and the words TRUE / FALSE
    from . import shared
    unq_ok = True; unq_sites = 0
    for c2 in [ic] + prog.children(ic):
        if not c2.is_closure():
            continue
        fs2 = [x for x in format_sites(prog, c2) if x['text'] == "'{}'"]
        if not fs2:
            continue
        sy2 = Sym(c2)
        for bi, b in enumerate(c2.blocks):
            t2 = b['t']
            if t2['k'] == 'call' and t2.get('d') and t2['d'][0] == 0 and not t2['d'][1] and (callee_name(t2) or '').endswith('to_string'):
                unq_sites += 1
                conds = shared.deciding_conditions(c2, bi, sy2)
                if not any(cnd.startswith('is_plain_literal(') and v in ('1', 'else:0') for cnd, v in conds):
                    unq_ok = False
    ipl = [f_ for f_ in prog.fns.values() if f_.unit == 'vibesql_cli' and f_.nice.endswith('data_io::is_plain_literal')]
    allowed = set(b'+-.eE')
    pl_chars = set()
    for f_ in ipl:
        for g_ in [f_] + prog.children(f_):
            ct = char_tests(g_)
            pl_chars |= set(ct)
    ctx.instance('R3/import_csv', {'rule': 'C31.R3', 'fields_quoted_and_doubled': ok_csv, 'unquoted_sites': unq_sites,
                                   'unquoted_guarded_by_is_plain_literal': unq_ok, 'is_plain_literal_admits': sorted(chr(c) for c in pl_chars)})
    if not ok_csv:
        ctx.finding('R3/import_csv/quoting', 'import_csv no longer doubles quotes / wraps text fields in quotes', ic.loc)
    if unq_sites and (not unq_ok or not ipl or not pl_chars <= allowed):
        ctx.finding('R3/import_csv/unquoted', 'import_csv writes a field into the statement without quotes on a path that is not guarded by '
                    f'is_plain_literal, or that predicate admits characters beyond digits + - . e E ({sorted(chr(c) for c in pl_chars - allowed)}): '
                    'file text can change the statement', ic.loc)
    for f_ in (ij, ic):
        tm = [x['text'] for x in format_sites(prog, f_) if x['text'] and x['text'].startswith('INSERT INTO')]
        ctx.instance(f'R3/template/{f_.nice.rsplit("::",1)[1]}', {'rule': 'C31.R3', 'templates': tm})
        if tm != ['INSERT INTO {} ({}) VALUES ({});']:
            ctx.finding(f'R3/template/{f_.nice.rsplit("::",1)[1]}', f'{f_.nice}: generated statement template is {tm} (only an INSERT of the values into the '
                        'named table is expected)', f_.loc)

    # ------------------------------------------------------------------ R4
    ctx.rule('C31.R4', 'characters that trigger quoting in escape_csv_value ⊆ characters tested by parse_csv_records; the quote character is '
             'tested; import_csv and validate_csv_columns call parse_csv_records and neither BufRead::lines nor str::split')
    esc = ctx.fn(CLI + 'data_io::escape_csv_value')
    edefs = defs_of(esc)
    trig = set()
    for i, t in esc.calls():
        if re.search(r'::contains(<|$)', callee_name(t) or ''):
            for a in t['args'][1:]:
                k = resolve_const(esc, edefs, a)
                if k is not None and k.get('t') == 'char':
                    trig.add(k['v'])
    ctx.require(trig, 'escape_csv_value: quoting triggers not recognised')
    rd = [f for f in prog.fns.values() if f.unit == 'vibesql_cli' and f.nice.endswith('data_io::parse_csv_records')]
    readers_ok = bool(rd)
    tested = set()
    if rd:
        tested = set(char_tests(rd[0]))
    ctx.instance('R4/alphabet', {'rule': 'C31.R4', 'export_quotes_on': sorted(chr(c) for c in trig), 'reader_tests': sorted(chr(c) for c in tested if c < 128)})
    missing = sorted(chr(c) for c in trig if c not in tested)
    if not rd or missing or 34 not in tested:
        ctx.finding('R4/alphabet', f'the CSV reader does not handle {missing or "quoted fields"}: fields that export_csv writes in quotes are split '
                    'or kept with their quotes on import', (rd[0] if rd else ic).loc)
    for f_ in (ic, ctx.fn(CLI + 'executor::validation::validate_csv_columns')):
        names = {callee_name(t) or '' for g_ in [f_] + prog.children(f_) for _, t in g_.calls()}
        uses_reader = any(n.endswith('data_io::parse_csv_records') for n in names)
        raw = sorted(n for n in names if re.search(r'BufRead::lines|::lines(<|$)|str>::split(<|$)|::split<', n))
        ctx.instance(f'R4/{f_.nice.rsplit("::",1)[1]}', {'rule': 'C31.R4', 'uses_record_reader': uses_reader, 'raw_splitting': raw})
        if not uses_reader or raw:
            ctx.finding(f'R4/{f_.nice.rsplit("::",1)[1]}/raw-split', f'{f_.nice} splits the file on raw line breaks / commas ({raw}) instead of reading RFC 4180 '
                        'records: quoted commas and line breaks break the import', f_.loc)

    # ------------------------------------------------------------------ R6 per-field flags of the CSV reader
    ctx.rule('C31.R6', 'parse_csv_records: on every path from a separator test (comma, CR, LF) back to the loop head each flag that the loop sets '
             'to true is assigned false or is known false from the branch condition')
    rd = ctx.fn(CLI + 'data_io::parse_csv_records')
    grd = cfg(rd)
    lhr = loop_headers(rd)
    ctx.require(len(lhr) == 1, f'parse_csv_records: expected one loop, found {len(lhr)}')
    hdr = list(lhr)[0]
    encr = Encoder(prog, rd)
    bodyr = shared._body(encr, hdr)

    def bool_assigns(val):
        out = {}
        for bi in bodyr:
            for st in rd.blocks[bi]['s']:
                if 'd' in st and not st['d'][1] and st['v']['r'] == 'use' and isinstance(st['v']['a'], dict) and st['v']['a'].get('t') == 'bool' \
                        and st['v']['a'].get('k') == 'i' and st['v']['a'].get('v') == val and st['d'][0] in rd.names:
                    out.setdefault(st['d'][0], set()).add(bi)
        return out
    set_true = bool_assigns(1); set_false = bool_assigns(0)
    ctx.floor('C31.R6 flags of the CSV reader', len(set_true), 2)
    ct = char_tests(rd)
    seps = [(c, sw, tt) for c in (44, 10, 13) for (sw, tt) in ct.get(c, [])]
    ctx.floor('C31.R6 separator tests', len(seps), 3)
    defs_rd = defs_of(rd)
    for c, sw, tt in seps:
        # switches on a flag itself that decide whether the branch runs, with the value on the side of the branch
        known = {}
        for sblk in shared.deciding_switches(rd, tt):
            tsw = rd.blocks[sblk]['t']
            l, _nm = shared.named_root(rd, defs_rd, tsw['on'])
            if l is None:
                continue
            vals = set()
            for v, tb in tsw['targets']:
                if tb == tt or tt in shared._forward_reach(grd, tb):
                    vals.add(int(v))
            if tsw.get('else') is not None and (tsw['else'] == tt or tt in shared._forward_reach(grd, tsw['else'])):
                vals.add('else')
            known[l] = vals
        for fl in sorted(set_true):
            name = rd.names[fl]
            known_false = known.get(fl) == {0}
            reach = grd.reach_from([tt], removed=set_false.get(fl, set()) | {hdr})
            leaks = any(hdr in grd.succ[b] for b in reach)
            ctx.instance(f'R6/{name}/{c}@{sw}', {'rule': 'C31.R6', 'flag': name, 'separator': chr(c), 'known_false_at_branch': known_false, 'reset_on_every_path': not leaks})
            if leaks and not known_false:
                ctx.finding(f'R6/{name}/{ {44: "comma", 10: "LF", 13: "CR"}[c] }', f'parse_csv_records: after the separator {chr(c)!r} the flag {name} can reach the next '
                            'character still set: the next field is read as if the previous one\'s state applied (a quote at the start of the next field '
                            'is taken literally / an empty last line is kept)', f'{rd.file}:{rd.blocks[sw]["t"]["l"]}')

    # ------------------------------------------------------------------ R7 unquoted-column set: insertion key == lookup key
    ctx.rule('C31.R7', 'the column names put into the unquoted-columns set (handle_copy) and the name looked up in it (import_csv) go through the same '
             'case normaliser')
    ic = ctx.fn(CLI + 'data_io::DataIO::import_csv')
    look = []
    for c2 in [ic] + [x for x in prog.fns.values() if x.is_closure() and x.nice.startswith(ic.nice + '::')]:
        s2 = Sym(c2)
        for i, t in c2.calls():
            if re.search(r'HashSet.*::contains', callee_name(t) or '') and 'unquoted_columns' in s2.op(t['args'][0]):
                look.append(s2.op(t['args'][1]))
    ctx.require(look, 'import_csv: lookup in unquoted_columns not found')
    ins = []
    for c2 in [x for x in prog.fns.values() if x.is_closure() and x.nice.startswith(hc.nice + '::')]:
        if c2.locals[0] != 'alloc::string::String' or len(c2.locals) < 3 or 'ColumnSchema' not in c2.locals[2]:
            continue
        s2 = Sym(c2)
        for b in c2.blocks:
            if b['t']['k'] == 'return' and not b['t'].get('cleanup'):
                ins.append(s2.local(0))
    ctx.require(ins, 'handle_copy: closure that maps a column to its name in the unquoted set not found')

    def normaliser(e):
        return tuple(re.findall(r'\b(upper|lower|to_uppercase|to_lowercase|to_ascii_uppercase|to_ascii_lowercase|trim)\(', e))
    ctx.instance('R7/unquoted-set', {'rule': 'C31.R7', 'inserted_as': ins, 'looked_up_as': look})
    if {normaliser(e) for e in ins} != {normaliser(e) for e in look}:
        ctx.finding('R7/unquoted-set', f'the unquoted-columns set is filled with {ins} but queried with {look}: numeric columns whose name is not in the '
                    'other case are quoted (and rejected by INSERT) or the other way round', hc.loc)

    # ------------------------------------------------------------------ R5
    ctx.rule('C31.R5', 'SqlExecutor::execute (producer of the QueryResult that \\copy TO writes) renders cell values without Debug formatting and '
             'fills the header from the query\'s column names')
    exs = [f for f in prog.fns.values() if f.unit == 'vibesql_cli' and re.search(r'executor::.*SqlExecutor.*::execute$', f.nice) and not f.is_closure()]
    ctx.require(len(exs) == 1, 'SqlExecutor::execute not found')
    ex = exs[0]
    dbg = []
    for g_ in [ex] + prog.children(ex):
        for i, t in g_.calls():
            n = callee_name(t) or ''
            if 'fmt::rt::Argument' in n and 'new_debug' in n and 'SqlValue' in (str(t['f'].get('ga') or '') + n):
                dbg.append(f'{g_.file}:{t["l"]}')
    lits = string_literals(prog, ex)
    const_hdr = 'Column' in lits
    ctx.instance('R5/execute', {'rule': 'C31.R5', 'debug_formatted_cells': dbg[:4], 'constant_header': const_hdr})
    if dbg:
        ctx.finding('R5/debug-cells', 'the rows exported by \\copy TO are the Debug renderings of the values (Integer(7), Varchar("a,b")), not '
                    'their text: an exported file can never be imported back as the same data', dbg[0])
    if const_hdr:
        ctx.finding('R5/constant-header', 'the header exported by \\copy TO is the constant "Column" for every column (JSON export collapses all '
                    'columns into one key): the file cannot be matched to the table on import', ex.loc)
