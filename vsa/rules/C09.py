"""C09 UPDATE and DELETE act on exactly the rows their WHERE clause selects — structural clauses.

Decides: (a) the row-selection sites of DELETE and UPDATE use the same per-variant truthiness
table as SELECT's filter and do not turn an evaluation error into "row not selected";
(b) the primary-key fast paths probe the hash index with a value that went through the column's
coercion (the index is keyed by stored SqlValue variants); (c) a fast path that builds a
one-component key does so only under the test that the primary key has exactly one column, and
the DELETE and UPDATE key extractors (two copies of one algorithm) decide under the same
conditions; (d) SET expressions are evaluated against the row as it was before the statement
(the row handed to eval inside the assignment loop is not written in that loop); (e) no call in
the storage/executor mutation layer passes old/new (or similarly paired) arguments swapped.
Does NOT decide expression evaluation itself."""
from ..engine.facts import callee_name, callee_path
from ..engine.tables import enum_switches, switch_arm_regions
from ..engine.callgraph import CallGraph
from ..engine.cfg import cfg
from .truthiness import truthiness_table, SV

UNITS = {'vibesql_executor', 'vibesql_types', 'vibesql_ast', 'vibesql_catalog', 'vibesql_storage'}
EX = 'vibesql_executor::'
REF = EX + 'select::filter::is_truthy_combined'
SELECTORS = {
    'DELETE': EX + 'delete::executor::DeleteExecutor::collect_rows_with_scan',
    'UPDATE': EX + "update::row_selector::RowSelector::<'a>::collect_candidate_rows",
}
PK_PATHS = {
    'DELETE': (EX + 'delete::executor::DeleteExecutor::execute_internal', EX + 'delete::executor::DeleteExecutor::extract_primary_key_lookup'),
    'UPDATE': (EX + "update::row_selector::RowSelector::<'a>::select_rows", EX + "update::row_selector::RowSelector::<'a>::extract_primary_key_lookup"),
}
COERCIONS = ('coerce_value', 'cast_value', 'coerce_to_type', 'cast_to')
RES = 'core::result::Result'


def run(ctx):
    prog = ctx.prog
    cg = CallGraph(prog)
    ref = truthiness_table(prog, ctx.fn(REF))
    ctx.require(ref and ref.get('Boolean') == 'bool', 'reference truthiness table not recognised')
    ctx.rule('C09.a', 'DeleteExecutor::collect_rows_with_scan and RowSelector::collect_candidate_rows classify an evaluated WHERE value '
             'per SqlValue variant exactly as SELECT\'s is_truthy_combined does, and propagate evaluation errors instead of dropping the row')
    for stmt, nm in SELECTORS.items():
        f = ctx.fn(nm)
        t = truthiness_table(prog, f)
        if t is None:
            # the selector may delegate the classification to a shared function (is_truthy_*): take that function's table
            for _i, tt in f.calls():
                cn = callee_name(tt) or ''
                if cn.startswith(EX) and 'truthy' in cn.rsplit('::', 1)[-1]:
                    for g in prog.by_nice.get(cn, []):
                        t = t or truthiness_table(prog, g)
                        delegated = cn
        ctx.require(t is not None, f'{nm}: no match on SqlValue found (row selection no longer recognised)')
        # comparable classes: SELECT raises an error where DML says "false"; both are "not selected" only if SELECT also drops
        diff = {v: (t[v], ref[v]) for v in ref if t[v] != ref[v] and not (t[v] == 'error' and ref[v] == 'error')}
        ctx.instance(f'a/{stmt}', {'rule': 'C09.a', 'fn': nm, 'table': t})
        sel_diff = {v: d for v, d in diff.items() if d[1] in ('nonzero', 'bool')}
        if sel_diff:
            ctx.finding(f'a/{stmt}/truthiness', f'{stmt} selects rows with a different truthiness table than SELECT: '
                        f'{ {v: f"{d[0]} (SELECT: {d[1]})" for v, d in sel_diff.items()} }', f.loc, {'diff': sel_diff})
        # error swallowing: the evaluation result (a Result) is matched with a fall-through arm that selects nothing
        swallowed = False
        for s in enum_switches_result(prog, f):
            if s:
                swallowed = True
        ctx.instance(f'a/{stmt}/errors', {'rule': 'C09.a', 'fn': nm, 'evaluation_errors_swallowed': swallowed})
        if swallowed:
            ctx.finding(f'a/{stmt}/errors-swallowed', f'{stmt}: an error while evaluating the WHERE clause is treated as "row not selected" '
                        f'(SELECT reports the error)', f.loc)

    ctx.rule('C09.b', 'the PRIMARY KEY fast paths of DELETE and UPDATE call a coercion on the WHERE literal before probing '
             'Table::primary_key_index (keys are stored SqlValue variants of the column type)')
    for stmt, (user, extractor) in PK_PATHS.items():
        u = ctx.fn(user); e = ctx.fn(extractor)
        uses_index = any(callee_name(t) == 'vibesql_storage::table::Table::primary_key_index' for _, t in u.calls())
        ctx.require(uses_index, f'{user}: primary-key fast path not found')
        reach = cg.reach([e.path]) | {u.path}
        coerces = False
        for p in reach:
            for _, t in prog.fns[p].calls():
                n = (callee_name(t) or '').rsplit('::', 1)[-1]
                if n in COERCIONS:
                    coerces = True
        ctx.instance(f'b/{stmt}', {'rule': 'C09.b', 'fast_path': user, 'coerces_literal': coerces})
        if not coerces:
            ctx.finding(f'b/{stmt}/pk-literal-not-coerced', f'{stmt}: the primary-key fast path probes the hash index with the raw WHERE literal; '
                        f'a literal of another numeric type (2.0, a BIGINT) misses a key SELECT\'s comparison would match', u.loc)
    extra_rules(ctx)


def extra_rules(ctx):
    import re
    from ..engine.symexpr import Sym
    from ..engine.cfg import defs_of, op_local, op_place
    from ..engine.linear import Encoder
    from . import shared
    prog = ctx.prog
    # ---------------------------------------------------------------- (c) one-component key only for one-column keys; sibling agreement
    ctx.rule('C09.c', 'extract_primary_key_lookup (DELETE and UPDATE copies): every block that builds the lookup key is decided by the test '
             'len(primary key indices) == 1 (a one-component key addresses a one-column key), and both copies decide under the same set of conditions')
    cond_sets = {}
    for stmt, (_user, extractor) in PK_PATHS.items():
        e = ctx.fn(extractor)
        sym = Sym(e)
        blocks = []
        for bi, b in enumerate(e.blocks):
            if b['t'].get('cleanup'):
                continue
            for st in b['s']:
                if 'd' in st and st['v']['r'] == 'agg' and st['v'].get('variant') == 'Some' and st['d'][0] == 0:
                    blocks.append(bi)
            # the key may be the result of a call that yields Option<key> (coercion of the literal mapped into the key vector)
            t = b['t']
            if t['k'] == 'call' and t.get('d') and t['d'][0] == 0 and not t['d'][1] and re.search(r'Option::<T>::(map|and_then)$', callee_name(t) or ''):
                blocks.append(bi)
        ctx.require(blocks, f'{extractor}: no `Some(key)` result found')
        per = []
        for bi in blocks:
            conds = shared.deciding_conditions(e, bi, sym)
            norm = set()
            for (c, v) in conds:
                c2 = re.sub(r'\bself\.schema\b', 'schema', c)
                norm.add((c2, v))
            per.append(norm)
            has_len1 = any(re.search(r'len\(.*get_primary_key_indices\(.*\).*\) Eq const\(1\)', c) and v in ('1', 'else:0') for c, v in norm)
            ctx.instance(f'c/{stmt}/key@{len(per)}', {'rule': 'C09.c', 'fn': extractor, 'single_column_test': has_len1, 'conditions': sorted(c for c, _ in norm)[:12]})
            if not has_len1:
                ctx.finding(f'c/{stmt}/single-column-test', f'{stmt}: extract_primary_key_lookup builds a one-component key without testing that the primary '
                            'key has exactly one column: for a composite key the hash-index probe finds nothing and the statement reports 0 rows '
                            'while SELECT finds the rows', e.loc)
        cond_sets[stmt] = sorted(sorted(x) for x in per)
    if len(cond_sets) == 2 and cond_sets['DELETE'] != cond_sets['UPDATE']:
        ctx.finding('c/sibling-agreement', 'the DELETE and UPDATE copies of extract_primary_key_lookup decide the fast path under different conditions: '
                    'the two statements select different rows for the same WHERE clause', ctx.fn(PK_PATHS['DELETE'][1]).loc,
                    {'DELETE': cond_sets['DELETE'], 'UPDATE': cond_sets['UPDATE']})

    # ---------------------------------------------------------------- (d) SET evaluated on the original row
    ctx.rule('C09.d', 'ValueUpdater::apply_assignments: the row handed to ExpressionEvaluator::eval inside the assignment loop is not a value '
             'written inside that loop (SQL: all SET expressions see the row as it was before the UPDATE)')
    va = ctx.fn(EX + "update::value_updater::ValueUpdater::<'a>::apply_assignments")
    enc = Encoder(prog, va)
    loop_of = enc.loop_of_block()
    defs = defs_of(va)
    sym = Sym(va)
    evals = [(i, t) for i, t in va.calls() if re.search(r'::eval(<|$)', callee_name(t) or '') and 'evaluator' in (callee_name(t) or '').lower()]
    ctx.require(evals, 'apply_assignments: eval call not found')
    for i, t in evals:
        L = loop_of.get(i)
        rl, row = shared.named_root(va, defs, t['args'][-1])
        written = False
        if L is not None and rl is not None:
            body = shared._body(enc, L)
            for b in body:
                tt = va.blocks[b]['t']
                if tt['k'] == 'call' and tt['args']:
                    l0 = op_local(tt['args'][0])
                    for (_b, k, v) in defs.get(l0, []):
                        if k == 'assign' and v['r'] == 'ref' and v.get('mut') and v['p'][0] == rl:
                            written = True
                for st in va.blocks[b]['s']:
                    if 'd' in st and st['d'][0] == rl:
                        written = True
        ctx.instance(f'd/eval@{shared._ordinal(va, i)}', {'rule': 'C09.d', 'row_argument': row, 'written_in_loop': written})
        if written:
            ctx.finding('d/set-sees-earlier-assignments', f'apply_assignments evaluates SET expressions against `{row}`, which is modified inside the '
                        'assignment loop: `SET x = y, y = x` no longer swaps, later expressions see earlier assignments', f'{va.file}:{t["l"]}')

    # ---------------------------------------------------------------- (e) swapped arguments in the mutation layer
    shared.swapped_arguments_rule(ctx, 'C09.e', lambda f: f.nice.startswith('vibesql_storage::table::') or f.nice.startswith('vibesql_storage::database::')
                                  or f.nice.startswith('vibesql_executor::update::') or f.nice.startswith('vibesql_executor::delete::')
                                  or f.nice.startswith('vibesql_executor::insert::'), floor=100)


def enum_switches_result(prog, fn):
    """yield True for every match on a Result<SqlValue, _> in fn whose Err arm neither returns Err nor re-raises"""
    from ..engine.cfg import op_place
    from ..engine.paths import exit_classes, switch_target
    err_blocks, _ = exit_classes(fn)
    g = cfg(fn)
    for bi, b in enumerate(fn.blocks):
        t = b['t']
        if t['k'] != 'switch' or t.get('cleanup'):
            continue
        on = op_place(t['on'])
        if on is None:
            continue
        for s in b['s']:
            if 'd' in s and s['d'][0] == on[0] and s['v']['r'] == 'discr' and s['v']['t'].startswith('core::result::Result<vibesql_types::sql_value::SqlValue'):
                et = switch_target(t, 1)
                # the Err arm "swallows" when the code it alone controls (blocks dominated by its target) never returns Err
                region = {x for x in g.reachable() if g.dominates(et, x)}
                yield not (region & err_blocks)
