"""C30 Python DB-API parameter binding is faithful — structural clauses (T7/T8/T10).

Decides:
 (R1) statement-cache key agreement: in Cursor::execute the text handed to Parser::parse_sql and the key under
      which the parsed statement is put into / looked up in stmt_cache are the same value (so a cached AST can
      only be reused for the text it was parsed from): earlier calls never influence later ones;
 (R2) placeholder scanning is quote-aware: every function of the bindings that compares characters with '?'
      also compares with the quote character, toggles a flag there and tests that flag on the '?' path;
      bind_parameters counts placeholders with such a scanner (not with str::matches);
 (R3) substitute_placeholders has an arm for every SqlValue variant (no wildcard) and its string arm doubles
      the quote character and wraps the text in quotes: values never alter the statement structure;
 (R3') the only characters the string arm rewrites are characters the lexer's string scanner treats specially
      (writer/reader agreement with Lexer::tokenize_string: the quote; there are no backslash escapes);
 (R4) py_to_sqlvalue tests for PyBool before the i64 extraction (Python bool is an int subclass) and extracts i64
      before f64 before String (narrowest first: pyo3's float extraction accepts a Python int);
      sqlvalue_to_py has an arm for every variant.
Does NOT decide pyo3 conversion semantics, special floats, or the values read back."""
import re
from ..engine.facts import callee_name
from ..engine.cfg import cfg, defs_of, op_const, op_place, op_local, resolve_const, str_const
from ..engine.symexpr import Sym
from ..engine.tables import enum_switches, switch_arm_regions
from ..engine.fmt import format_sites
from ..engine.paths import switch_target

UNITS = {'vibesql_py', 'vibesql_types', 'vibesql_parser'}
PY = 'vibesql_py::'
SV = 'vibesql_types::sql_value::SqlValue'


def char_tests(fn):
    """{char code: [(block of the switch, true target)]} for `x == 'c'` tests"""
    out = {}
    for i, b in enumerate(fn.blocks):
        t = b['t']
        if t['k'] != 'switch' or t.get('cleanup'):
            continue
        on = op_place(t['on'])
        if on is None:
            continue
        for s in b['s']:
            if 'd' in s and s['d'][0] == on[0] and s['v']['r'] == 'bin' and s['v']['op'] == 'Eq':
                for k in ('a', 'b'):
                    c = s['v'][k]
                    if isinstance(c, dict) and c.get('t') == 'char' and isinstance(op_const(c), int):
                        tt = switch_target(t, 1)
                        if tt is None:
                            tt = t['else']
                        out.setdefault(op_const(c), []).append((i, tt))
        if t.get('ty') == 'char':
            for v, tb in t['targets']:
                out.setdefault(int(v), []).append((i, tb))
    return out


def run(ctx):
    prog = ctx.prog
    # ------------------------------------------------------------------ R1 cache key agreement
    ctx.rule('C30.R1', 'Cursor::execute: the argument of Parser::parse_sql and the key of stmt_cache.put / stmt_cache.get are the same text '
             '(symbolically the same value after clone/to_string): the cache maps a text to the AST parsed from exactly that text')
    ex = [f for f in prog.fns.values() if f.unit == 'vibesql_py' and not f.is_closure() and re.search(r'cursor::.*Cursor.*::execute$', f.nice)]
    ctx.require(len(ex) == 1, f'Cursor::execute not found ({[f.nice for f in ex]})')
    f = ex[0]
    s = Sym(f)
    parse = [(i, t) for i, t in f.calls() if (callee_name(t) or '').endswith('Parser::parse_sql')]
    puts = [(i, t) for i, t in f.calls() if 'LruCache' in (callee_name(t) or '') and re.search(r'::put(<|$)', callee_name(t) or '')]
    gets = [(i, t) for i, t in f.calls() if 'LruCache' in (callee_name(t) or '') and re.search(r'::get(<|$)', callee_name(t) or '')]

    def norm(e):
        e = re.sub(r'\b(clone|to_string|to_owned|as_str|deref)\(', '(', e)
        while re.search(r'\(\(([^()]*)\)\)', e) or re.match(r'^\((.*)\)$', e):
            e2 = re.sub(r'\(\(([^()]*)\)\)', r'(\1)', e)
            m = re.match(r'^\((.*)\)$', e2)
            if m and _balanced(m.group(1)):
                e2 = m.group(1)
            if e2 == e:
                break
            e = e2
        return e
    ctx.require(len(parse) == 1, 'Cursor::execute: Parser::parse_sql call not found')
    ptxt = norm(s.op(parse[0][1]['args'][0]))
    keys_put = [norm(s.op(t['args'][1])) for _, t in puts if 'stmt_cache' in s.op(t['args'][0])]
    keys_get = [norm(s.op(t['args'][1])) for _, t in gets if 'stmt_cache' in s.op(t['args'][0])]
    ctx.instance('R1/execute', {'rule': 'C30.R1', 'parsed_text': ptxt[:200], 'put_keys': [k[:200] for k in keys_put], 'get_keys': [k[:200] for k in keys_get]})
    ctx.require(keys_put and keys_get, 'Cursor::execute: stmt_cache put/get not found (cache removed or renamed: re-derive R1)')
    for kind, ks in (('put', keys_put), ('get', keys_get)):
        for k in ks:
            if k != ptxt:
                ctx.finding(f'R1/execute/{kind}-key', f'Cursor::execute: the statement parsed from `{ptxt[:80]}` is cached ({kind}) under the key '
                            f'`{k[:80]}`: a later call with the same key text but other parameters runs the statement of the first call',
                            f'{f.file}:{parse[0][1]["l"]}')

    # ------------------------------------------------------------------ R2 quote-aware placeholder scanning
    ctx.rule('C30.R2', "every function of the bindings that tests characters against '?' also tests against the quote character, flips a bool "
             "flag there, and the '?' action is on the flag-is-false branch; bind_parameters does not count placeholders with str::matches")
    scanners = []
    for g in prog.fns.values():
        if g.unit != 'vibesql_py' or g.dk == 'Promoted':
            continue
        ct = char_tests(g)
        if 63 in ct:
            scanners.append((g, ct))
    ctx.floor('C30.R2 functions scanning for ?', len(scanners), 1)
    for g, ct in scanners:
        gg = cfg(g)
        ok = False
        why = "no test for the quote character"
        if 39 in ct:
            # flag toggled in the quote branch
            flags = set()
            for (_b, tt) in ct[39]:
                for b in gg.reach_from([tt]):
                    if not gg.dominates(tt, b):
                        continue
                    for st in g.blocks[b]['s']:
                        if 'd' in st and not st['d'][1] and g.locals[st['d'][0]] == 'bool' and st['v']['r'] == 'un' and st['v'].get('op') == 'Not':
                            flags.add(st['d'][0])
            why = 'the quote branch toggles no flag'
            if flags:
                why = "the '?' branch does not test the in-string flag"
                for (_b, qt) in ct[63]:
                    # a switch on (a copy of) the flag dominated by the '?' true target, or the flag test dominating it
                    for b in gg.reachable():
                        t = g.blocks[b]['t']
                        if t['k'] != 'switch':
                            continue
                        on = op_place(t['on'])
                        src = None
                        for st in g.blocks[b]['s']:
                            if 'd' in st and on and st['d'][0] == on[0] and st['v']['r'] == 'use':
                                src = op_local(st['v']['a'])
                        if src in flags and (gg.dominates(qt, b) or gg.dominates(b, qt)):
                            ok = True
        ctx.instance(f'R2/{g.nice}', {'rule': 'C30.R2', 'fn': g.nice, 'loc': g.loc, 'quote_aware': ok})
        if not ok:
            ctx.finding(f'R2/{g.nice}', f"{g.nice} treats every '?' as a placeholder ({why}): a '?' inside a string literal is counted / replaced", g.loc)
    bp = [g for g in prog.fns.values() if g.unit == 'vibesql_py' and g.nice.endswith('::bind_parameters')]
    ctx.require(len(bp) == 1, 'Cursor::bind_parameters not found')
    names = {callee_name(t) or '' for _, t in bp[0].calls()}
    ctx.instance('R2/bind_parameters', {'rule': 'C30.R2', 'callees': sorted(n for n in names if 'vibesql_py' in n or 'matches' in n)})
    if any(n.endswith('::matches') or '::matches<' in n for n in names):
        ctx.finding('R2/bind_parameters/matches', "bind_parameters counts placeholders with str::matches('?'), which also counts '?' inside string literals", bp[0].loc)

    # ------------------------------------------------------------------ R3 literal table
    ctx.rule('C30.R3', 'substitute_placeholders: match over SqlValue without wildcard, one arm per variant; the Varchar/Character arm replaces the '
             "quote by two quotes and formats the text inside quotes")
    sp = ctx.fn(PY + 'conversions::substitute_placeholders')
    sw = max(enum_switches(prog, sp, SV), key=lambda x: len(x['arms']))
    variants = [v['name'] for v in prog.adt(SV)['variants']]
    missing = [v for v in variants if v not in sw['arms']]
    ctx.instance('R3/arms', {'rule': 'C30.R3', 'variants': len(variants), 'arms': len(sw['arms']), 'wildcard': sw['otherwise'] is not None})
    if missing or sw['otherwise'] is not None:
        ctx.finding('R3/arms', f'substitute_placeholders has no arm of its own for {missing} (wildcard: {sw["otherwise"] is not None})', sp.loc)
    regs = switch_arm_regions(sp, sw)
    sreg = regs.get('Varchar', set()) | regs.get('Character', set())
    defs = defs_of(sp)
    doubled = False
    for i, t in sp.calls():
        if i in sreg and (callee_name(t) or '').endswith('::replace'):
            pat = resolve_const(sp, defs, t['args'][1]); rep = resolve_const(sp, defs, t['args'][2])
            if pat is not None and pat.get('t') == 'char' and pat.get('v') == 39 and rep is not None and str_const(rep) == "''":
                doubled = True
    # writer/reader agreement: every character the string arm rewrites must be one the lexer's string scanner treats specially
    # (the scanner compares with the opening quote only, it has no backslash escapes): rewriting anything else changes the value
    rd = ctx.fn('vibesql_parser::lexer::strings::<impl vibesql_parser::lexer::Lexer>::tokenize_string')
    reader_special = set(char_tests(rd)) | {39}
    for i, t in sp.calls():
        if i in sreg and re.search(r'::(replace|replacen|replace_range)$', callee_name(t) or ''):
            pat = resolve_const(sp, defs, t['args'][1])
            pv = None
            if pat is not None and pat.get('t') == 'char':
                pv = pat.get('v')
            elif pat is not None and str_const(pat) is not None and len(str_const(pat)) == 1:
                pv = ord(str_const(pat))
            ctx.instance(f'R3/rewrite/{pv}', {'rule': 'C30.R3', 'string_arm_rewrites': pv if pv is None else chr(pv), 'lexer_special': sorted(chr(c) for c in reader_special)})
            if pv is None or pv not in reader_special:
                ctx.finding('R3/string-arm/rewrite', f'substitute_placeholders rewrites {("the character " + repr(chr(pv))) if pv is not None else "a pattern"} in string '
                            'parameters, but the lexer\'s string scanner (tokenize_string) does not treat it specially: the value that is stored '
                            'differs from the value that was bound', sp.loc)
    tm = [x['text'] for x in format_sites(prog, sp) if x['block'] in sreg]
    ctx.instance('R3/string-arm', {'rule': 'C30.R3', 'quote_doubled': doubled, 'templates': tm})
    if not doubled or "'{}'" not in tm:
        ctx.finding('R3/string-arm', 'substitute_placeholders no longer doubles the quote character / wraps string parameters in quotes: a string '
                    'parameter can close the literal and change the statement', sp.loc)

    # ------------------------------------------------------------------ R4 conversion order / tables
    ctx.rule('C30.R4', 'py_to_sqlvalue: the PyBool test dominates the i64 extraction; sqlvalue_to_py has an arm for every SqlValue variant')
    p2s = ctx.fn(PY + 'conversions::py_to_sqlvalue')
    g = cfg(p2s)
    isb = [i for i, t in p2s.calls() if 'is_instance_of' in (callee_name(t) or '') and 'PyBool' in (callee_name(t) or '') + str(t['f'].get('ga'))]
    exb = [i for i, t in p2s.calls() if re.search(r'::extract<.*, bool>$', callee_name(t) or '') or (('::extract' in (callee_name(t) or '')) and str(t['f'].get('ga', '')).endswith('bool'))]
    exi = [i for i, t in p2s.calls() if '::extract' in (callee_name(t) or '') and re.search(r'\bi64\b', (callee_name(t) or '') + str(t['f'].get('ga', '')))]
    first_bool = (isb + exb)
    ctx.instance('R4/py_to_sqlvalue', {'rule': 'C30.R4', 'bool_tests': len(first_bool), 'i64_extractions': len(exi)})
    ctx.require(exi, 'py_to_sqlvalue: i64 extraction not found')
    if not first_bool or not all(any(g.dominates(b, i) for b in first_bool) for i in exi):
        ctx.finding('R4/py_to_sqlvalue/bool-after-int', 'py_to_sqlvalue extracts i64 before testing for bool: Python True/False are bound as the '
                    'integers 1/0 (bool is an int subclass)', p2s.loc)
    # narrowest first: pyo3's f64 extraction accepts a Python int, so the i64 extraction has to come before it
    exf = [i for i, t in p2s.calls() if '::extract' in (callee_name(t) or '') and re.search(r'\bf(64|32)\b', (callee_name(t) or '') + str(t['f'].get('ga', '')))]
    exs = [i for i, t in p2s.calls() if '::extract' in (callee_name(t) or '') and re.search(r'string::String\b', (callee_name(t) or '') + str(t['f'].get('ga', '')))]
    ctx.instance('R4/py_to_sqlvalue/order', {'rule': 'C30.R4', 'i64': exi, 'f64': exf, 'String': exs})
    if exf and not all(any(g.dominates(a, b) for a in exi) for b in exf):
        ctx.finding('R4/py_to_sqlvalue/float-before-int', 'py_to_sqlvalue extracts f64 before i64: a Python int is accepted by the float extraction '
                    'and bound as a DOUBLE (3 becomes 3.0, integers above 2^53 lose digits)', p2s.loc)
    if exs and not all(any(g.dominates(a, b) for a in exi + exf) for b in exs):
        ctx.finding('R4/py_to_sqlvalue/string-before-number', 'py_to_sqlvalue extracts String before the numeric types', p2s.loc)
    s2p = ctx.fn(PY + 'conversions::sqlvalue_to_py')
    sw2 = max(enum_switches(prog, s2p, SV), key=lambda x: len(x['arms']))
    miss2 = [v for v in variants if v not in sw2['arms']]
    ctx.instance('R4/sqlvalue_to_py', {'rule': 'C30.R4', 'arms': len(sw2['arms']), 'wildcard': sw2['otherwise'] is not None})
    if miss2 or sw2['otherwise'] is not None:
        ctx.finding('R4/sqlvalue_to_py/arms', f'sqlvalue_to_py has no arm of its own for {miss2}', s2p.loc)


def _balanced(e):
    d = 0
    for c in e:
        if c == '(':
            d += 1
        elif c == ')':
            d -= 1
            if d < 0:
                return False
    return d == 0
