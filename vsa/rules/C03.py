"""C03 Columnar aggregate fast path returns exactly what row execution returns — structural clauses (T8 + T12).

The value-level part of the property (sums, averages, the result type of SUM) is not decidable statically.  Decided are
four necessary conditions whose breach makes the fast path answer differently from the general path:
 (R1) clause coverage of the gate: every clause of SelectStmt that changes the rows of an ungrouped aggregate query is
      either handed to the columnar executor (its value flows into a call made by try_columnar_execution) or declined
      (the `true` of should_use_columnar / the Some of try_columnar_execution is reachable only through the "absent"
      branch of a test on that clause).  A clause that is neither is silently ignored by the fast path
      (HAVING, LIMIT, OFFSET ...);
 (R2) empty input: every return of execute_columnar_aggregate that does not pass through the aggregate computation
      distinguishes COUNT from the other aggregates (a match on AggregateOp whose Count arm builds an Integer):
      COUNT is never NULL;
 (R3) no "unknown pair = Equal": in the comparators of the columnar module (functions matching on the variants of two
      SqlValues) the wildcard region does not assign Ordering::Equal on a path without any value comparison - such a
      default makes `=`/`<=`/`>=`/BETWEEN predicates match every row of an unsupported type pair and makes MIN/MAX keep
      the first value;
 (R5) COUNT(*) counts rows, COUNT(column) counts values: in compute_multiple_aggregates the column-based computation
      (compute_columnar_aggregate) runs only on the "op is not Count" side of a test on the aggregate's op, and the Count
      side reaches the row count; in extract_aggregates a resolved column index is put into AggregateSource::Column only
      on the "op is not Count" side ((Count, Column(_)) is the specification of COUNT(*));
 (R5') the COUNT(*) specification (Count, Column(0)) is emitted only for an empty argument list, `*`, or a column named
      `*`: a construction of AggregateSource::Column(0) that is decided by any other variant of the argument expression
      (a literal: COUNT(NULL) must count nothing) is a finding;
 (R6) the predicate extractors' operator tables: `column op literal` maps each comparison operator to the predicate of the
      same name, `literal op column` to the mirrored one (< <-> >, <= <-> >=, = stays); both extractors, both orientations;
 (R7) the two places where the integer / float SIMD kernels flush a batch (inside the loop when the batch is full, after
      the loop for the rest) treat every AggregateOp alike: the same SIMD helper (sum / min / max / none) per variant;
 (R8) NULLs are not counted: in compute_sum the arm of SqlValue::Null does not reach the increment of the counter that
      decides between "sum" and NULL within the same iteration;
 (R4) MIN/MAX comparator agreement: compute_min / compute_max (and the single-pass variant) order values with the
      row accumulator's comparator (grouping::aggregates::compare_sql_values), not with a comparator of their own.
The NULL clauses of the property are decided under C06 (rule C06.null: the columnar predicate never matches NULL;
C06.exact: the extractor accepts only what it emits a predicate for); the no-wrap clause of columnar SUM under C24.
Does NOT decide numeric results, result types (SUM of integers is a DOUBLE on the fast path) or SIMD kernels."""
import re
from ..engine.facts import callee_name
from ..engine.cfg import cfg, defs_of, op_const, op_local
from ..engine.symexpr import Sym
from ..engine.tables import enum_switches
from ..engine.callgraph import CallGraph
from . import shared

UNITS = {'vibesql_executor', 'vibesql_ast', 'vibesql_types'}
EX = 'vibesql_executor::'
COL = EX + 'select::columnar::'
SV = 'vibesql_types::sql_value::SqlValue'

# clauses that need not be looked at by the gate, with the reason
EXEMPT = {
    'with_clause': 'the CTEs of the statement arrive as cte_results; try_columnar_execution declines when that map is not empty (checked below)',
    'into_table': 'SELECT INTO is executed by its own executor around the SELECT',
    'into_variables': 'procedural SELECT INTO assigns after the SELECT returned its rows',
    'order_by': 'an ungrouped aggregate query yields at most one row: its order is immaterial',
}


def _absent_target(cond, t):
    """target block of the branch on which the tested clause is absent (None when the switch is not a presence test)"""
    def tgt(v):
        for val, tb in t['targets']:
            if int(val) == v:
                return tb
        return t.get('else')
    if cond.startswith('is_some('):
        return tgt(0)
    if cond.startswith('is_none('):
        # true (non-zero) branch: the `else` target when only 0 is listed
        for val, tb in t['targets']:
            if int(val) != 0:
                return tb
        return t.get('else')
    if cond.startswith('discr('):
        return tgt(0)
    return tgt(0)   # a bool field (distinct): absent = false


def run(ctx):
    prog = ctx.prog
    cg = CallGraph(prog)
    # ------------------------------------------------------------------ R1 clause coverage of the gate
    ctx.rule('C03.R1', 'each clause of SelectStmt is handed to the columnar executor by try_columnar_execution, or the fast path is taken only '
             'on the "absent" branch of a test on it (should_use_columnar / try_columnar_execution), or it is exempt with a reason')
    SS = [a for a in prog.adts if a.endswith('::SelectStmt')]
    ctx.require(len(SS) == 1, 'SelectStmt not found')
    clauses = [f['name'] for f in prog.adt(SS[0])['variants'][0]['fields']]
    ctx.floor('C03.R1 clauses of SelectStmt', len(clauses), 13)
    gate = [f for f in prog.find('should_use_columnar') if not f.is_closure()]
    tce = [f for f in prog.find('try_columnar_execution') if not f.is_closure()]
    ctx.require(len(gate) == 1 and len(tce) == 1, 'should_use_columnar / try_columnar_execution not found')
    gate, tce = gate[0], tce[0]

    declined = {}
    # (a) the gate: blocks that return true
    for f, accept_blocks in ((gate, _returns_const(gate, 1)), (tce, _accepting_blocks(tce))):
        ctx.require(accept_blocks, f'{f.nice}: accepting return not found')
        g = cfg(f); s = Sym(f)
        for sb in g.reachable():
            t = f.blocks[sb]['t']
            if t['k'] != 'switch':
                continue
            cond = shared.switch_condition(f, sb, s)
            m = re.findall(r'\bstmt\.([a-z_]+)', cond)
            if not m:
                continue
            ab = _absent_target(cond, t)
            if ab is None:
                continue
            others = [x for x in g.succ[sb] if x != ab]
            # declined: no accepting block is reachable from the "present" side
            reach_present = set()
            for o in others:
                reach_present |= shared._forward_reach(g, o)
            if not (reach_present & set(accept_blocks)):
                for c in m:
                    declined.setdefault(c, []).append(f'{f.nice.rsplit("::", 1)[1]}: {cond[:60]}')
    handled = {}
    st = Sym(tce)
    for i, t in tce.calls():
        cn = callee_name(t) or ''
        if not cn.startswith('vibesql_executor::'):
            continue
        for a in t['args']:
            for c in re.findall(r'\bstmt\.([a-z_]+)', st.op(a)):
                handled.setdefault(c, []).append(cn.rsplit('::', 1)[1])
    # select_list is consumed through an iterator chain (filter_map over the items)
    for i, t in tce.calls():
        for a in t['args']:
            e = st.op(a)
            if 'stmt.select_list' in e and re.search(r'iter\(|into_iter\(', e):
                handled.setdefault('select_list', []).append('iterated')
    # the cte_results exemption is only valid while try_columnar_execution declines on a non-empty map
    cte_test = any('is_empty(cte_results)' in shared.switch_condition(tce, sb, st) for sb in range(len(tce.blocks)) if tce.blocks[sb]['t']['k'] == 'switch')
    ctx.require(cte_test, 'try_columnar_execution no longer tests cte_results.is_empty(): the with_clause exemption does not hold')
    for c in clauses:
        how = 'handled' if c in handled else 'declined' if c in declined else 'exempt' if c in EXEMPT else 'IGNORED'
        ctx.instance(f'R1/{c}', {'rule': 'C03.R1', 'clause': c, 'status': how, 'by': (handled.get(c) or declined.get(c) or [EXEMPT.get(c)])[:2]})
        if how == 'exempt':
            ctx.exempt(f'R1/{c}', EXEMPT[c])
        if how == 'IGNORED':
            ctx.finding(f'R1/{c}', f'the columnar fast path neither executes nor declines SelectStmt.{c}: an ungrouped aggregate query with that clause is '
                        f'answered as if the clause were not there (the general path applies it)', gate.loc)

    # ------------------------------------------------------------------ R2 empty input
    ctx.rule('C03.R2', 'execute_columnar_aggregate: a return that does not pass through compute_multiple_aggregates passes through a match on '
             'AggregateOp whose Count arm builds SqlValue::Integer')
    eca = ctx.fn(COL + 'execute_columnar_aggregate')
    g = cfg(eca)
    comp = [i for i, t in eca.calls() if (callee_name(t) or '').endswith('::compute_multiple_aggregates')]
    ctx.require(comp, 'execute_columnar_aggregate: call of compute_multiple_aggregates not found')
    from ..engine.paths import return_blocks, exit_classes
    err, _ok = exit_classes(eca)
    AO = [a for a in prog.adts if a.endswith('columnar::aggregate::AggregateOp')]
    ctx.require(len(AO) == 1, 'AggregateOp not found')
    count_aware = set()
    for f2 in [eca] + prog.children(eca):
        for sw in enum_switches(prog, f2, AO[0]):
            tb = sw['arms'].get('Count')
            if tb is None:
                continue
            reg = shared._forward_reach(cfg(f2), tb)
            builds_int = any('d' in s_ and s_['v']['r'] == 'agg' and str(s_['v'].get('adt', '')) == SV and s_['v'].get('variant') == 'Integer'
                             for b in reg for s_ in f2.blocks[b]['s'])
            if builds_int:
                count_aware.add(f2.path)
    # blocks of eca that create a closure which is Count-aware, or contain the switch themselves
    aware_blocks = set()
    for bi, b in enumerate(eca.blocks):
        for s_ in b['s']:
            if 'd' in s_ and s_['v']['r'] == 'agg' and s_['v'].get('kind') == 'closure':
                for c in prog.children(eca):
                    if c.path in count_aware and str(s_['v'].get('adt', s_['v'].get('def', ''))) and c.nice.endswith(str(s_['v'].get('name', '###'))):
                        aware_blocks.add(bi)
    if eca.path in count_aware:
        for sw in enum_switches(prog, eca, AO[0]):
            aware_blocks.add(sw['block'])
    # closures: fall back to "a Count-aware closure of this function is created in the block"
    if not aware_blocks:
        sy = Sym(eca)
        for bi, b in enumerate(eca.blocks):
            txt = ' '.join(sy.op(a) for a in (b['t'].get('args') or [])) if b['t']['k'] == 'call' else ''
            for c in prog.children(eca):
                k = re.search(r'closure#(\d+)\}$', c.nice)
                if c.path in count_aware and k and f'closure#{k.group(1)}(' in txt:
                    aware_blocks.add(bi)
    early = g.reach_from([0], removed=set(comp) | aware_blocks | err)
    bad = [r for r in return_blocks(eca) if r in early]
    ctx.instance('R2/execute_columnar_aggregate', {'rule': 'C03.R2', 'count_aware_code': sorted(count_aware), 'returns_bypassing_computation_and_count_arm': len(bad)})
    if bad:
        ctx.finding('R2/empty-input', 'execute_columnar_aggregate can return without computing the aggregates and without distinguishing COUNT '
                    '(the empty-input shortcut answers NULL for every aggregate): SELECT COUNT(*) of an empty table is NULL on the fast path, 0 on the general path',
                    eca.loc)

    # ------------------------------------------------------------------ R3 comparators: unknown pair is not Equal
    ctx.rule('C03.R3', 'comparators of the columnar module (functions with a switch on the variants of SqlValue that produce a core::cmp::Ordering): '
             'from the wildcard target of such a switch no assignment of Ordering::Equal is reachable without passing a value comparison')
    ncmp = 0
    for f in prog.fns.values():
        if f.unit != 'vibesql_executor' or not f.nice.startswith(COL) or shared.is_test(f) or f.dk == 'Promoted':
            continue
        if not any('cmp::Ordering' in ty for ty in f.locals):
            continue
        sws = [sw for sw in enum_switches(prog, f, SV) if sw['otherwise'] is not None]
        if not sws:
            continue
        g = cfg(f)
        eq_blocks = {bi for bi, b in enumerate(f.blocks) for s_ in b['s']
                     if 'd' in s_ and s_['v']['r'] == 'agg' and str(s_['v'].get('adt', '')).endswith('cmp::Ordering') and s_['v'].get('variant') == 'Equal'
                     and not _feeds_unwrap_or(f, bi, s_['d'][0])}
        if not eq_blocks:
            continue
        ncmp += 1
        cmp_blocks = set()
        for bi, b in enumerate(f.blocks):
            t = b['t']
            if t['k'] == 'call' and re.search(r'::(cmp|partial_cmp|total_cmp|eq|ne|lt|le|gt|ge)$', (callee_name(t) or '').split('<')[0] if not (callee_name(t) or '').startswith('<') else re.sub(r'<[^<>]*>$', '', callee_name(t) or '')):
                cmp_blocks.add(bi)
            for s_ in b['s']:
                if 'd' in s_ and s_['v']['r'] == 'bin' and s_['v'].get('op') in ('Lt', 'Le', 'Gt', 'Ge', 'Eq', 'Ne') and 'f' in str(s_['v'].get('ty', 'f')):
                    cmp_blocks.add(bi)
        bad = set()
        for sw in sws:
            reach = g.reach_from([sw['otherwise']], removed=cmp_blocks)
            bad |= (reach & eq_blocks)
        ctx.instance(f'R3/{f.nice}', {'rule': 'C03.R3', 'fn': f.nice, 'equal_defaults_without_comparison': len(bad)})
        if bad:
            ctx.finding(f'R3/{f.nice}', f'{f.nice} answers Ordering::Equal for a pair of SqlValue variants it does not compare: an `=`, `<=`, `>=` or BETWEEN '
                        'predicate on such a pair matches every row (and MIN/MAX keep the first value), where the general path compares or raises a type error',
                        f'{f.file}:{f.blocks[min(bad)]["s"][0].get("l", f.line) if f.blocks[min(bad)]["s"] else f.line}')
    ctx.extra['columnar_comparators_examined'] = ncmp

    # ------------------------------------------------------------------ R4 MIN/MAX comparator agreement
    ctx.rule('C03.R4', 'the MIN/MAX code of the columnar module orders values with grouping::aggregates::compare_sql_values (the comparator of '
             'AggregateAccumulator::accumulate) and with no comparator defined in the columnar module')
    REF = EX + 'select::grouping::aggregates::compare_sql_values'
    acc = [f for f in prog.fns.values() if f.nice.endswith('AggregateAccumulator::accumulate')]
    ctx.require(acc and any((callee_name(t) or '') == REF for _i, t in acc[0].calls()), 'AggregateAccumulator::accumulate no longer uses compare_sql_values')
    mm = [f for f in prog.fns.values() if f.unit == 'vibesql_executor' and not f.is_closure() and not shared.is_test(f)
          and re.search(r'select::columnar::aggregate::compute_(min|max)$', f.nice)]
    ctx.floor('C03.R4 columnar MIN/MAX functions', len(mm), 2)
    def has_own_table(fn_nice):
        """a function of the columnar module that produces an Ordering from a match over SqlValue variants"""
        for g2 in prog.by_nice.get(fn_nice, []):
            if any('cmp::Ordering' in ty for ty in g2.locals) and enum_switches(prog, g2, SV):
                return True
        return False

    def callees_of(f):
        out = set()
        for f2 in [f] + prog.children(f):
            for _i, t in f2.calls():
                out.add(callee_name(t) or '')
        return out
    expr_agg = ctx.fn(COL + 'aggregate::compute_expression_aggregate')
    for f in mm + [expr_agg]:
        direct = callees_of(f)
        helpers = sorted(c for c in direct if c.startswith(COL) and not re.search(r'compute_|eval_simple_expr|ColumnarScan', c) and prog.by_nice.get(c))
        own = [c for c in helpers if has_own_table(c)]
        via = direct | {x for c in helpers for g2 in prog.by_nice.get(c, []) for x in callees_of(g2)}
        uses_ref = REF in via
        ctx.instance(f'R4/{f.nice.rsplit("::", 1)[1]}', {'rule': 'C03.R4', 'fn': f.nice, 'helpers': helpers, 'own_comparison_tables': own, 'uses_row_comparator': uses_ref})
        if own or not uses_ref:
            ctx.finding(f'R4/{f.nice.rsplit("::", 1)[1]}', f'{f.nice} orders MIN/MAX candidates with {own or "something other than compare_sql_values"}: types the private '
                        'comparator does not know (VARCHAR, DATE, TIMESTAMP, BOOLEAN ...) give a different MIN/MAX than the general path', f.loc)

    _count_rule(ctx)
    _count_star_guard(ctx)
    _mirror_tables(ctx)
    _flush_sites(ctx)
    _null_not_counted(ctx)


def _count_rule(ctx):
    prog = ctx.prog
    ctx.rule('C03.R5', '(Count, Column(_)) means COUNT(*): compute_multiple_aggregates calls compute_columnar_aggregate only where `op == Count` is false and '
             'compute_count where it is true; extract_aggregates builds AggregateSource::Column(<resolved index>) only where `op == Count` is false')

    def count_test(f, block, sym):
        """value of the test `op == AggregateOp::Count` on the way to block: '1', '0' or None (not tested)"""
        for cond, val in shared.deciding_conditions(f, block, sym):
            m = re.match(r'^eq\((.*), const\(([^()]*promoted\[\d+\])\)\)$', cond)
            if not m or not re.search(r'\bop\b', m.group(1)):
                continue
            variant = None
            for pf in prog.by_nice.get(m.group(2), []):
                for b in pf.blocks:
                    for st in b['s']:
                        if 'd' in st and st['v']['r'] == 'agg' and str(st['v'].get('adt', '')).endswith('AggregateOp'):
                            variant = st['v'].get('variant')
            if variant == 'Count':
                return '0' if val == '0' else '1'
        return None
    cma = ctx.fn(COL + 'aggregate::compute_multiple_aggregates')
    sy = Sym(cma)
    col_calls = [(i, t) for i, t in cma.calls() if (callee_name(t) or '').endswith('aggregate::compute_columnar_aggregate')]
    cnt_calls = [(i, t) for i, t in cma.calls() if (callee_name(t) or '').endswith('aggregate::compute_count')]
    ctx.require(col_calls, 'compute_multiple_aggregates: call of compute_columnar_aggregate not found')
    ok_a = all(count_test(cma, i, sy) == '0' for i, _t in col_calls) and any(count_test(cma, i, sy) == '1' for i, _t in cnt_calls)
    ctx.instance('R5/compute_multiple_aggregates', {'rule': 'C03.R5', 'column_computation_only_when_not_count': ok_a,
                                                    'tests': {str(i): count_test(cma, i, sy) for i, _t in col_calls + cnt_calls}})
    if not ok_a:
        ctx.finding('R5/compute_multiple_aggregates', 'compute_multiple_aggregates computes a Count specification from the values of a column (column 0 for COUNT(*)): '
                    'COUNT(*) becomes the number of non-NULL values of the first column, and COUNT(column) the number of rows', cma.loc)
    ea = ctx.fn(COL + 'aggregate::extract_aggregates')
    se = Sym(ea)
    bad = []
    nres = 0
    for bi, b in enumerate(ea.blocks):
        for st in b['s']:
            if 'd' in st and st['v']['r'] == 'agg' and str(st['v'].get('adt', '')).endswith('AggregateSource') and st['v'].get('variant') == 'Column':
                arg = se.op(st['v']['ops'][0])
                if arg.startswith('const('):
                    continue
                nres += 1
                if count_test(ea, bi, se) != '0':
                    bad.append(bi)
    ctx.floor('C03.R5 resolved column sources in extract_aggregates', nres, 1)
    ctx.instance('R5/extract_aggregates', {'rule': 'C03.R5', 'resolved_column_sources': nres, 'reachable_with_op_count': len(bad)})
    if bad:
        ctx.finding('R5/extract_aggregates', 'extract_aggregates specifies COUNT(column) as (Count, Column(index)), which is how COUNT(*) is specified: the '
                    'NULLs of the column are counted', f'{ea.file}:{ea.blocks[bad[0]]["s"][0].get("l", ea.line)}')


def _variant_names(prog, adt_suffix):
    a = [x for x in prog.adts if x.endswith(adt_suffix)]
    if len(a) != 1:
        return None, {}
    return a[0], {int(v.get('discr', i)): v['name'] for i, v in enumerate(prog.adt(a[0])['variants'])}


def _count_star_guard(ctx):
    prog = ctx.prog
    ctx.rule("C03.R5'", 'extract_aggregates: AggregateSource::Column(0) (the COUNT(*) specification) is constructed only under is_empty(args) or an argument that is '
             'Expression::Wildcard / Expression::ColumnRef')
    ea = ctx.fn(COL + 'aggregate::extract_aggregates')
    se = Sym(ea)
    _adt, names = _variant_names(prog, 'vibesql_ast::expression::Expression')
    ctx.require(names, 'Expression ADT not found')
    n = 0; bad = []
    for bi, b in enumerate(ea.blocks):
        for st in b['s']:
            if 'd' in st and st['v']['r'] == 'agg' and str(st['v'].get('adt', '')).endswith('AggregateSource') and st['v'].get('variant') == 'Column' \
                    and se.op(st['v']['ops'][0]) == 'const(0)':
                n += 1
                conds = shared.deciding_conditions(ea, bi, se)
                via = set()
                for c, v in conds:
                    if re.match(r'^discr\(.*args.*\)$', c) and 'AggregateFunction.args' in c and not c.endswith('.args)'):
                        for x in v.split('|'):
                            if x.isdigit():
                                via.add(names.get(int(x), x))
                    if c.startswith('is_empty(') and 'args' in c and v != '0':
                        via.add('<no argument>')
                if not via or not via <= {'Wildcard', 'ColumnRef', '<no argument>'}:
                    bad.append((bi, sorted(via)))
                ctx.instance(f"R5'/count-star@{n}", {'rule': "C03.R5'", 'decided_by': sorted(via)})
    ctx.floor("C03.R5' constructions of the COUNT(*) specification", n, 3)
    if bad:
        ctx.finding("R5'/count-star-spec", f'extract_aggregates emits the COUNT(*) specification for an argument of kind {bad[0][1] or "?"}: COUNT(<that>) then counts every '
                    'row (COUNT(NULL) must be 0)', f'{ea.file}:{ea.blocks[bad[0][0]]["s"][0].get("l", ea.line)}')


MIRROR = {'LessThan': 'GreaterThan', 'GreaterThan': 'LessThan', 'LessThanOrEqual': 'GreaterThanOrEqual', 'GreaterThanOrEqual': 'LessThanOrEqual', 'Equal': 'Equal'}


def _mirror_tables(ctx):
    prog = ctx.prog
    ctx.rule('C03.R6', 'predicate extractors of the columnar filter: with the literal on the right the operator maps to the predicate of the same name, with the literal '
             'on the left to the mirrored predicate')
    CP = COL + 'filter::ColumnPredicate'
    _a, ops = _variant_names(prog, 'vibesql_ast::operators::BinaryOperator')
    ctx.require(ops, 'BinaryOperator ADT not found')
    n = 0
    for f in prog.fns.values():
        if f.unit != 'vibesql_executor' or shared.is_test(f) or f.is_closure() or not f.nice.startswith(COL + 'filter::extract_'):
            continue
        s = None
        for bi, b in enumerate(f.blocks):
            for st in b['s']:
                if not ('d' in st and st['v']['r'] == 'agg' and str(st['v'].get('adt', '')) == CP):
                    continue
                s = s or Sym(f)
                var = st['v'].get('variant')
                val = s.op(st['v']['ops'][-1])
                side = 'right' if '.right@Literal' in val else 'left' if '.left@Literal' in val else None
                if side is None or var not in MIRROR:
                    continue
                opn = None
                for c, v in shared.deciding_conditions(f, bi, s):
                    if re.match(r'^discr\(.*BinaryOp\.op\)$', c) and v.isdigit():
                        opn = ops.get(int(v))
                if opn is None:
                    continue
                n += 1
                want = opn if side == 'right' else MIRROR.get(opn)
                ok = var == want
                ctx.instance(f'R6/{f.nice.rsplit("::", 1)[1]}/{side}/{opn}', {'rule': 'C03.R6', 'fn': f.nice, 'literal_on_the': side, 'operator': opn, 'predicate': var, 'ok': ok})
                if not ok:
                    ctx.finding(f'R6/{f.nice.rsplit("::", 1)[1]}/{side}/{opn}', f'{f.nice}: with the literal on the {side} the operator {opn} becomes the predicate {var} (expected '
                                f'{want}): `5 > a` is then evaluated as `a <= 5` on the columnar path', f'{f.file}:{st.get("l", f.line)}')
    ctx.floor('C03.R6 operator table entries', n, 20)


def _flush_sites(ctx):
    prog = ctx.prog
    ctx.rule('C03.R7', 'simd_aggregate_i64 / simd_aggregate_f64: every match over AggregateOp whose arms call the SIMD batch helpers maps each variant to the same helper')
    AO = [a for a in prog.adts if a.endswith('columnar::aggregate::AggregateOp')]
    ctx.require(len(AO) == 1, 'AggregateOp not found')
    n = 0
    for nm in ('simd_aggregate_i64', 'simd_aggregate_f64'):
        f = ctx.fn(COL + 'simd_aggregate::' + nm)
        g = cfg(f)
        tables = []
        for sw in enum_switches(prog, f, AO[0]):
            targets = list(sw['arms'].values()) + ([sw['otherwise']] if sw['otherwise'] is not None else [])
            reaches = {tb: g.reach_from([tb], removed={sw['block']}) for tb in set(targets)}
            common = set.intersection(*reaches.values()) if reaches else set()
            row = {}
            for var, tb in sw['arms'].items():
                reg = (reaches[tb] - common) | {tb}
                hs = sorted({(callee_name(f.blocks[b]['t']) or '').rsplit('::', 1)[1] for b in reg if f.blocks[b]['t']['k'] == 'call'
                             and re.search(r'simd_(sum|min|max)_', callee_name(f.blocks[b]['t']) or '')})
                row[var] = tuple(hs)
            if any(row.values()):
                tables.append((sw['block'], row))
        ctx.floor(f'C03.R7 batch-flush sites in {nm}', len(tables), 2)
        ref = tables[0][1]
        for blk, row in tables[1:]:
            n += 1
            diff = {v: (ref.get(v), row.get(v)) for v in set(ref) | set(row) if ref.get(v) != row.get(v)}
            ctx.instance(f'R7/{nm}@{blk}', {'rule': 'C03.R7', 'fn': f.nice, 'differences': {k: [list(a or ()), list(b or ())] for k, (a, b) in diff.items()}})
            if diff:
                ctx.finding(f'R7/{nm}', f'{f.nice}: the batch-flush sites disagree on {sorted(diff)}: one of them does not accumulate the batch for that aggregate, so the '
                            'values of every full batch (or of the last partial batch) are lost', f'{f.file}:{f.blocks[blk]["t"]["l"]}')


def _null_not_counted(ctx):
    from ..engine.paths import loop_headers
    prog = ctx.prog
    ctx.rule('C03.R8', 'compute_sum: from the SqlValue::Null arm of the value match the increment of `count` is not reachable without passing the loop head')
    f = ctx.fn(COL + 'aggregate::compute_sum')
    g = cfg(f)
    heads = set(loop_headers(f))
    cnt = [l for l, n in f.names.items() if n == 'count']
    ctx.require(len(cnt) == 1, 'compute_sum: counter `count` not found')
    inc_blocks = set()
    for bi, b in enumerate(f.blocks):
        for st in b['s']:
            if 'd' in st and st['v']['r'] in ('checked', 'bin') and 'Add' in str(st['v'].get('op')):
                for k in ('a', 'b'):
                    o = st['v'].get(k)
                    if isinstance(o, dict) and (o.get('m') or o.get('c') or [None])[0] == cnt[0]:
                        inc_blocks.add(bi)
    ctx.require(inc_blocks, 'compute_sum: increment of `count` not found')
    sws = [sw for sw in enum_switches(prog, f, SV) if 'Null' in sw['arms']]
    ctx.floor('C03.R8 matches over the summed value', len(sws), 1)
    for sw in sws:
        reach = g.reach_from([sw['arms']['Null']], removed=heads)
        bad = bool(reach & inc_blocks)
        ctx.instance('R8/compute_sum', {'rule': 'C03.R8', 'null_arm_reaches_the_counter': bad})
        if bad:
            ctx.finding('R8/compute_sum', 'compute_sum counts NULL values as summed values: the SUM of a column that is NULL in every qualifying row is 0.0 instead of NULL', f.loc)


def _returns_const(f, v):
    out = []
    for bi, b in enumerate(f.blocks):
        for s_ in b['s']:
            if 'd' in s_ and s_['d'][0] == 0 and not s_['d'][1] and s_['v']['r'] == 'use' and isinstance(s_['v']['a'], dict) \
                    and s_['v']['a'].get('t') == 'bool' and s_['v']['a'].get('v') == v:
                out.append(bi)
    return out


def _accepting_blocks(f):
    """blocks of try_columnar_execution after which a Some(rows) can be returned: the call of execute_columnar"""
    return [i for i, t in f.calls() if (callee_name(t) or '').endswith('columnar::execute_columnar')]


def _feeds_unwrap_or(f, block, local):
    t = f.blocks[block]['t']
    if t['k'] == 'call' and re.search(r'::unwrap_or$', (callee_name(t) or '')):
        return any(op_local(a) == local for a in t['args'])
    return False
