"""C11 Failed DML statements leave the database unchanged — structural clause (T4).

Decides: in every executor function reachable from the INSERT/UPDATE/DELETE entry points, after a
call that mutates table rows has succeeded, no error return is reachable without first passing the
compensating undo.  Each (function, mutating call, failing origin) on today's tree is triaged:
known finding (demonstrated) or exception (infeasible, with reason); a new triple alarms.
Does NOT decide that a compensation restores the exact prior state."""
from ..engine.callgraph import CallGraph
from ..engine.paths import err_exits_reachable, success_starts, err_origin, loop_headers, switch_target
from ..engine.cfg import cfg
from ..engine.facts import callee_name, callee_path
from ..engine.cfg import defs_of
from . import matrix as M

UNITS = M.EXECUTOR_UNITS
EX = 'vibesql_executor::'

# compensation idiom of the single-row INSERT path: delete the row just inserted (+ index rebuild)
COMPENSATION = {M.T + 'delete_where'}
# firing triggers runs nested statements: their effects are changes of this statement too
TRIGGER_CALLS = {EX + 'trigger_execution::TriggerFirer::' + n for n in
                 ('execute_before_triggers', 'execute_after_triggers', 'execute_before_statement_triggers', 'execute_after_statement_triggers')}

TABLE_LOOKUPS = ('none:' + M.D + 'get_table', 'none:' + M.D + 'get_table_mut',
                 'none:vibesql_catalog::store::tables::<impl vibesql_catalog::store::Catalog>::get_table')

_SAME = ('every iteration assigns the same NULL/default/new key to the same columns of a child row: update_row either '
         'fails on the first row (nothing changed yet) or on none')
# reviewed infeasible triples: (function, mutating callee, origin) -> reason
EXCEPTIONS = {
    (EX + 'delete::integrity::set_null', M.T + 'update_row', 'later-iteration:' + M.T + 'update_row'): _SAME,
    (EX + 'delete::integrity::set_default', M.T + 'update_row', 'later-iteration:' + M.T + 'update_row'): _SAME,
    (EX + 'update::foreign_keys::ForeignKeyValidator::check_no_child_references', M.T + 'update_row', 'later-iteration:' + M.T + 'update_row'): _SAME,
    (M.OPS + 'insert_rows_batch', M.T + 'insert', 'later-iteration:' + M.T + 'insert'):
        'the executor coerces and validates every row of the batch (RowValidator: column count, types, NOT NULL, PK/UNIQUE) before '
        'calling insert_rows_batch; Table::insert re-checks the same conditions, so it cannot fail on a later row after accepting an earlier one',
    (EX + 'insert::execution::execute_insert_internal', M.T + 'delete_where', 'Err:' + EX + 'trigger_execution::TriggerFirer::execute_after_triggers'):
        'this delete_where IS the compensation (it removes the row just inserted); the Err returned after it is the original '
        'AFTER-trigger error being re-thrown once the insert was undone',
}
# mutating callees whose Ok value tells the caller that nothing was changed
NOOP_RESULT = {
    (EX + 'insert::execution::execute_insert_internal', EX + 'insert::bulk_transfer::try_bulk_transfer'):
        ('all', 'try_bulk_transfer returns Ok(None) before touching any table when the fast path does not apply, and the caller '
         'returns immediately on Ok(Some(n)); verified structurally: its only mutating call is its tail call'),
    (EX + 'insert::execution::execute_insert_internal', EX + 'insert::duplicate_key_update::handle_duplicate_key_update'):
        ('same-iteration', 'handle_duplicate_key_update returns Ok(None) when no row conflicted (nothing changed) and the caller '
         '`continue`s on Ok(Some): no error can follow a performed update within the same iteration; later iterations are '
         'still reported'),
}


def run(ctx):
    prog = ctx.prog
    M.check_api_closed(ctx)
    cg = CallGraph(prog)
    entries = M.dml_entries(ctx)
    reach = cg.reach([f.path for fs in entries.values() for f in fs])
    ctx.extra['dml_reachable_functions'] = len(reach)

    ctx.rule('C11.T4', 'for every call to a row-mutating function (Table/Database mutators and their transitive callers, '
             'not counting trigger bodies) in functions reachable from InsertExecutor/UpdateExecutor/DeleteExecutor: from the '
             'success edge of the call no Err return is reachable without passing the compensation (delete of the inserted row); '
             'paths that need the same call to run again are reported once as later-iteration')

    # trigger bodies and stored procedures run nested statements: they are separate statements for this rule
    cut = {f.path for f in prog.fns.values()
           if f.nice.startswith(EX + 'trigger_execution::TriggerFirer::') or f.nice.startswith(EX + 'procedural::')}
    mutating = {f.path for f in prog.fns.values() if f.nice in (M.ROW_MUTATORS | M.DB_INSERT)}
    ctx.floor('row mutator functions present', len(mutating), 9)
    changed = True
    while changed:
        changed = False
        for p, outs in cg.out.items():
            if p not in mutating and p not in cut and outs & mutating:
                mutating.add(p); changed = True
    ctx.extra['mutating_functions'] = len(mutating)

    # structural support for the table-lookup discharge: trigger bodies cannot run DDL
    ts = ctx.fn(EX + 'trigger_execution::TriggerFirer::execute_statement')
    tr = cg.reach([ts.path])
    ddl = sorted({prog.fns[p].nice for p in tr if prog.fns[p].nice in (M.D + 'drop_table', M.D + 'create_table', M.T + 'schema_mut')})
    lookups_dischargeable = not ddl
    ctx.extra['trigger_statements_reach_ddl'] = ddl

    # NOOP_RESULT structural verification: the mutating call of the callee is a tail position call
    for (fn_n, cal_n), (mode, reason) in NOOP_RESULT.items():
        if mode != 'all':
            continue
        cal = ctx.fn(cal_n)
        mcalls = [(i, t) for i, t in cal.calls() if callee_path(t) in mutating]
        ok = len(mcalls) == 1 and mcalls[0][1]['d'][0] == 0 and not mcalls[0][1]['d'][1]
        ctx.require(ok, f'{cal_n}: no longer has its single mutating call in tail position; NOOP_RESULT exception must be re-reviewed')

    nsites = 0
    for p in sorted(reach):
        f = prog.fns[p]
        if f.unit not in ('vibesql_executor', 'vibesql_storage') or M.in_impl_table(f) or p in cut:
            continue
        if f.nice in (M.D + 'undo_change', M.D + 'rollback_to_savepoint'):
            continue      # the undo machinery itself
        calls = [(i, t) for i, t in f.calls() if callee_path(t) in mutating or (callee_name(t) or '') in TRIGGER_CALLS]
        if not calls:
            continue
        comp = {i for i, t in f.calls() if callee_name(t) in COMPENSATION}
        defs = defs_of(f)
        for i, t in calls:
            cn = callee_name(t)
            nsites += 1
            site = f'{f.nice}/{cn}'
            ctx.instance(site, {'rule': 'C11.T4', 'fn': f.nice, 'loc': f'{f.file}:{t["l"]}', 'mutating_call': cn})
            noop = NOOP_RESULT.get((f.nice, cn))
            if noop and noop[0] == 'all':
                ctx.exempt(site, noop[1])
                continue
            rem = (comp - {i}) if cn in (M.DB_INSERT | M.ROW_INSERT) else set()
            starts = success_starts(f, i)
            # class A: the rest of this iteration and everything after the loop (the body of the loops that
            # enclose the call is not entered again); class B: needs another iteration of an enclosing loop
            g = cfg(f)
            dead = set()
            for h, (sw, none_t) in loop_headers(f).items():
                if g.dominates(h, i) and h in g.reach_from([i]):
                    dead.add((sw, switch_target(f.blocks[sw]['t'], 1)))
            errs_a, _ = err_exits_reachable(f, starts, rem, loop_model=True, dead_edges=dead)
            errs_f, _ = err_exits_reachable(f, starts, rem, loop_model=True)
            found = {}
            if noop and noop[0] == 'same-iteration':
                ctx.exempt(site + '/same-iteration', noop[1])
                errs_a = []
            for e in errs_a:
                found.setdefault(err_origin(f, e, defs), f.blocks[e]['t']['l'])
            for e in sorted(set(errs_f) - set(errs_a)):
                found.setdefault('later-iteration:' + err_origin(f, e, defs), f.blocks[e]['t']['l'])
            for org, line in sorted(found.items()):
                key = f'{f.nice}/{cn}/{org}'
                if (org in TABLE_LOOKUPS or org.replace('later-iteration:', '') in TABLE_LOOKUPS) and lookups_dischargeable:
                    ctx.exempt(key, 'lookup of a table the statement already resolved; nothing between can drop it '
                               '(trigger statements reach no DDL: checked)')
                    continue
                if (f.nice, cn, org) in EXCEPTIONS:
                    ctx.exempt(key, EXCEPTIONS[(f.nice, cn, org)])
                    continue
                what = (f'a later iteration can fail in {org.split(":",1)[1]} after an earlier one changed rows' if org.startswith('later-iteration:')
                        else f'error return from {org} (line {line}) is reachable')
                ctx.finding(key, f'{f.nice}: after {cn.rsplit("::",1)[1]} succeeded, {what} with no undo', f'{f.file}:{line}')
    ctx.floor('C11 calls to row-mutating functions in DML-reachable executor code', nsites, 20)
    ctx.assumptions.append('nested statements run by trigger bodies / procedures are separate statements for this rule')
    ctx.assumptions.append('a for-loop entered from outside iterates at least once')
