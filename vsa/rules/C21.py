"""C21 SQL value equality, ordering and hashing are mutually consistent — key agreement (T10).

For SqlValue each of eq / partial_cmp+cmp / hash is reduced, per variant, to a key class read from
the MIR of the arm (which primitive comparison / hashing calls it makes on the payload); a fixed
compatibility relation decides whether equal ⇒ same hash and cmp==Equal ⇔ eq can hold.  The impls
touch payloads only through primitive comparisons, is_nan and to_bits, so the case analysis is
finite and the verdict holds for all values.  For the temporal structs the set of fields each impl
reads (and whether cmp is field-wise or goes through a derived scalar) is compared."""
import collections, re
from ..engine.facts import callee_name
from ..engine.cfg import cfg, op_place, op_const, defs_of, op_local
from ..engine.tables import enum_switches

UNITS = {'vibesql_types'}
SV = 'vibesql_types::sql_value::SqlValue'
INTS = {'i16', 'i32', 'i64', 'u64', 'u32', 'u16', 'i8', 'u8', 'i128', 'u128', 'usize', 'isize'}
FLOATS = {'f32', 'f64'}


def trait_method(ctx, adt, trait, name):
    fs = [f for f in ctx.prog.fns.values() if f.self_adt == adt and f.trait == trait and f.path.endswith('::' + name)
          and not f.is_closure() and f.dk != 'Promoted']
    ctx.require(len(fs) == 1, f'impl {trait} for {adt}: method {name} not found exactly once ({len(fs)})')
    return fs[0]


def region_ops(fn, blocks):
    calls = collections.Counter(); bins = collections.Counter(); consts = []
    for b in blocks:
        blk = fn.blocks[b]
        for s in blk['s']:
            if 'd' not in s:
                continue
            v = s['v']
            if v['r'] == 'bin' and v['op'] in ('Eq', 'Ne', 'Lt', 'Le', 'Gt', 'Ge'):
                bins[(v['op'], v['t'])] += 1
                for k in ('a', 'b'):
                    c = op_const(v[k])
                    if c is not None:
                        consts.append(str(c))
        t = blk['t']
        if t['k'] == 'call':
            calls[(callee_name(t), t['f'].get('ga', ''))] += 1
    return calls, bins, consts


def payload_type(ga):
    return (ga or '').split(',')[0].strip().lstrip('&')


def classify_eq(calls, bins):
    """('prim'|'ieee+nan'|'ieee'|'delegate'|'const', payload type)"""
    eqs = [(n, ga) for (n, ga), c in calls.items() if n and (n.endswith('PartialEq<&B> for &A>::eq') or n.endswith('as core::cmp::PartialEq>::eq'))]
    nan = sum(c for (n, ga), c in calls.items() if n and n.endswith('::is_nan'))
    if not eqs and not bins:
        return ('const', '')
    tys = {payload_type(ga) for n, ga in eqs} | {t for (op, t) in bins}
    if len(tys) != 1:
        return ('unknown', ','.join(sorted(tys)))
    ty = tys.pop()
    if ty in FLOATS:
        return ('ieee+nan' if nan >= 2 else 'ieee', ty)
    if ty in INTS or ty in ('bool', 'alloc::string::String', 'char'):
        return ('prim', ty)
    return ('delegate', ty)


def classify_hash(calls, bins, consts):
    hs = [(n, ga) for (n, ga), c in calls.items() if n and n.endswith('::hash') and 'Hash' in n]
    bits = [n for (n, ga), c in calls.items() if n and n.endswith('::to_bits')]
    nan = [n for (n, ga), c in calls.items() if n and n.endswith('::is_nan')]
    if not hs:
        return ('none', '')
    if bits:
        fl = 'f64' if 'f64' in bits[0] else 'f32'
        zero = any(t in FLOATS for (op, t) in bins) or any(n and n.endswith('PartialEq<&B> for &A>::eq') for (n, ga) in calls)
        k = 'bits' + ('+nan' if nan else '') + ('+zero' if zero else '')
        return (k, fl)
    tys = set()
    for n, ga in hs:
        m = re.search(r'Hash for ([A-Za-z0-9_:]+)>::hash$', n) or re.search(r'^<([^ ]+) as core::hash::Hash>::hash$', n)
        tys.add(m.group(1) if m else n)
    if len(tys) != 1:
        return ('unknown', ','.join(sorted(tys)))
    ty = tys.pop()
    if ty in INTS or ty in ('bool', 'alloc::string::String', 'char'):
        return ('prim', ty)
    return ('delegate', ty)


def classify_pcmp(calls):
    ps = [(n, ga) for (n, ga), c in calls.items() if n and n.endswith('::partial_cmp')]
    if not ps:
        return ('none', '')
    tys = set()
    for n, ga in ps:
        m = re.search(r'PartialOrd for ([A-Za-z0-9_:]+)>::partial_cmp$', n) or re.search(r'^<([^ ]+) as core::cmp::PartialOrd>::partial_cmp$', n)
        tys.add(m.group(1) if m else n)
    if len(tys) != 1:
        return ('unknown', ','.join(sorted(tys)))
    ty = tys.pop()
    if ty in FLOATS:
        return ('ieee', ty)
    if ty in INTS or ty in ('bool', 'alloc::string::String', 'char'):
        return ('prim', ty)
    return ('delegate', ty)


def variant_table(ctx, fn):
    prog = ctx.prog
    sws = enum_switches(prog, fn, SV)
    ctx.require(sws, f'{fn.nice}: no match on SqlValue found')
    main = max(sws, key=lambda s: len(s['arms']))
    g = cfg(fn)
    reaches = {v: g.reach_from([t]) for v, t in main['arms'].items()}
    common = set.intersection(*reaches.values())
    out = {}
    for v, t in main['arms'].items():
        reg = reaches[v] - common
        inner = [s for s in sws if s['block'] in reg and s is not main]
        out[v] = (reg, inner)
    return main, out


def fields_read(prog, fn, adt, seen=None):
    """names of fields of `adt` read in fn, its closures and methods of adt it calls"""
    seen = seen if seen is not None else set()
    if fn.path in seen:
        return set(), False
    seen.add(fn.path)
    out = set(); arith = False
    fs = [fn] + [c for c in prog.children(fn)]
    for f in fs:
        selfl = {i for i, t in enumerate(f.locals) if t.replace('&mut ', '').replace('&', '') == adt}
        for b in f.blocks:
            if b['t'].get('cleanup'):
                continue
            for s in b['s']:
                if 'd' not in s:
                    continue
                v = s['v']
                places = []
                if v['r'] in ('ref',):
                    places.append(v['p'])
                for k in ('a', 'b'):
                    if isinstance(v.get(k), dict):
                        p = op_place(v[k])
                        if p:
                            places.append(p)
                for p in places:
                    proj = [e for e in p[1] if e != '*']
                    if p[0] in selfl and proj and proj[0].startswith('.'):
                        out.add(proj[0][1:])
                if v['r'] == 'bin' and v['op'] in ('Mul', 'MulWithOverflow', 'Add', 'AddWithOverflow', 'Sub', 'SubWithOverflow', 'Div', 'Rem'):
                    arith = True
            t = b['t']
            if t['k'] == 'call':
                cal = prog.resolve(t)
                if cal is not None and cal.self_adt == adt and not cal.trait:
                    o2, a2 = fields_read(prog, cal, adt, seen)
                    out |= o2; arith = arith or a2 or bool(o2)
    return out, arith


def run(ctx):
    prog = ctx.prog
    adt = prog.adt(SV)
    variants = [v['name'] for v in adt['variants']]
    ctx.floor('SqlValue variants', len(variants), 16)

    f_hash = trait_method(ctx, SV, 'core::hash::Hash', 'hash')
    f_eq = trait_method(ctx, SV, 'core::cmp::PartialEq', 'eq')
    f_pc = trait_method(ctx, SV, 'core::cmp::PartialOrd', 'partial_cmp')
    f_cmp = trait_method(ctx, SV, 'core::cmp::Ord', 'cmp')

    ctx.rule('C21.table', 'per SqlValue variant: key class of eq (prim / ieee+nan / delegate / const), of hash (prim / bits[+nan][+zero] / '
             'delegate / none) and of partial_cmp, read from the calls each match arm makes on the payload; compatibility: '
             'prim↔prim, delegate↔delegate(same type), const↔none, ieee+nan↔bits+nan+zero; eq arms pair a variant only with itself')
    mh, th = variant_table(ctx, f_hash)
    me, te = variant_table(ctx, f_eq)
    mp, tp = variant_table(ctx, f_pc)
    if mh['otherwise'] is not None:
        ctx.finding('hash/wildcard', 'Hash for SqlValue has a wildcard arm: a variant is hashed without looking at it', f_hash.loc)
    # the discriminant is hashed first
    names_h = {callee_name(t) for _, t in f_hash.calls()}
    ctx.instance('hash/discriminant')
    if 'core::mem::discriminant' not in names_h:
        ctx.finding('hash/discriminant', 'Hash for SqlValue no longer hashes the discriminant', f_hash.loc)
    table = {}
    for v in variants:
        ctx.require(v in th, f'Hash for SqlValue: no arm for {v}')
        hreg, _ = th[v]
        hcls = classify_hash(*region_ops(f_hash, hreg))
        if v in te:
            ereg, einner = te[v]
            ecls = classify_eq(*region_ops(f_eq, ereg)[:2])
            epairs = sorted({a for s in einner for a in s['arms']})
        else:
            ecls, epairs = ('const', ''), []     # Null is handled before the main dispatch
        if v in tp:
            preg, pinner = tp[v]
            pcls = classify_pcmp(region_ops(f_pc, preg)[0])
            ppairs = sorted({a for s in pinner for a in s['arms']})
        else:
            pcls, ppairs = ('none', ''), []
        table[v] = {'eq': ecls, 'hash': hcls, 'partial_cmp': pcls, 'eq_pairs_with': epairs, 'cmp_pairs_with': ppairs}
        ctx.instance(f'variant/{v}', {'variant': v, **{k: list(x) if isinstance(x, tuple) else x for k, x in table[v].items()}})
        # cross-variant equality / ordering
        if [p for p in epairs if p != v]:
            ctx.finding(f'eq/cross/{v}', f'PartialEq pairs SqlValue::{v} with {epairs} (cross-variant equality; Hash keeps variants apart)', f_eq.loc)
        if [p for p in ppairs if p != v]:
            ctx.finding(f'cmp/cross/{v}', f'PartialOrd pairs SqlValue::{v} with {ppairs}', f_pc.loc)
        # eq <-> hash compatibility
        ok = False
        e, h = ecls[0], hcls[0]
        if e == 'prim' and h == 'prim' and ecls[1] == hcls[1]:
            ok = True
        elif e == 'delegate' and h == 'delegate' and ecls[1] == hcls[1]:
            ok = True
        elif e == 'const' and h == 'none':
            ok = True
        elif e == 'ieee+nan' and h == 'bits+nan+zero' and ecls[1] == hcls[1]:
            ok = True
        if not ok:
            why = ''
            if e == 'ieee+nan' and h == 'bits+nan':
                why = ' (IEEE == treats 0.0 and -0.0 as equal, to_bits does not: equal values hash differently)'
            ctx.finding(f'eq-hash/{v}', f'SqlValue::{v}: eq key {ecls} is not compatible with hash key {hcls}{why}', f_hash.loc)
        # eq <-> partial_cmp: same primitive on the same payload type
        if v != 'Null':
            pe = {'prim': 'prim', 'ieee+nan': 'ieee', 'ieee': 'ieee', 'delegate': 'delegate'}.get(e)
            if pcls[0] != pe or pcls[1] != ecls[1]:
                ctx.finding(f'eq-cmp/{v}', f'SqlValue::{v}: eq key {ecls} vs partial_cmp key {pcls}', f_pc.loc)

    # ---------------------------------------------------------------- Ord::cmp: NaN fallback and type tags
    ctx.rule('C21.cmp', 'Ord::cmp: Null first, then partial_cmp, then a NaN fallback arm for every float variant, then type_tag ordering '
             'whose constants are pairwise distinct and cover every variant')
    names_c = {callee_name(t) for _, t in f_cmp.calls()}
    ctx.instance('cmp/uses-partial_cmp')
    if f_pc.nice not in names_c:
        ctx.finding('cmp/partial_cmp', 'Ord::cmp no longer delegates to partial_cmp', f_cmp.loc)
    CMP_ALLOWED = re.compile(r'(::is_nan$|::type_tag$|<impl core::cmp::Ord for u8>::cmp$|PartialOrd for vibesql_types::sql_value::SqlValue>::partial_cmp$|'
                             r'^core::cmp::Ordering::|^core::option::Option|^core::intrinsics::|::clone$)')
    for n in sorted(names_c - {None}):
        ctx.instance(f'cmp/callee/{n}')
        if not CMP_ALLOWED.search(n):
            ctx.finding(f'cmp/bypass/{re.sub(r"<.*?>", "", n).rsplit("::", 1)[-1]}', f'Ord::cmp compares payloads through `{n}`, bypassing partial_cmp: that comparison '
                        'is not the one eq and hash agree with (e.g. total_cmp separates 0.0 from -0.0 and NaNs by sign, eq does not)', f_cmp.loc)
    sws = enum_switches(prog, f_cmp, SV)
    nan_variants = set()
    for s in sws:
        reg = cfg(f_cmp).reach_from([t for t in s['arms'].values()])
        for v in s['arms']:
            nan_variants.add(v)
    floats = {v for v in variants if table[v]['eq'][0].startswith('ieee')}
    nanc = sum(1 for _, t in f_cmp.calls() if (callee_name(t) or '').endswith('::is_nan'))
    ctx.instance('cmp/nan-fallback', {'float_variants': sorted(floats), 'is_nan_calls': nanc})
    if not floats <= nan_variants or nanc < 2 * 3:
        ctx.finding('cmp/nan-fallback', f'Ord::cmp lacks a NaN fallback for some float variant ({sorted(floats - nan_variants)})', f_cmp.loc)
    tt = [f for f in prog.fns.values() if f.path.startswith(f_cmp.path + '::') and f.path.endswith('::type_tag')]
    ctx.require(len(tt) == 1, 'Ord::cmp::type_tag not found')
    tt = tt[0]
    tsw = enum_switches(prog, tt, SV)
    ctx.require(tsw, 'type_tag: match on SqlValue not found')
    tsw = max(tsw, key=lambda s: len(s['arms']))
    tags = {}
    for v, tb in tsw['arms'].items():
        for s in tt.blocks[tb]['s']:
            if 'd' in s and s['d'][0] == 0 and s['v']['r'] == 'use':
                c = op_const(s['v']['a'])
                if c is not None:
                    tags[v] = c
    ctx.instance('cmp/type_tag', {'tags': tags})
    missing = [v for v in variants if v not in tags]
    if missing and tsw['otherwise'] is not None:
        ctx.finding('cmp/type_tag/wildcard', f'type_tag handles {missing} through a wildcard arm (two variants may share a tag)', tt.loc)
    elif missing:
        ctx.finding('cmp/type_tag/missing', f'type_tag has no constant for {missing}', tt.loc)
    inv = collections.defaultdict(list)
    for v, c in tags.items():
        inv[c].append(v)
    for c, vs in inv.items():
        if len(vs) > 1:
            ctx.finding(f'cmp/type_tag/dup/{"+".join(sorted(vs))}', f'type_tag gives {sorted(vs)} the same tag {c}: cmp==Equal for values of different variants', tt.loc)

    # ---------------------------------------------------------------- temporal structs
    ctx.rule('C21.struct', 'for Date/Time/Timestamp/Interval: eq, hash and cmp read the same set of fields, and cmp compares fields '
             'lexicographically (not through a derived scalar), so cmp==Equal ⇔ eq and eq ⇒ same hash')
    for adt_p in ('vibesql_types::temporal::date::Date', 'vibesql_types::temporal::time::Time',
                  'vibesql_types::temporal::timestamp::Timestamp', 'vibesql_types::temporal::interval::Interval'):
        a = prog.adt(adt_p)
        allf = {f['name'] for f in a['variants'][0]['fields']}
        fe = trait_method(ctx, adt_p, 'core::cmp::PartialEq', 'eq')
        fh = trait_method(ctx, adt_p, 'core::hash::Hash', 'hash')
        fc = trait_method(ctx, adt_p, 'core::cmp::Ord', 'cmp')
        fp = trait_method(ctx, adt_p, 'core::cmp::PartialOrd', 'partial_cmp')
        fe_f = allf if fe.derived else fields_read(prog, fe, adt_p)[0]
        fh_f = allf if fh.derived else fields_read(prog, fh, adt_p)[0]
        fc_f, fc_arith = fields_read(prog, fc, adt_p)
        short = adt_p.rsplit('::', 1)[1]
        ctx.instance(f'struct/{short}', {'type': short, 'eq_fields': sorted(fe_f), 'hash_fields': sorted(fh_f), 'cmp_fields': sorted(fc_f),
                                         'cmp_through_derived_scalar': fc_arith, 'eq_derived': fe.derived, 'hash_derived': fh.derived})
        if not fe.derived and not fh.derived:
            from ..engine.symexpr import Sym
            se = Sym(fe)
            eq_exprs = set()
            for b in fe.blocks:
                for st in b['s']:
                    if 'd' in st and st['v']['r'] == 'bin' and st['v']['op'] in ('Eq', 'Ne'):
                        for k in ('a', 'b'):
                            e = se.op(st['v'][k])
                            if e.startswith('self'):
                                eq_exprs.add(e)
            for i_, t_ in fe.calls():
                if (callee_name(t_) or '').endswith('::eq') or (callee_name(t_) or '').endswith('::ne'):
                    for a_ in t_['args']:
                        e = se.op(a_)
                        if e.startswith('self'):
                            eq_exprs.add(e)
            sh = Sym(fh)
            hash_exprs = set()
            for i_, t_ in fh.calls():
                if 'Hash' in (callee_name(t_) or '') and (callee_name(t_) or '').endswith('::hash') and t_['args']:
                    hash_exprs.add(sh.op(t_['args'][0]))
            ctx.instance(f'struct/{short}/eq-hash-expressions', {'eq_compares': sorted(eq_exprs), 'hash_feeds': sorted(hash_exprs)})
            if eq_exprs and hash_exprs and eq_exprs != hash_exprs:
                ctx.finding(f'struct/{short}/eq-hash-expr', f'{short}: eq compares {sorted(eq_exprs)} but hash feeds {sorted(hash_exprs)}: values that are '
                            'equal through a derived quantity hash differently', fh.loc)
        if fe_f != fh_f:
            ctx.finding(f'struct/{short}/eq-hash', f'{short}: eq reads {sorted(fe_f)} but hash reads {sorted(fh_f)}', fh.loc)
        if fc_f != fe_f:
            ctx.finding(f'struct/{short}/eq-cmp-fields', f'{short}: eq reads {sorted(fe_f)} but cmp reads {sorted(fc_f)}', fc.loc)
        if fc_arith:
            ctx.finding(f'struct/{short}/cmp-derived', f'{short}: cmp orders by a scalar computed from the fields while eq compares the '
                        f'fields themselves: distinct values can compare Equal', fc.loc)
        # partial_cmp must agree with cmp: it calls cmp (or the same helper)
        pc_calls = {callee_name(t) for _, t in fp.calls()}
        c_calls = {callee_name(t) for _, t in fc.calls()} - {None}
        if fc.nice not in pc_calls and not (pc_calls & {n for n in c_calls if n and adt_p in n}):
            ctx.finding(f'struct/{short}/partial_cmp', f'{short}: partial_cmp neither calls cmp nor the helper cmp uses', fp.loc)
