"""C02 Query results do not depend on which secondary indexes exist — structural clauses (T10 + T12).

Decides:
 (R1) key-pipeline agreement on the maintenance side: every key that reaches an index structure
      (BTreeMap of IndexData::InMemory, BTreeIndex of IndexData::DiskBacked) from row values is
      built by a closure whose result is normalize_for_comparison(apply_prefix_truncation(value,
      column.prefix_length)) — the same canonical form at every one of the sites, so a row is
      filed under one key no matter which statement put it there;
 (R2) probe normalisation: in IndexData::range_scan and IndexData::multi_lookup (both backends)
      every probe of the index structure is preceded by normalize_for_comparison on all paths;
 (R3) planner awareness of truncated keys: every function that chooses an index for a WHERE / ORDER BY /
      IN-subquery evaluation reads IndexColumn.prefix_length (a chooser that never looks at it must
      treat a prefix index like a full one: equality probes then miss rows and index order differs
      from value order);
 (R4) order restoration: execute_index_scan sorts the row positions back into table order when the
      index is not used for ORDER BY, and reverses for a DESC request only on the branch that tests it.
 (R5) an UPDATE moves an index entry whenever the whole old key differs from the whole new key: the branch that
      removes/inserts in update_indexes_for_update is decided by a comparison of exactly the two keys it files under;
 (R6) IndexData::multi_lookup / prefix_multi_lookup sort the probe values before probing (callers treat the result
      as being in key order when the index serves ORDER BY);
 (R8) NULL keys and range predicates: an index keeps NULL keys before all values, and `col < x` / `col <= x` is not TRUE
      for NULL.  (a) IndexData::range_scan: every loop that collects row ids from a BTreeMap range whose lower bound can
      be Unbounded contains a skip path decided by the discriminant of a key element (the NULL test); (b) the executor
      takes an index range scan as the whole WHERE clause (need_where_filter = false / !satisfied) only where a test
      of the range's `start` bound says it is present;
 (R9) bounds over a multi-column index are approximations ([v] against keys [v, x]): the executor never takes a scan over a
      multi-column index as the whole WHERE clause - every definition that clears need_where_filter while a WHERE clause
      exists is decided by a test on the number of index columns;
 (R10) index predicates are matched by column NAME: every production caller of cost_based_index_selection /
      execute_index_scan hands them a WHERE expression that went through a function reading the qualifier of column
      references (Expression::ColumnRef.table) - never the statement's raw WHERE clause, whose conjuncts may be about
      another table that has a column of the same name;
 (R7) a bound of a RangePredicate never travels without its inclusiveness flag: every write to .start / .end of an
      existing RangePredicate is accompanied, under the same conditions, by a write to .inclusive_start / .inclusive_end.
Does NOT decide bound arithmetic (inclusive/exclusive, increments), NULL keys, cost model."""
import re
from ..engine.facts import callee_name
from ..engine.cfg import cfg, defs_of, op_local
from ..engine.symexpr import Sym
from ..engine.callgraph import CallGraph
from ..engine.paths import Precede, search, switch_target
from . import matrix as M

UNITS = M.EXECUTOR_UNITS
IDX = 'vibesql_storage::database::indexes::'
NORM = IDX + 'value_normalization::normalize_for_comparison'
TRUNC = IDX + 'index_maintenance::apply_prefix_truncation'
BTI = 'vibesql_storage::btree::'
MAINT_SINK_OPS = {'entry', 'get_mut', 'remove', 'insert', 'contains_key', 'get'}
BTREE_KEY_OPS = {'insert', 'delete', 'delete_specific', 'lookup', 'bulk_load'}

SINK_EXC = {
    'vibesql_storage::database::indexes::index_manager::IndexManager::spill_index_to_disk':
        'moves an existing in-memory index to disk: the entries are the keys already stored in the BTreeMap, no key is built from a row',
}
CHOOSER_EXC = {
    'vibesql_executor::select::scan::index_scan::execution::execute_index_scan':
        'executes the index already chosen by selection.rs (index name is an argument); it never picks one',
}


def is_test(f):
    return '/tests' in f.file or '::tests::' in f.nice or f.file.endswith('tests.rs')


def key_builder_rule(ctx, rid='C02.R1'):
    prog = ctx.prog
    # ------------------------------------------------------------------ R1 maintenance key builders
    ctx.rule(rid, 'each key handed to BTreeMap<Vec<SqlValue>,_>::{entry,get,get_mut,remove,insert,contains_key} on IndexData::InMemory.data '
             'or to BTreeIndex::{insert,delete,delete_specific,lookup,bulk_load} inside database::indexes::{index_maintenance,index_manager} '
             'is collected from a closure returning normalize_for_comparison(apply_prefix_truncation(row value, column.prefix_length))')
    builders = {}
    nsinks = 0
    for f in prog.fns.values():
        if f.unit != 'vibesql_storage' or f.is_closure() or is_test(f):
            continue
        if not (f.nice.startswith(IDX + 'index_maintenance::') or f.nice.startswith(IDX + 'index_manager::')):
            continue
        s = Sym(f)
        for i, t in f.calls():
            cn = callee_name(t) or ''
            op = cn.rsplit('::', 1)[-1].split('<')[0]
            key = None
            if 'BTreeMap' in cn and op in MAINT_SINK_OPS and len(t['args']) >= 2:
                recv = s.op(t['args'][0])
                if not recv.endswith('@InMemory.data'):
                    continue
                key = t['args'][1]
            elif cn.startswith(BTI) and 'BTreeIndex' in cn and op in BTREE_KEY_OPS and len(t['args']) >= 2:
                key = t['args'][1]
            if key is None:
                continue
            s.closures = set()
            ks = s.op(key)
            if op == 'bulk_load':
                # sorted entries: the keys are built when the entries are collected; find closures of this fn that build keys
                cls = {c.path for c in prog.children(f) if c.is_closure()}
            else:
                cls = set(s.closures)
            nsinks += 1
            site = f'{f.nice.rsplit("::", 1)[1]}/{op}@{t["l"]}'
            shapes = []
            for cp in sorted(cls):
                c = prog.fns.get(cp)
                if c is None:
                    continue
                names = {callee_name(t2) for _, t2 in c.calls()}
                if NORM not in names and TRUNC not in names and not _reads_row_values(c):
                    continue          # not a key builder (filters, error closures)
                cs = Sym(c)
                ret = cs.local(0)
                shapes.append((c, ret))
                builders[c.path] = (c, ret)
            ctx.instance(f'{rid.split(".")[-1]}/{site}', {'rule': rid, 'fn': f.nice, 'loc': f'{f.file}:{t["l"]}', 'sink': op,
                                        'key': ks[:160], 'builders': [r[:120] for _, r in shapes]})
            if not shapes and f.nice in SINK_EXC:
                ctx.exempt(f'{rid.split(".")[-1]}/{f.nice}/{op}', SINK_EXC[f.nice])
                continue
            if not shapes and 'closure' in ks:
                ctx.finding(f'{rid.split(".")[-1]}/{f.nice}/{op}/no-builder', f'{f.nice}: key for {op} is not built by a recognisable key-builder closure', f'{f.file}:{t["l"]}')
    ctx.floor(f'{rid} index key sinks on the maintenance side', nsinks, 14)
    ctx.floor(f"{rid} key-builder closures", len(builders), 9)
    for cp, (c, ret) in sorted(builders.items()):
        ok = re.match(r'^normalize_for_comparison\(apply_prefix_truncation\(.+, [A-Za-z_0-9.@]*prefix_length\)\)$', ret)
        ctx.instance(f'{rid.split(".")[-1]}/builder/{c.nice}', {'rule': rid, 'closure': c.nice, 'returns': ret[:200]})
        if not ok:
            ctx.finding(f'{rid.split(".")[-1]}/builder/{c.nice}', f'{c.nice}: the index key element is `{ret[:160]}` — not normalize_for_comparison('
                        'apply_prefix_truncation(value, column.prefix_length)) like the other maintenance sites: rows filed by this path are '
                        'not found (or found twice) by the others', c.loc)



def run(ctx):
    prog = ctx.prog

    key_builder_rule(ctx, 'C02.R1')

    # ------------------------------------------------------------------ R2 probe normalisation
    ctx.rule('C02.R2', 'IndexData::range_scan and IndexData::multi_lookup: normalize_for_comparison precedes every probe of the index '
             'structure (BTreeMap::{get,range}, BTreeIndex::{lookup,multi_lookup,range_scan}) on every path')
    cg = CallGraph(prog)
    for short in ('range_scan', 'multi_lookup'):
        fs = [f for f in prog.fns.values() if f.nice.startswith(IDX) and f.nice.endswith('IndexData>::' + short) or
              (f.nice.startswith(IDX) and re.search(r'IndexData>::' + short + '$', f.nice))]
        fs = [f for f in prog.fns.values() if f.unit == 'vibesql_storage' and not f.is_closure() and not is_test(f)
              and f.nice.startswith(IDX) and f.nice.endswith('::' + short) and 'IndexData' in f.nice]
        ctx.require(len(fs) == 1, f'IndexData::{short} not found ({[f.nice for f in fs]})')
        f = fs[0]
        scope = [f] + prog.children(f)

        def is_probe(t, fn):
            cn = callee_name(t) or ''
            op = cn.rsplit('::', 1)[-1].split('<')[0]
            if 'BTreeMap' in cn and op in ('get', 'range'):
                return True
            return cn.startswith(BTI) and 'BTreeIndex' in cn and op in ('lookup', 'multi_lookup', 'range_scan')

        def is_norm(t, fn):
            if callee_name(t) == NORM:
                return True
            # Option::map(normalize_for_comparison) / iter.map(|v| vec![normalize(v)]): the function item or a closure calling it
            ga = (t['f'].get('ga') or '') + ' '.join(str(a) for a in t['args'])
            if 'normalize_for_comparison' in ga:
                return True
            for a in t['args']:
                l = op_local(a)
                ty = fn.locals[l] if l is not None else ''
                if '{closure@' in ty:
                    for c in prog.children(fn):
                        if c.is_closure() and any(callee_name(t2) == NORM for _, t2 in c.calls()) and _closure_matches(c, ty):
                            return True
            return False
        probes = [(i, t) for i, t in f.calls() if is_probe(t, f)]
        ctx.floor(f'C02.R2 probes in IndexData::{short}', len(probes), 2)
        pre = Precede(prog, cg, lambda t, fn, f=f: fn is f and is_probe(t, fn), is_norm, scope, g_summaries=False)
        esc = M.shortest_escapes(pre, lambda fn: True)
        for i, t in probes:
            ctx.instance(f'R2/{short}/{(callee_name(t) or "").rsplit("::",1)[-1]}@{t["l"]}', {'rule': 'C02.R2', 'fn': f.nice, 'loc': f'{f.file}:{t["l"]}'})
        for (ofn, ocal), chain in sorted(esc.items()):
            # an unbounded full scan (None, None) has nothing to normalise
            ctx.finding(f'R2/{short}/{ocal.rsplit("::",1)[-1]}', f'IndexData::{short}: {ocal.rsplit("::",1)[-1]} is reached on a path that does not '
                        'normalise the probe values first: numeric probes of another type than the stored canonical form find nothing', f.loc)

    # ------------------------------------------------------------------ R3 planner awareness of prefix indexes
    ctx.rule('C02.R3', 'every function of the executor (select / evaluator, reachable from the SELECT executor) that obtains IndexMetadata '
             'through Database::get_index in order to choose an index reads IndexColumn.prefix_length')
    GI = M.D + 'get_index'
    nch = 0
    for f in prog.fns.values():
        if f.unit != 'vibesql_executor' or f.is_closure() or is_test(f):
            continue
        if not (f.nice.startswith('vibesql_executor::select::') or f.nice.startswith('vibesql_executor::evaluator::')):
            continue
        if not any(callee_name(t) == GI for _, t in f.calls()):
            continue
        nch += 1
        reads = _reads_field(prog, f, 'prefix_length')
        ctx.instance(f'R3/{f.nice}', {'rule': 'C02.R3', 'fn': f.nice, 'reads_prefix_length': reads})
        if reads:
            continue
        if f.nice in CHOOSER_EXC:
            ctx.exempt(f'R3/{f.nice}', CHOOSER_EXC[f.nice])
            continue
        ctx.finding(f'R3/{f.nice}', f'{f.nice} picks an index without looking at IndexColumn.prefix_length: a prefix index holds truncated keys, '
                    'so equality probes with the full value miss rows and index order is not value order', f.loc)
    ctx.floor('C02.R3 index choosers', nch, 5)

    # ------------------------------------------------------------------ R4 order restoration
    ctx.rule('C02.R4', 'execute_index_scan: when sorted_columns is None the row positions are sorted (table order) before rows are fetched; '
             'the DESC reversal is confined to the branch that tested OrderDirection::Desc')
    f = ctx.fn('vibesql_executor::select::scan::index_scan::execution::execute_index_scan')
    g = cfg(f)
    s = Sym(f)
    tests = [(i, t) for i, t in f.calls() if (callee_name(t) or '').endswith('Option::<T>::is_none') and 'sorted_columns' in s.op(t['args'][0])]
    sorts = [i for i, t in f.calls() if (callee_name(t) or '').rsplit('::', 1)[-1].split('<')[0] in ('sort_unstable', 'sort')]
    fetch = [i for i, t in f.calls() if callee_name(t) == M.T + 'scan']
    ctx.require(len(fetch) == 1, 'execute_index_scan: Table::scan anchor not found')
    ok = False
    for i, t in tests:
        sw = f.blocks[t['to']]['t']
        if sw['k'] != 'switch':
            continue
        tt = switch_target(sw, 1)
        if tt is None:
            tt = sw['else']
        if any(g.dominates(tt, sb) for sb in sorts) and g.dominates(i, fetch[0]):
            # and the fetch cannot be reached from the true branch without the sort
            reached, _ = search(f, [tt], set(sorts), loop_model=False)
            ok = fetch[0] not in reached
    ctx.instance('R4/table-order', {'rule': 'C02.R4', 'is_none_tests': len(tests), 'sort_calls': len(sorts)})
    if not ok:
        ctx.finding('R4/table-order', 'execute_index_scan: rows found through an index that is not used for ORDER BY are no longer put back '
                    'into table order on every path (results then come in index key order)', f.loc)
    revs = [i for i, t in f.calls() if (callee_name(t) or '').rsplit('::', 1)[-1].split('<')[0] == 'reverse']
    eqs = [(i, t) for i, t in f.calls() if 'OrderDirection' in (callee_name(t) or '') and 'PartialEq' in (callee_name(t) or '')]
    from ..engine.cfg import adt_literals
    lits = adt_literals(prog, f, 'OrderDirection')
    ctx.instance('R4/desc-reverse', {'rule': 'C02.R4', 'reverse_calls': len(revs), 'direction_tests': len(eqs), 'literals': sorted(lits)})
    okr = bool(revs) and bool(eqs) and lits == {'Desc'}
    for i, t in eqs:
        sw = f.blocks[t['to']]['t']
        if sw['k'] == 'switch':
            tt = switch_target(sw, 1)
            if tt is None:
                tt = sw['else']
            okr = okr and all(g.dominates(tt, r) for r in revs)
    if not okr:
        ctx.finding('R4/desc-reverse', 'execute_index_scan: the reversal for ORDER BY ... DESC is no longer confined to the branch where the '
                    'requested direction equals OrderDirection::Desc', f.loc)
    extra_rules(ctx)


def extra_rules(ctx):
    from . import shared
    prog = ctx.prog
    # ------------------------------------------------------------------ R5 whole-key comparison on UPDATE
    ctx.rule('C02.R5', 'update_indexes_for_update: every removal/insertion of an index entry is decided by ne(old key, new key) over exactly the '
             'key expressions handed to the removal and to the insertion (not over a part of the key)')
    ufs = [f for f in prog.fns.values() if f.unit == 'vibesql_storage' and not f.is_closure() and f.nice.startswith(IDX + 'index_maintenance::')
           and f.nice.endswith('::update_indexes_for_update')]
    ctx.require(len(ufs) == 1, 'IndexManager::update_indexes_for_update not found')
    f = ufs[0]
    s = Sym(f)
    sinks = []
    for i, t in f.calls():
        cn = callee_name(t) or ''
        op = cn.rsplit('::', 1)[-1].split('<')[0]
        if ('BTreeMap' in cn and op in ('remove', 'entry', 'get_mut', 'insert')) or (cn.startswith(BTI) and 'BTreeIndex' in cn and op in ('insert', 'delete_specific', 'delete')):
            if len(t['args']) >= 2:
                sinks.append((i, op, s.op(t['args'][1])))
    ctx.floor('C02.R5 index sinks in update_indexes_for_update', len(sinks), 4)
    keys = {k for _i, _o, k in sinks if k.startswith('collect(')}
    bad = []
    for i, op, k in sinks:
        if not k.startswith('collect('):
            continue
        conds = shared.deciding_conditions(f, i, s)
        cmp_ok = False
        partial = None
        for (c, v) in conds:
            m = re.match(r'^(ne|eq)\((.*)\)$', c)
            if not m:
                continue
            args = _split_top(m.group(2))
            if len(args) == 2 and set(args) <= keys and args[0] != args[1]:
                cmp_ok = True
            elif len(args) == 2 and any(k2[:40] in a for a in args for k2 in keys):
                partial = c
        ctx.instance(f'R5/{op}@{shared._ordinal(f, i)}', {'rule': 'C02.R5', 'sink': op, 'decided_by_whole_key_comparison': cmp_ok})
        if not cmp_ok:
            bad.append((op, partial))
    if bad:
        ctx.finding('R5/partial-key-comparison', f'update_indexes_for_update decides whether to move the index entry by `{(bad[0][1] or "no comparison of the two keys")[:140]}` '
                    '— not by comparing the whole old key with the whole new key: a change of a later column of a composite index leaves '
                    'the entry under the old key', f.loc)

    # ------------------------------------------------------------------ R6 sorted probes
    ctx.rule('C02.R6', 'IndexData::multi_lookup (both backends) and prefix_multi_lookup: a sort of the probe values dominates every probe / per-value scan')
    for short in ('multi_lookup', 'prefix_multi_lookup'):
        fs = [g_ for g_ in prog.fns.values() if g_.unit == 'vibesql_storage' and not g_.is_closure() and not is_test(g_)
              and g_.nice.startswith(IDX) and g_.nice.endswith('::' + short) and 'IndexData' in g_.nice]
        ctx.require(len(fs) == 1, f'IndexData::{short} not found')
        g_ = fs[0]
        gg = cfg(g_)
        sorts = [i for i, t in g_.calls() if (callee_name(t) or '').rsplit('::', 1)[-1].split('<')[0] in ('sort_by', 'sort', 'sort_unstable', 'sort_unstable_by', 'sort_by_key')]
        probes = [i for i, t in g_.calls() if ('BTreeMap' in (callee_name(t) or '') and (callee_name(t) or '').rsplit('::', 1)[-1].split('<')[0] in ('get', 'range'))
                  or ((callee_name(t) or '').startswith(BTI) and 'BTreeIndex' in (callee_name(t) or ''))
                  or (short == 'prefix_multi_lookup' and (callee_name(t) or '').endswith('::range_scan'))]
        ctx.instance(f'R6/{short}', {'rule': 'C02.R6', 'sorts': len(sorts), 'probes': len(probes)})
        ctx.require(probes, f'IndexData::{short}: probes not found')
        if not all(any(gg.dominates(sb, pb) for sb in sorts) for pb in probes):
            ctx.finding(f'R6/{short}/unsorted-probes', f'IndexData::{short} probes the index in the order of the IN list (no sort of the probe values '
                        'before the lookups): the rows come back in list order, but execute_index_scan reports them as sorted by the index key', g_.loc)

    range_pairing_rule(ctx, 'C02.R7')
    null_key_rule(ctx)
    qualifier_rule(ctx)


def qualifier_rule(ctx):
    prog = ctx.prog
    ctx.rule('C02.R10', 'callers of cost_based_index_selection / execute_index_scan outside the optimizer\'s planning API pass a WHERE argument produced by a function '
             '(or closure) that reads Expression::ColumnRef.table; the raw where_clause parameter is a finding')

    def reads_qualifier(fn, depth=0):
        for b in fn.blocks:
            for st in b['s']:
                r = repr(st)
                if 'ColumnRef' in r and "'.table'" in r:
                    return True
        if depth < 3:
            for _i, t in fn.calls():
                cn = callee_name(t) or ''
                if cn.startswith('vibesql_executor::'):
                    for g in prog.by_nice.get(cn, []):
                        if g.path != fn.path and reads_qualifier(g, depth + 1):
                            return True
            for c in prog.children(fn):
                if reads_qualifier(c, depth + 1):
                    return True
        return False
    n = 0
    for f in prog.fns.values():
        if f.unit != 'vibesql_executor' or f.is_closure() or is_test(f) or 'optimizer::index_planner' in f.nice:
            continue
        s = None
        for i, t in f.calls():
            cn = callee_name(t) or ''
            if cn.endswith('index_scan::selection::cost_based_index_selection') or cn.endswith('index_scan::execution::execute_index_scan') \
                    or cn.endswith('::cost_based_index_selection') or cn.endswith('::execute_index_scan'):
                s = s or Sym(f)
                pos = 1 if cn.endswith('cost_based_index_selection') else 3
                if len(t['args']) <= pos:
                    continue
                w = s.op(t['args'][pos])
                n += 1
                ok = False
                if w not in ('where_clause',):
                    for k in re.findall(r'closure#(\d+)', w):
                        for c in prog.children(f):
                            if c.nice.endswith('{closure#%s}' % k) and reads_qualifier(c):
                                ok = True
                    for name in re.findall(r'([a-z_][a-z_0-9]*)\(', w):
                        for g in prog.fns.values():
                            if g.unit == 'vibesql_executor' and g.nice.endswith('::' + name) and reads_qualifier(g):
                                ok = True
                key = f'R10/{f.nice.rsplit("::", 1)[1]}/{cn.rsplit("::", 1)[1]}'
                ctx.instance(key, {'rule': 'C02.R10', 'fn': f.nice, 'where_argument': w[:90], 'restricted_by_qualifier': ok})
                if not ok:
                    ctx.finding(key, f'{f.nice} hands `{w[:50]}` to {cn.rsplit("::", 1)[1]}: index predicates are matched by column name, so a conjunct about another '
                                'table\'s column of the same name (b.k < 15 against an index on a(k)) is applied to this table\'s index', f'{f.file}:{t["l"]}')
    ctx.floor('C02.R10 callers of the index planner / index scan', n, 2)


def null_key_rule(ctx):
    from ..engine.cfg import cfg, defs_of
    from ..engine.paths import loop_headers
    from ..engine.linear import Encoder
    from . import shared
    prog = ctx.prog
    ctx.rule('C02.R8', '(a) IndexData::range_scan: loops over a BTreeMap range whose lower bound can be Unbounded skip keys on a test of a key element\'s SqlValue '
             'discriminant; (b) execute_index_scan: need_where_filter is cleared / set from the "fully satisfied" answer only under a test of the range\'s start bound')
    SVT = 'vibesql_types::sql_value::SqlValue'
    rs = [f for f in prog.fns.values() if f.unit == 'vibesql_storage' and not f.is_closure() and f.dk != 'Promoted' and not is_test(f)
          and re.search(r'IndexData>::range_scan$', f.nice)]
    ctx.require(len(rs) == 1, 'IndexData::range_scan not found')
    f = rs[0]
    g = cfg(f); s = Sym(f); enc = Encoder(prog, f)
    nloops = 0
    for h, (sw, none_t) in loop_headers(f).items():
        root = s.op(f.blocks[h]['t']['args'][0])
        m = re.search(r'range\(.*?, tuple\((.*)\)\)\)$', root)
        if not m:
            continue
        body = shared._body(enc, h)
        ext = [i for i in body if f.blocks[i]['t']['k'] == 'call' and (callee_name(f.blocks[i]['t']) or '').endswith('::extend')]
        if not ext:
            continue
        first_alt = _split_top(m.group(1))[0]
        if 'Unbounded()' not in first_alt:
            continue        # the lower bound of this loop is always a value (equality prefix scan)
        nloops += 1
        skip = False
        for b in body:
            t = f.blocks[b]['t']
            if t['k'] != 'switch':
                continue
            reads_sv = any('d' in st and st['v']['r'] == 'discr' and SVT in str(st['v'].get('t')) for st in f.blocks[b]['s'])
            if not reads_sv:
                continue
            for x in g.succ[b]:
                # a successor from which the loop head is reached again without passing an extend
                reach = g.reach_from([x], removed=set(ext))
                if h in reach:
                    skip = True
        ctx.instance(f'R8/range_scan/loop@{nloops}', {'rule': 'C02.R8', 'range': root[:100], 'null_keys_skipped': skip})
        if not skip:
            ctx.finding(f'R8/range_scan/loop@{nloops}', 'IndexData::range_scan collects every key of a range without a lower bound: the NULL keys (they sort before all '
                        'values) are returned for `col < x` / `col <= x`, so an index on col adds the NULL rows to the result', f'{f.file}:{f.blocks[h]["t"]["l"]}')
    ctx.floor('C02.R8 range loops with a possibly unbounded start', nloops, 2)

    ex = [x for x in prog.fns.values() if x.unit == 'vibesql_executor' and not x.is_closure() and not is_test(x) and x.nice.endswith('index_scan::execution::execute_index_scan')]
    ctx.require(len(ex) == 1, 'execute_index_scan not found')
    e = ex[0]
    se = Sym(e); ge = cfg(e); de = defs_of(e)
    nwf = [l for l, n in e.names.items() if n == 'need_where_filter']
    ctx.require(len(nwf) == 1, 'execute_index_scan: need_where_filter not found')
    bad = []
    ndefs = 0
    for d in de.get(nwf[0], []):
        blk, kind, v = d[0], d[1], d[2]
        if kind != 'assign':
            continue
        clears = (v['r'] == 'use' and isinstance(v['a'], dict) and v['a'].get('t') == 'bool' and v['a'].get('v') == 0) or (v['r'] == 'un' and v.get('op') == 'Not')
        if not clears:
            continue
        ndefs += 1
        # with a WHERE clause present: the definition must be guarded by a test on the start bound
        conds = shared.deciding_conditions(e, blk, se)
        if any(c == 'discr(where_clause)' and val == '0' for c, val in conds):
            continue                    # no WHERE clause at all
        guarded = False
        for sb in shared.deciding_switches(e, blk):
            l, nm = shared.named_root(e, de, e.blocks[sb]['t']['on'])
            if l is None:
                continue
            for dd in de.get(l, []):
                if dd[1] == 'assign':
                    cs = shared.deciding_conditions(e, dd[0], se)
                    if any(re.search(r'\.start\b', c) for c, _v in cs):
                        guarded = True
        if not guarded:
            bad.append(blk)
    # R9: the same definitions are decided by a test on the width of the index
    bad9 = []
    for d in de.get(nwf[0], []):
        blk, kind, v = d[0], d[1], d[2]
        if kind != 'assign':
            continue
        clears = (v['r'] == 'use' and isinstance(v['a'], dict) and v['a'].get('t') == 'bool' and v['a'].get('v') == 0) or (v['r'] == 'un' and v.get('op') == 'Not')
        if not clears:
            continue
        conds = shared.deciding_conditions(e, blk, se)
        if any(c == 'discr(where_clause)' and val == '0' for c, val in conds):
            continue
        width_tested = False
        for sb in shared.deciding_switches(e, blk):
            c = shared.switch_condition(e, sb, se)
            if re.search(r'len\(.*\.columns\)', c):
                width_tested = True
            l, nm = shared.named_root(e, de, e.blocks[sb]['t']['on'])
            for dd in de.get(l, []) if l is not None else []:
                if dd[1] == 'assign' and re.search(r'len\(.*\.columns\)', se.op(dd[2].get('a', dd[2])) if isinstance(dd[2].get('a'), dict) else ''):
                    width_tested = True
            if nm == 'is_multi_column_index':
                width_tested = True
        if not width_tested:
            bad9.append(blk)
    ctx.instance('R9/execute_index_scan', {'rule': 'C02.R9', 'definitions_that_skip_the_where_clause': ndefs, 'not_decided_by_index_width': len(bad9)})
    if bad9:
        ctx.finding('R9/execute_index_scan/multi-column', 'execute_index_scan can take a scan over a multi-column index as the whole WHERE clause: its one-element bounds are '
                    'approximations for keys [v, x] (index (s, k): WHERE s > \'a\' also returns s = \'a\')', f'{e.file}:{e.blocks[bad9[0]]["t"].get("l", e.line)}')
    ctx.instance('R8/execute_index_scan', {'rule': 'C02.R8', 'definitions_that_skip_the_where_clause': ndefs, 'unguarded': len(bad)})
    ctx.floor('C02.R8 definitions of need_where_filter that can skip the WHERE clause', ndefs, 2)
    if bad:
        ctx.finding('R8/execute_index_scan', 'execute_index_scan takes an index range scan as the whole WHERE clause without looking at the lower bound of the range: for '
                    '`col < x` the scan starts at the NULL keys and the rows with a NULL col are returned', f'{e.file}:{e.blocks[bad[0]]["t"].get("l", e.line)}')


def range_pairing_rule(ctx, rid='C02.R7'):
    from . import shared
    prog = ctx.prog
    # ------------------------------------------------------------------ R7 bound and inclusiveness travel together
    ctx.rule(rid, 'extract_range_predicate: every block that writes .start (.end) of an existing RangePredicate also writes '
             '.inclusive_start (.inclusive_end) of the same value, or is dominated by / dominates a block that does under the same conditions')
    er = ctx.fn('vibesql_executor::select::scan::index_scan::predicate::extract_range_predicate')
    ge = cfg(er)
    writes = {}
    for bi, b in enumerate(er.blocks):
        if b['t'].get('cleanup'):
            continue
        for st in b['s']:
            if 'd' in st and st['d'][1] and st['d'][1][-1] in ('.start', '.end', '.inclusive_start', '.inclusive_end') and 'RangePredicate' in er.locals[st['d'][0]]:
                writes.setdefault((st['d'][0], st['d'][1][-1]), []).append(bi)
        t = b['t']
        if t['k'] == 'call' and t.get('d') and t['d'][1] and t['d'][1][-1] in ('.start', '.end') and 'RangePredicate' in er.locals[t['d'][0]]:
            writes.setdefault((t['d'][0], t['d'][1][-1]), []).append(bi)
    n7 = 0
    sym7 = Sym(er)
    for (loc, fld), blocks in sorted(writes.items()):
        if fld not in ('.start', '.end'):
            continue
        partner = '.inclusive_start' if fld == '.start' else '.inclusive_end'
        for bi in blocks:
            n7 += 1
            c1 = shared.deciding_conditions(er, bi, sym7)
            ok = False
            for pb in writes.get((loc, partner), []):
                if pb == bi or shared.deciding_conditions(er, pb, sym7) == c1:
                    ok = True
            ctx.instance(f'{rid.split(".")[-1]}/{er.names.get(loc, loc)}{fld}@{n7}', {'rule': rid, 'paired_flag_write': ok})
            if not ok:
                ctx.finding(f'{rid.split(".")[-1]}/{fld[1:]}-without-flag', f'extract_range_predicate replaces the {fld[1:]} bound of a merged range without taking over '
                            f'{partner[1:]} under the same conditions: `a < 20 AND a >= 10` scans (10, 20) instead of [10, 20)', f'{er.file}:{er.line}')
    ctx.floor(f'{rid} bound writes on existing RangePredicate values', n7, 2)




def _split_top(e):
    out = []; depth = 0; cur = ''
    i = 0
    while i < len(e):
        c = e[i]
        if c == '(':
            depth += 1
        elif c == ')':
            depth -= 1
        if c == ',' and depth == 0 and e[i:i + 2] == ', ':
            out.append(cur); cur = ''; i += 2
            continue
        cur += c; i += 1
    out.append(cur)
    return out


def _closure_matches(c, ty):
    m = re.search(r'\{closure@([^:]+):(\d+):', ty)
    return bool(m) and c.file.endswith(m.group(1).split('/')[-1]) and abs(c.line - int(m.group(2))) <= 1


def _reads_row_values(c):
    for b in c.blocks:
        for st in b['s']:
            if '.values' in repr(st):
                return True
    return False


def _reads_field(prog, f, field):
    for fn in [f] + prog.children(f):
        for b in fn.blocks:
            for st in b['s']:
                if f"'.{field}'" in repr(st):
                    return True
            if f"'.{field}'" in repr(b['t']):
                return True
    return False
