"""C02 Query results do not depend on which secondary indexes exist — structural clauses (T10 + T12).

Decides:
 (R1) key-pipeline agreement on the maintenance side: every key that reaches an index structure
      (BTreeMap of IndexData::InMemory, BTreeIndex of IndexData::DiskBacked) from row values is
      built by a closure whose result is normalize_for_comparison(apply_prefix_truncation(value,
      column.prefix_length)) — the same canonical form at every one of the sites, so a row is
      filed under one key no matter which statement put it there;
 (R2) probe normalisation: in IndexData::range_scan and IndexData::multi_lookup (both backends)
      every probe of the index structure is preceded by normalize_for_comparison on all paths;
 (R3) planner awareness of truncated keys: every function that chooses an index for a WHERE / ORDER BY /
      IN-subquery evaluation reads IndexColumn.prefix_length (a chooser that never looks at it must
      treat a prefix index like a full one: equality probes then miss rows and index order differs
      from value order);
 (R4) order restoration: execute_index_scan sorts the row positions back into table order when the
      index is not used for ORDER BY, and reverses for a DESC request only on the branch that tests it.
Does NOT decide bound arithmetic (inclusive/exclusive, increments), NULL keys, cost model."""
import re
from ..engine.facts import callee_name
from ..engine.cfg import cfg, defs_of, op_local
from ..engine.symexpr import Sym
from ..engine.callgraph import CallGraph
from ..engine.paths import Precede, search, switch_target
from . import matrix as M

UNITS = M.EXECUTOR_UNITS
IDX = 'vibesql_storage::database::indexes::'
NORM = IDX + 'value_normalization::normalize_for_comparison'
TRUNC = IDX + 'index_maintenance::apply_prefix_truncation'
BTI = 'vibesql_storage::btree::'
MAINT_SINK_OPS = {'entry', 'get_mut', 'remove', 'insert', 'contains_key', 'get'}
BTREE_KEY_OPS = {'insert', 'delete', 'delete_specific', 'lookup', 'bulk_load'}

SINK_EXC = {
    'vibesql_storage::database::indexes::index_manager::IndexManager::spill_index_to_disk':
        'moves an existing in-memory index to disk: the entries are the keys already stored in the BTreeMap, no key is built from a row',
}
CHOOSER_EXC = {
    'vibesql_executor::select::scan::index_scan::execution::execute_index_scan':
        'executes the index already chosen by selection.rs (index name is an argument); it never picks one',
}


def is_test(f):
    return '/tests' in f.file or '::tests::' in f.nice or f.file.endswith('tests.rs')


def run(ctx):
    prog = ctx.prog

    # ------------------------------------------------------------------ R1 maintenance key builders
    ctx.rule('C02.R1', 'each key handed to BTreeMap<Vec<SqlValue>,_>::{entry,get,get_mut,remove,insert,contains_key} on IndexData::InMemory.data '
             'or to BTreeIndex::{insert,delete,delete_specific,lookup,bulk_load} inside database::indexes::{index_maintenance,index_manager} '
             'is collected from a closure returning normalize_for_comparison(apply_prefix_truncation(row value, column.prefix_length))')
    builders = {}
    nsinks = 0
    for f in prog.fns.values():
        if f.unit != 'vibesql_storage' or f.is_closure() or is_test(f):
            continue
        if not (f.nice.startswith(IDX + 'index_maintenance::') or f.nice.startswith(IDX + 'index_manager::')):
            continue
        s = Sym(f)
        for i, t in f.calls():
            cn = callee_name(t) or ''
            op = cn.rsplit('::', 1)[-1].split('<')[0]
            key = None
            if 'BTreeMap' in cn and op in MAINT_SINK_OPS and len(t['args']) >= 2:
                recv = s.op(t['args'][0])
                if not recv.endswith('@InMemory.data'):
                    continue
                key = t['args'][1]
            elif cn.startswith(BTI) and 'BTreeIndex' in cn and op in BTREE_KEY_OPS and len(t['args']) >= 2:
                key = t['args'][1]
            if key is None:
                continue
            s.closures = set()
            ks = s.op(key)
            if op == 'bulk_load':
                # sorted entries: the keys are built when the entries are collected; find closures of this fn that build keys
                cls = {c.path for c in prog.children(f) if c.is_closure()}
            else:
                cls = set(s.closures)
            nsinks += 1
            site = f'{f.nice.rsplit("::", 1)[1]}/{op}@{t["l"]}'
            shapes = []
            for cp in sorted(cls):
                c = prog.fns.get(cp)
                if c is None:
                    continue
                names = {callee_name(t2) for _, t2 in c.calls()}
                if NORM not in names and TRUNC not in names and not _reads_row_values(c):
                    continue          # not a key builder (filters, error closures)
                cs = Sym(c)
                ret = cs.local(0)
                shapes.append((c, ret))
                builders[c.path] = (c, ret)
            ctx.instance(f'R1/{site}', {'rule': 'C02.R1', 'fn': f.nice, 'loc': f'{f.file}:{t["l"]}', 'sink': op,
                                        'key': ks[:160], 'builders': [r[:120] for _, r in shapes]})
            if not shapes and f.nice in SINK_EXC:
                ctx.exempt(f'R1/{f.nice}/{op}', SINK_EXC[f.nice])
                continue
            if not shapes and 'closure' in ks:
                ctx.finding(f'R1/{f.nice}/{op}/no-builder', f'{f.nice}: key for {op} is not built by a recognisable key-builder closure', f'{f.file}:{t["l"]}')
    ctx.floor('C02.R1 index key sinks on the maintenance side', nsinks, 14)
    ctx.floor("C02.R1 key-builder closures", len(builders), 9)
    for cp, (c, ret) in sorted(builders.items()):
        ok = re.match(r'^normalize_for_comparison\(apply_prefix_truncation\(.+, [A-Za-z_0-9.@]*prefix_length\)\)$', ret)
        ctx.instance(f'R1/builder/{c.nice}', {'rule': 'C02.R1', 'closure': c.nice, 'returns': ret[:200]})
        if not ok:
            ctx.finding(f'R1/builder/{c.nice}', f'{c.nice}: the index key element is `{ret[:160]}` — not normalize_for_comparison('
                        'apply_prefix_truncation(value, column.prefix_length)) like the other maintenance sites: rows filed by this path are '
                        'not found (or found twice) by the others', c.loc)

    # ------------------------------------------------------------------ R2 probe normalisation
    ctx.rule('C02.R2', 'IndexData::range_scan and IndexData::multi_lookup: normalize_for_comparison precedes every probe of the index '
             'structure (BTreeMap::{get,range}, BTreeIndex::{lookup,multi_lookup,range_scan}) on every path')
    cg = CallGraph(prog)
    for short in ('range_scan', 'multi_lookup'):
        fs = [f for f in prog.fns.values() if f.nice.startswith(IDX) and f.nice.endswith('IndexData>::' + short) or
              (f.nice.startswith(IDX) and re.search(r'IndexData>::' + short + '$', f.nice))]
        fs = [f for f in prog.fns.values() if f.unit == 'vibesql_storage' and not f.is_closure() and not is_test(f)
              and f.nice.startswith(IDX) and f.nice.endswith('::' + short) and 'IndexData' in f.nice]
        ctx.require(len(fs) == 1, f'IndexData::{short} not found ({[f.nice for f in fs]})')
        f = fs[0]
        scope = [f] + prog.children(f)

        def is_probe(t, fn):
            cn = callee_name(t) or ''
            op = cn.rsplit('::', 1)[-1].split('<')[0]
            if 'BTreeMap' in cn and op in ('get', 'range'):
                return True
            return cn.startswith(BTI) and 'BTreeIndex' in cn and op in ('lookup', 'multi_lookup', 'range_scan')

        def is_norm(t, fn):
            if callee_name(t) == NORM:
                return True
            # Option::map(normalize_for_comparison) / iter.map(|v| vec![normalize(v)]): the function item or a closure calling it
            ga = (t['f'].get('ga') or '') + ' '.join(str(a) for a in t['args'])
            if 'normalize_for_comparison' in ga:
                return True
            for a in t['args']:
                l = op_local(a)
                ty = fn.locals[l] if l is not None else ''
                if '{closure@' in ty:
                    for c in prog.children(fn):
                        if c.is_closure() and any(callee_name(t2) == NORM for _, t2 in c.calls()) and _closure_matches(c, ty):
                            return True
            return False
        probes = [(i, t) for i, t in f.calls() if is_probe(t, f)]
        ctx.floor(f'C02.R2 probes in IndexData::{short}', len(probes), 2)
        pre = Precede(prog, cg, lambda t, fn, f=f: fn is f and is_probe(t, fn), is_norm, scope, g_summaries=False)
        esc = M.shortest_escapes(pre, lambda fn: True)
        for i, t in probes:
            ctx.instance(f'R2/{short}/{(callee_name(t) or "").rsplit("::",1)[-1]}@{t["l"]}', {'rule': 'C02.R2', 'fn': f.nice, 'loc': f'{f.file}:{t["l"]}'})
        for (ofn, ocal), chain in sorted(esc.items()):
            # an unbounded full scan (None, None) has nothing to normalise
            ctx.finding(f'R2/{short}/{ocal.rsplit("::",1)[-1]}', f'IndexData::{short}: {ocal.rsplit("::",1)[-1]} is reached on a path that does not '
                        'normalise the probe values first: numeric probes of another type than the stored canonical form find nothing', f.loc)

    # ------------------------------------------------------------------ R3 planner awareness of prefix indexes
    ctx.rule('C02.R3', 'every function of the executor (select / evaluator, reachable from the SELECT executor) that obtains IndexMetadata '
             'through Database::get_index in order to choose an index reads IndexColumn.prefix_length')
    GI = M.D + 'get_index'
    nch = 0
    for f in prog.fns.values():
        if f.unit != 'vibesql_executor' or f.is_closure() or is_test(f):
            continue
        if not (f.nice.startswith('vibesql_executor::select::') or f.nice.startswith('vibesql_executor::evaluator::')):
            continue
        if not any(callee_name(t) == GI for _, t in f.calls()):
            continue
        nch += 1
        reads = _reads_field(prog, f, 'prefix_length')
        ctx.instance(f'R3/{f.nice}', {'rule': 'C02.R3', 'fn': f.nice, 'reads_prefix_length': reads})
        if reads:
            continue
        if f.nice in CHOOSER_EXC:
            ctx.exempt(f'R3/{f.nice}', CHOOSER_EXC[f.nice])
            continue
        ctx.finding(f'R3/{f.nice}', f'{f.nice} picks an index without looking at IndexColumn.prefix_length: a prefix index holds truncated keys, '
                    'so equality probes with the full value miss rows and index order is not value order', f.loc)
    ctx.floor('C02.R3 index choosers', nch, 5)

    # ------------------------------------------------------------------ R4 order restoration
    ctx.rule('C02.R4', 'execute_index_scan: when sorted_columns is None the row positions are sorted (table order) before rows are fetched; '
             'the DESC reversal is confined to the branch that tested OrderDirection::Desc')
    f = ctx.fn('vibesql_executor::select::scan::index_scan::execution::execute_index_scan')
    g = cfg(f)
    s = Sym(f)
    tests = [(i, t) for i, t in f.calls() if (callee_name(t) or '').endswith('Option::<T>::is_none') and 'sorted_columns' in s.op(t['args'][0])]
    sorts = [i for i, t in f.calls() if (callee_name(t) or '').rsplit('::', 1)[-1].split('<')[0] in ('sort_unstable', 'sort')]
    fetch = [i for i, t in f.calls() if callee_name(t) == M.T + 'scan']
    ctx.require(len(fetch) == 1, 'execute_index_scan: Table::scan anchor not found')
    ok = False
    for i, t in tests:
        sw = f.blocks[t['to']]['t']
        if sw['k'] != 'switch':
            continue
        tt = switch_target(sw, 1)
        if tt is None:
            tt = sw['else']
        if any(g.dominates(tt, sb) for sb in sorts) and g.dominates(i, fetch[0]):
            # and the fetch cannot be reached from the true branch without the sort
            reached, _ = search(f, [tt], set(sorts), loop_model=False)
            ok = fetch[0] not in reached
    ctx.instance('R4/table-order', {'rule': 'C02.R4', 'is_none_tests': len(tests), 'sort_calls': len(sorts)})
    if not ok:
        ctx.finding('R4/table-order', 'execute_index_scan: rows found through an index that is not used for ORDER BY are no longer put back '
                    'into table order on every path (results then come in index key order)', f.loc)
    revs = [i for i, t in f.calls() if (callee_name(t) or '').rsplit('::', 1)[-1].split('<')[0] == 'reverse']
    eqs = [(i, t) for i, t in f.calls() if 'OrderDirection' in (callee_name(t) or '') and 'PartialEq' in (callee_name(t) or '')]
    from ..engine.cfg import adt_literals
    lits = adt_literals(prog, f, 'OrderDirection')
    ctx.instance('R4/desc-reverse', {'rule': 'C02.R4', 'reverse_calls': len(revs), 'direction_tests': len(eqs), 'literals': sorted(lits)})
    okr = bool(revs) and bool(eqs) and lits == {'Desc'}
    for i, t in eqs:
        sw = f.blocks[t['to']]['t']
        if sw['k'] == 'switch':
            tt = switch_target(sw, 1)
            if tt is None:
                tt = sw['else']
            okr = okr and all(g.dominates(tt, r) for r in revs)
    if not okr:
        ctx.finding('R4/desc-reverse', 'execute_index_scan: the reversal for ORDER BY ... DESC is no longer confined to the branch where the '
                    'requested direction equals OrderDirection::Desc', f.loc)


def _closure_matches(c, ty):
    m = re.search(r'\{closure@([^:]+):(\d+):', ty)
    return bool(m) and c.file.endswith(m.group(1).split('/')[-1]) and abs(c.line - int(m.group(2))) <= 1


def _reads_row_values(c):
    for b in c.blocks:
        for st in b['s']:
            if '.values' in repr(st):
                return True
    return False


def _reads_field(prog, f, field):
    for fn in [f] + prog.children(f):
        for b in fn.blocks:
            for st in b['s']:
                if f"'.{field}'" in repr(st):
                    return True
            if f"'.{field}'" in repr(b['t']):
                return True
    return False
