"""C18 Native save/load round-trips the database — writer/reader table agreement (T8).

Decides, at the level of kinds (for all schemas and values): (a) TypeTag discriminants ↔
TypeTag::from_u8; (b) per SqlValue variant, the tag and primitive sequence written equal those
read, and the reader rebuilds the same variant; (c) for every DataType variant, the text the
writer emits (binary: save::format_data_type, JSON: column_to_json) is mapped back to the same
variant by the reader's decision list (binary::catalog::parse_data_type, json::parse_data_type),
and the writer consumes every field of the variant; (d) the writers read every field of the
persisted index definition and of the column triple (name, type, nullability), and the reader does
not fill a persisted field with a constant; (e) load order mirrors save order; (f) every native loader passes, on every Ok path, through code that
rebuilds the user-defined indexes; (g) the temporal arms of the value writer hand the type's own Display text to
the reader's FromStr (sibling arms agree); (h) no float->integer cast on the reader side.
Does NOT decide equality of values after Display/FromStr (C22) or query results after reload."""
import re
from ..engine.facts import callee_name
from ..engine.cfg import cfg, op_const, op_local, op_place, defs_of
from ..engine.tables import enum_switches, switch_arm_regions
from ..engine.fmt import format_sites
from ..engine.strmatch import first_non_test_fallthrough, str_tests
from ..engine.cfg import str_const

UNITS = {'vibesql_storage', 'vibesql_types', 'vibesql_ast', 'vibesql_catalog'}
P = 'vibesql_storage::persistence::'
SV = 'vibesql_types::sql_value::SqlValue'
DT = 'vibesql_types::data_type::DataType'
TT = P + 'binary::format::TypeTag'


# DataType variants no SQL type name produces: a column of the type cannot be created, so the loss cannot be demonstrated
UNDECLARABLE = {
    ('binary', 'CharacterLargeObject'): 'no SQL type name maps to DataType::CharacterLargeObject (CLOB is rejected by the parser, TEXT maps to VARCHAR)',
    ('binary', 'Null'): 'DataType::Null cannot be declared as a column type',
}


def adt_variants_built(prog, fn, blocks, adt):
    out = set()
    for b in blocks:
        for s in fn.blocks[b]['s']:
            if 'd' in s and s['v']['r'] == 'agg' and s['v'].get('kind') == 'adt' and s['v']['adt'] == adt:
                out.add(s['v']['variant'])
    return out


def promoted_refs(prog, fn, blocks):
    """promoted constant bodies referenced from the given blocks"""
    out = []
    for b in blocks:
        for s in fn.blocks[b]['s']:
            if 'd' in s and s['v']['r'] in ('use', 'cast'):
                a = s['v']['a']
                c = op_const(a)
                if isinstance(c, str) and '::promoted[' in c:
                    m = re.search(r'promoted\[(\d+)\]$', c)
                    g = prog.fns.get(f"{a.get('u')}::promoted[{m.group(1)}]") if m and a.get('u') else None
                    if g is not None:
                        out.append(g)
                    else:
                        out += prog.by_nice.get(c, [])
    return out


def dominated(fn, target):
    g = cfg(fn)
    return {x for x in g.reachable() if g.dominates(target, x)}


def sample_outputs(prog, fn, region, first_variant_of):
    """sample texts a writer arm can produce: string literals turned into Strings and format templates
    instantiated with representative arguments"""
    outs = []
    from ..engine.cfg import resolve_str
    defs = defs_of(fn)
    for i, t in fn.calls():
        if i not in region:
            continue
        n = callee_name(t) or ''
        if n.endswith('ToString>::to_string') or n.endswith('::to_owned') or n.endswith('From<&str>>::from') or n.endswith('::to_string'):
            for a in t['args']:
                s = resolve_str(fn, defs, a)
                if s is not None:
                    outs.append(('literal', s))
    for site in format_sites(prog, fn):
        if site['block'] in region and site['pieces'] is not None:
            txt = ''
            k = 0
            for p in site['pieces']:
                if p[0] == 'lit':
                    txt += p[1]
                else:
                    kind, ty = site['args'][k] if k < len(site['args']) else ('?', '')
                    k += 1
                    if kind == 'debug' and ty in prog.adts:
                        txt += prog.adts[ty]['variants'][0]['name']
                    elif re.search(r'^(u|i)(8|16|32|64|size)$', ty):
                        txt += '7'
                    else:
                        txt += 'X'
            outs.append(('template:' + site['text'], txt))
    return outs


def fields_read_of(prog, fns, adt):
    """field names of struct `adt` projected anywhere in the given functions (and their closures)"""
    out = set()
    seen = []
    for f in fns:
        seen.append(f)
        seen += prog.children(f)
    for f in seen:
        loc = {i for i, t in enumerate(f.locals) if re.sub(r'&(mut )?', '', t).strip() == adt}
        for b in f.blocks:
            for s in b['s']:
                if 'd' not in s:
                    continue
                v = s['v']
                places = [s['d']]
                if v['r'] in ('ref', 'discr'):
                    places.append(v['p'])
                for k in ('a', 'b'):
                    if isinstance(v.get(k), dict) and op_place(v[k]):
                        places.append(op_place(v[k]))
                for o in v.get('ops', ()):
                    if op_place(o):
                        places.append(op_place(o))
                for p in places:
                    if p[0] in loc:
                        proj = [e for e in p[1] if e != '*']
                        if proj and proj[0].startswith('.'):
                            out.add(proj[0][1:])
            t = b['t']
            if t['k'] == 'call':
                for a in t['args']:
                    p = op_place(a)
                    if p and p[0] in loc:
                        proj = [e for e in p[1] if e != '*']
                        if proj and proj[0].startswith('.'):
                            out.add(proj[0][1:])
    return out


def run(ctx):
    prog = ctx.prog
    # ---------------------------------------------------------------- (a) TypeTag
    ctx.rule('C18.a', 'TypeTag::from_u8 maps exactly the discriminant of every TypeTag variant back to that variant')
    tt = prog.adt(TT)
    disc = {v['name']: int(v['discr']) for v in tt['variants']}
    fu = ctx.fn(TT + '::from_u8')
    back = {}
    for b in fu.blocks:
        if b['t']['k'] == 'switch':
            for val, tb in b['t']['targets']:
                vs = adt_variants_built(prog, fu, dominated(fu, tb), TT)
                for v in vs:
                    back[int(val)] = v
    ctx.instance('a/TypeTag', {'discriminants': disc, 'from_u8': back})
    for v, d in disc.items():
        if back.get(d) != v:
            ctx.finding(f'a/TypeTag/{v}', f'TypeTag::{v} = {d:#04x} but from_u8({d:#04x}) gives {back.get(d)}', fu.loc)
    if len(set(disc.values())) != len(disc):
        ctx.finding('a/TypeTag/duplicate', 'two TypeTag variants share a discriminant', fu.loc)

    # ---------------------------------------------------------------- (b) values
    ctx.rule('C18.b', 'write_sql_value arm of variant V writes tag TypeTag::V and primitives P; read_sql_value arm of TypeTag::V reads '
             'the same primitives and constructs SqlValue::V')
    wv = ctx.fn(P + 'binary::value::write_sql_value')
    rv = ctx.fn(P + 'binary::value::read_sql_value')
    svv = [v['name'] for v in prog.adt(SV)['variants']]
    wsw = max(enum_switches(prog, wv, SV), key=lambda s: len(s['arms']))
    rsw = max(enum_switches(prog, rv, TT), key=lambda s: len(s['arms']))
    wreg = switch_arm_regions(wv, wsw)
    rreg = switch_arm_regions(rv, rsw)
    if wsw['otherwise'] is not None or rsw['otherwise'] is not None:
        ctx.finding('b/wildcard', 'write_sql_value/read_sql_value has a wildcard arm', wv.loc)

    def prims(fn, reg, prefix):
        out = []
        for i, t in sorted(fn.calls(), key=lambda x: x[1]['l']):
            if i in reg:
                n = callee_name(t) or ''
                m = re.search(r'binary::io::' + prefix + r'_(\w+)$', n)
                if m:
                    out.append(m.group(1))
        return out
    for v in svv:
        ctx.require(v in wreg, f'write_sql_value: no arm for SqlValue::{v}')
        reg = wreg[v]
        tags = adt_variants_built(prog, wv, reg, TT)
        byval = {d: n for n, d in disc.items()}
        for pf in promoted_refs(prog, wv, reg):
            tags |= adt_variants_built(prog, pf, range(len(pf.blocks)), TT)
            # `TypeTag::X as u8` is folded to `discriminant + 0` in the promoted array constant
            for b in pf.blocks:
                for st in b['s']:
                    if 'd' in st and st['v']['r'] == 'bin' and st['v']['op'] in ('AddWithOverflow', 'Add') and st['v']['t'] == 'u8':
                        a_, b_ = op_const(st['v']['a']), op_const(st['v']['b'])
                        if isinstance(a_, int) and isinstance(b_, int) and (a_ + b_) in byval:
                            tags.add(byval[a_ + b_])
        wp = prims(wv, reg, 'write')
        shared = sorted(x for x in wsw['arms'] if x in wreg and (wreg[x] & reg))
        ctx.instance(f'b/{v}', {'variant': v, 'tags_written': sorted(tags), 'prims_written': wp, 'arm_shared_with': shared})
        if tags != set(shared):
            ctx.finding(f'b/{v}/tag', f'write_sql_value writes tag {sorted(tags)} for SqlValue::{shared}', wv.loc)
        if v not in rreg:
            ctx.finding(f'b/{v}/reader', f'read_sql_value has no arm for TypeTag::{v}', rv.loc)
            continue
        rp = prims(rv, rreg[v], 'read')
        built = adt_variants_built(prog, rv, rreg[v], SV)
        if built != {v}:
            ctx.finding(f'b/{v}/ctor', f'read_sql_value arm TypeTag::{v} constructs SqlValue::{sorted(built)}', rv.loc)
        if rp != wp:
            ctx.finding(f'b/{v}/prims', f'SqlValue::{v}: written as {wp} but read as {rp}', rv.loc)

    # ---------------------------------------------------------------- (c) data type text
    ctx.rule('C18.c', 'for every DataType variant: each text the writer can emit (literal or format template instantiated with '
             'representative arguments) is mapped by the reader\'s decision list (literal equalities / starts_with guards, in order, on '
             'the upper-cased text) to an arm that constructs the same variant; the writer arm reads every field of the variant')
    dta = prog.adt(DT)
    dvs = {v['name']: [f['name'] for f in v['fields']] for v in dta['variants']}
    for fmt_name, wname, rname in (('binary', P + 'save::format_data_type', P + 'binary::catalog::parse_data_type'),
                                   ('json', P + 'json::column_to_json', P + 'json::parse_data_type')):
        w = ctx.fn(wname); r = ctx.fn(rname)
        sw = max(enum_switches(prog, w, DT), key=lambda s: len(s['arms']))
        regs = switch_arm_regions(w, sw)
        ctx.floor(f'{fmt_name}: string tests in the type reader', len(str_tests(r)), 15)
        for v, fields in dvs.items():
            if v not in regs:
                ctx.finding(f'c/{fmt_name}/{v}/writer-arm', f'{wname.rsplit("::",1)[1]} has no explicit arm for DataType::{v}', w.loc)
                continue
            reg = regs[v]
            outs = sample_outputs(prog, w, reg, None)
            # fields of the variant the arm reads
            used = set()
            for b in reg:
                for s in w.blocks[b]['s']:
                    if 'd' not in s:
                        continue
                    vv = s['v']
                    ps = []
                    if vv['r'] == 'ref':
                        ps.append(vv['p'])
                    for k in ('a',):
                        if isinstance(vv.get(k), dict) and op_place(vv[k]):
                            ps.append(op_place(vv[k]))
                    for p_ in ps:
                        for j, e in enumerate(p_[1]):
                            if e == '@' + v and j + 1 < len(p_[1]):
                                used.add(p_[1][j + 1][1:])
            ctx.instance(f'c/{fmt_name}/{v}', {'format': fmt_name, 'variant': v, 'writer_outputs': outs, 'fields': fields, 'fields_read': sorted(used)})
            for fl in fields:
                if fl not in used:
                    ctx.finding(f'c/{fmt_name}/{v}/field/{fl}', f'{fmt_name} writer ignores DataType::{v}.{fl}: the value cannot survive a round trip', w.loc)
            if not outs:
                # text comes from the value itself (e.g. a user-defined type name): any text must map back
                outs = [('dynamic', 'MYTYPE')]
            for kind, text in outs:
                res = first_non_test_fallthrough(r, text.upper())
                if res[0] == 'arm':
                    built = adt_variants_built(prog, r, dominated(r, res[1]), DT)
                elif res[0] == 'fallthrough':
                    built = adt_variants_built(prog, r, cfg(r).reach_from([res[1]]), DT)
                else:
                    ctx.require(False, f'{rname}: decision list could not be evaluated for {text!r}')
                if built != {v}:
                    got = 'rejected (error)' if not built else 'DataType::' + '/'.join(sorted(built))
                    if (fmt_name, v) in UNDECLARABLE:
                        ctx.exempt(f'c/{fmt_name}/{v}/{kind}', UNDECLARABLE[(fmt_name, v)] + f' (writer text {text!r} → {got})')
                        continue
                    ctx.finding(f'c/{fmt_name}/{v}/{kind}', f'{fmt_name}: DataType::{v} is written as {text!r} which the reader maps to {got}', r.loc)

    # ---------------------------------------------------------------- (d) persisted structs
    ctx.rule('C18.d', 'the catalog writers read every field of IndexMetadata / IndexColumn and the (name, data_type, nullable) triple of '
             'ColumnSchema; the readers do not construct IndexColumn with a constant in a persisted field')
    IM = 'vibesql_storage::database::indexes::index_metadata::IndexMetadata'
    IC = 'vibesql_ast::ddl::schema::IndexColumn'
    CS = 'vibesql_catalog::column::ColumnSchema'
    for a in (IM, IC, CS):
        prog.adt(a)
    writers = {'binary': [ctx.fn(P + 'binary::catalog::write_catalog')],
               'json': [f for f in prog.fns.values() if f.nice.startswith(P + 'json::') and ('to_json' in f.nice) and not f.is_closure() and f.dk != 'Promoted']}
    ctx.floor('json writer functions', len(writers['json']), 3)
    need = {IM: ['index_name', 'table_name', 'unique', 'columns'], IC: ['column_name', 'direction', 'prefix_length'],
            CS: ['name', 'data_type', 'nullable']}
    for fmt_name, fs in writers.items():
        for adt, fields in need.items():
            got = fields_read_of(prog, fs, adt)
            for fl in fields:
                ctx.instance(f'd/{fmt_name}/{adt.rsplit("::",1)[1]}.{fl}')
                if fl not in got:
                    if adt == IM and fl == 'index_name':
                        continue       # the name is the map key the writers iterate over
                    ctx.finding(f'd/{fmt_name}/writer/{adt.rsplit("::",1)[1]}.{fl}', f'{fmt_name} writer never reads {adt.rsplit("::",1)[1]}.{fl}: '
                                f'it is not persisted', fs[0].loc)
    readers = {'binary': [ctx.fn(P + 'binary::catalog::read_catalog')], 'json': [ctx.fn(P + 'json::json_database_to_db')]}
    for fmt_name, fs in readers.items():
        for f in fs:
            for g in [f] + prog.children(f):
                defs = defs_of(g)
                for b in g.blocks:
                    for s in b['s']:
                        if 'd' in s and s['v']['r'] == 'agg' and s['v'].get('kind') == 'adt' and s['v']['adt'] == IC:
                            for name, o in zip(s['v']['fields'], s['v']['ops']):
                                const = op_const(o) is not None
                                if not const:
                                    l = op_local(o)
                                    ds = defs.get(l, [])
                                    if len(ds) == 1 and ds[0][1] == 'assign' and ds[0][2]['r'] == 'agg' and not ds[0][2]['ops'] \
                                            and ds[0][2].get('kind') == 'adt':
                                        const = True
                                ctx.instance(f'd/{fmt_name}/reader/IndexColumn.{name}')
                                if const:
                                    ctx.finding(f'd/{fmt_name}/reader/IndexColumn.{name}', f'{fmt_name} reader fills IndexColumn.{name} with a constant', f'{g.file}:{s["l"]}')

    # ---------------------------------------------------------------- (e) order
    ctx.rule('C18.e', 'save_binary/compressed write header, catalog, data in this order and load reads them in the same order')
    for nm, seq in ((P + 'binary::<impl vibesql_storage::database::core::Database>::save_binary', ['write_header', 'write_catalog', 'write_data']),
                    (P + 'binary::<impl vibesql_storage::database::core::Database>::load_binary', ['read_header', 'read_catalog', 'read_data'])):
        f = ctx.fn(nm)
        g = cfg(f)
        blocks = []
        for want in seq:
            bs = [i for i, t in f.calls() if (callee_name(t) or '').endswith('::' + want)]
            ctx.require(len(bs) == 1, f'{nm}: expected exactly one call to {want}')
            blocks.append(bs[0])
        ctx.instance(f'e/{nm.rsplit("::",1)[1]}')
        for x, y in zip(blocks, blocks[1:]):
            if not g.dominates(x, y):
                ctx.finding(f'e/{nm.rsplit("::",1)[1]}/order', f'{nm.rsplit("::",1)[1]}: section order changed ({seq})', f.loc)


    # ---------------------------------------------------------------- (f) loaders restore user-defined indexes
    from ..engine.callgraph import CallGraph
    from ..engine.paths import ok_exit_reachable
    from ..engine.symexpr import Sym
    ctx.rule('C18.f', 'Database::load_binary, load_compressed and load_json pass, on every path to an Ok return after the catalog was read, '
             'a call from which Database::rebuild_indexes is reachable (index definitions are persisted, index contents are rebuilt)')
    cg = CallGraph(prog)
    RB = {'vibesql_storage::database::core::Database::rebuild_indexes', 'vibesql_storage::database::operations::Operations::rebuild_indexes'}
    CI = {'vibesql_storage::database::core::Database::create_index'}
    reach_rb = set(); reach_ci = set()
    for f in prog.fns.values():
        if f.unit == 'vibesql_storage':
            r = {prog.fns[p_].nice for p_ in cg.reach([f.path]) if p_ in prog.fns}
            if r & RB:
                reach_rb.add(f.nice)
            if r & CI:
                reach_ci.add(f.nice)
    loaders = [f for f in prog.fns.values() if f.unit == 'vibesql_storage' and not f.is_closure() and f.nice.startswith(P)
               and re.search(r'Database>::load_(binary|compressed|json)$', f.nice)]
    ctx.floor('C18.f native loaders', len(loaders), 3)
    for f in sorted(loaders, key=lambda f: f.nice):
        # the JSON loader inserts the rows first and creates the indexes afterwards (create_index builds from the stored rows);
        # the binary loaders create the indexes with the catalog (on empty tables) and must rebuild them after the data section
        ok_set = (reach_rb | RB | reach_ci | CI) if f.nice.endswith('load_json') else (reach_rb | RB)
        blocks = {i for i, t in f.calls() if (callee_name(t) or '') in ok_set}
        ctx.instance(f'f/{f.nice.rsplit("::",1)[1]}', {'rule': 'C18.f', 'fn': f.nice, 'restoring_calls': len(blocks)})
        if not blocks or ok_exit_reachable(f, [0], blocks) is not None:
            ctx.finding(f'f/{f.nice.rsplit("::",1)[1]}', f'{f.nice.rsplit("::",1)[1]} can return a database whose user-defined indexes were never rebuilt: index '
                        'definitions are there, index contents are empty, and index-driven queries find nothing', f.loc)

    # ---------------------------------------------------------------- (g) temporal arms use the type's Display
    ctx.rule('C18.g', 'write_sql_value: the Date / Time / Timestamp / Interval arms write ToString::to_string of the payload (the text the '
             'reader hands to FromStr of the same type); the four sibling arms agree')
    wsw = max(enum_switches(prog, wv, SV), key=lambda x: len(x['arms']))
    wregs = switch_arm_regions(wv, wsw)
    sym = Sym(wv)
    WS = P + 'binary::io::write_string'
    shapes = {}
    for v in ('Date', 'Time', 'Timestamp', 'Interval'):
        for i, t in wv.calls():
            if i in wregs.get(v, ()) and (callee_name(t) or '') == WS:
                e = sym.op(t['args'][1])
                shapes[v] = re.sub(r'@' + v + r'\.0', '@V.0', e)
    ctx.instance('g/temporal-writer', {'rule': 'C18.g', 'text_written': shapes})
    ctx.require(len(shapes) == 4, f'write_sql_value: temporal arms not recognised ({shapes})')
    for v, e in shapes.items():
        # Sym treats to_string as a pass-through conversion: the payload itself must be what is written
        if not re.match(r'^[A-Za-z_0-9]+@V\.0$', e):
            ctx.finding(f'g/temporal-writer/{v}', f'write_sql_value: the {v} arm writes `{e[:100]}` instead of the value\'s own Display text; the reader '
                        f'parses the text with <{v} as FromStr>, whose inverse is only the type\'s Display', wv.loc)

    # ---------------------------------------------------------------- (h) no float->int detour on the reader side
    ctx.rule('C18.h', 'functions of persistence::json and persistence::binary::value (reader side) contain no float-to-integer cast: integer '
             'values are read through integer accessors; the matcher is kept live by the f64->f32 casts of the Float/Real arms')
    live = 0
    for f in prog.fns.values():
        if f.unit != 'vibesql_storage' or '/tests' in f.file or '::tests::' in f.nice:
            continue
        if not (f.nice.startswith(P + 'json::') or f.nice.startswith(P + 'binary::value::')):
            continue
        for b in f.blocks:
            for st in b['s']:
                if 'd' in st and st['v']['r'] == 'cast':
                    fr, to = str(st['v'].get('from')), str(st['v'].get('to'))
                    if fr in ('f64', 'f32') and to in ('f32', 'f64'):
                        live += 1
                    if fr in ('f64', 'f32') and re.match(r'^[iu](8|16|32|64|128|size)$', to):
                        ctx.finding(f'h/{f.nice}/{fr}-to-{to}', f'{f.nice}: a stored number is converted {fr} -> {to}: integers beyond 2^53 do not '
                                    'survive the detour through a double', f'{f.file}:{st["l"]}')
    ctx.instance('h/reader-casts', {'rule': 'C18.h', 'float_to_float_casts_seen': live})
    ctx.floor('C18.h matcher control (f64->f32 casts on the reader side)', live, 2)
