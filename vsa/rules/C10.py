"""C10 Declared integrity constraints hold after every statement — structural clauses.

Decides: (a) every PRIMARY KEY / UNIQUE uniqueness validator, once it has fetched the table, can
only answer Ok after looking at the table's keys (hash index lookup, unique-index data or scan):
no shortcut path; (b) every insert/update mutation site reachable from INSERT/UPDATE entry points
is preceded on every path by the row validators (NOT NULL/PK/UNIQUE/CHECK) of its statement.
(b') the row that is written is a row that was validated: a function that computes new column values from SET-style
assignments (a loop over `assignments`, or ValueUpdater::apply_assignments) and then writes a row passes a row validator
between the computation and the write - the validation of the row that INSERT proposed says nothing about the row that
ON DUPLICATE KEY UPDATE stores;
(c) in the bulk INSERT ... SELECT path the switch that turns a validator
on depends on the destination schema only, and each validator call is decided by its own flag only;
(d) hash-index probes of the uniqueness validators are keyed in the index's column order;
(e) per-constraint vectors consumed by position are filled on every iteration (REPLACE);
(e') a counter used as a position in a per-constraint collection comes from an enumeration of the unfiltered sequence:
no Index / get whose index is the counter of `enumerate()` applied behind flatten / filter / filter_map / skip (the
counter then counts the survivors, not the constraints);
(f) "which constraint's index is affected by this UPDATE" is decided existentially;
(g) validate-all-then-apply needs a validator that sees the statement's rows together: where a per-row uniqueness
validator runs in a loop that does not itself apply the rows (each row is compared with the table as it was before the
statement), every key source it answers for (PRIMARY KEY, UNIQUE constraints, unique indexes) is covered by an
accumulator that is filled in the same loop and handed to the validator, by a batch check behind the loop that dominates
every mutation (reaches a HashSet insert and reads that key source), or - unique indexes in the executor - by handing the
rows to the storage entry points that are themselves sites of this rule.  `UPDATE t SET u = 7` over two rows and
`INSERT .. VALUES (5,1),(5,2)` under a unique index stored duplicates;
(h) a UNIQUE index is not created over rows that already collide: in IndexManager::create_index the registration of the
index (self.indexes.insert) is dominated by a test of the `unique` parameter whose true branch runs, before anything is
registered, a loop with a set insertion whose "already present" answer leaves with an error;
(i) ALTER TABLE installs a constraint only over rows that satisfy it: in execute_add_constraint every arm that installs a
constraint (PRIMARY KEY: the assignment of schema.primary_key; UNIQUE / CHECK / FOREIGN KEY: add_unique_constraint /
add_check_constraint / add_foreign_key) is dominated, inside the arm, by a scan of the table's existing rows (directly
or in a helper) from which an error exit is reachable before the installation; execute_add_column rejects a NOT NULL
column without a value for the existing rows (an error exit decided by column_def.nullable and the row count) before
add_column; execute_modify_column / execute_change_column have an error exit decided by new_column_def.nullable before
the column's nullable flag is written.
Does NOT decide that the hash indexes are right (C15) or CHECK expression semantics."""
import re
from ..engine.callgraph import CallGraph
from ..engine.paths import Precede, ok_exit_reachable, success_starts
from ..engine.facts import callee_name
from . import matrix as M

UNITS = M.EXECUTOR_UNITS
EX = 'vibesql_executor::'
VALIDATOR_RX = re.compile(r'^vibesql_executor::(insert::constraints::enforce_(primary_key_constraint|unique_constraints|unique_indexes)|'
                          r"insert::row_validator::RowValidator::<'a>::validate_(primary_key_uniqueness|unique_constraints)|"
                          r"update::constraints::ConstraintValidator::<'a>::validate_(primary_key|unique_constraints|unique_indexes))$")
FETCH = {M.D + 'get_table'}
LOOKUPS = {M.T + 'primary_key_index', M.T + 'unique_indexes', M.T + 'scan', M.D + 'get_index_data'}

ROW_VALIDATORS = {
    EX + "insert::row_validator::RowValidator::<'a>::validate",
    EX + 'insert::constraints::enforce_primary_key_constraint',
    EX + "update::constraints::ConstraintValidator::<'a>::validate_row",
}
# mutation sites that change rows without running the row validators (reviewed)
SITE_EXCEPTIONS = {
    (EX + 'insert::execution::execute_insert_internal', M.T + 'delete_where'): 'compensating delete of the row just inserted',
    (EX + 'delete::integrity::set_null', M.T + 'update_row'):
        'writes NULL into foreign-key columns only: NULL cannot violate UNIQUE or CHECK, and NOT NULL / PRIMARY KEY columns are '
        'rejected by Table::update_row itself (observed: NOT NULL constraint violation)',
    (EX + 'insert::bulk_transfer::execute_bulk_transfer', M.D + 'insert_row'):
        'validates per constraint kind present (enforce_primary_key/unique/check + foreign keys, each under an `if` on the schema); '
        'presence of all four calls is checked separately below',
}
BULK_REQUIRED = {EX + 'insert::constraints::enforce_primary_key_constraint', EX + 'insert::constraints::enforce_unique_constraints',
                 EX + 'insert::constraints::enforce_check_constraints', EX + 'insert::foreign_keys::validate_foreign_key_constraints'}


def run(ctx):
    prog = ctx.prog
    cg = CallGraph(prog)
    # ---------------------------------------------------------------- (a) no shortcut in uniqueness validators
    ctx.rule('C10.a', 'in every PK/UNIQUE uniqueness validator, after Database::get_table succeeded (or from entry when the '
             'validator receives the table), no Ok return is reachable without a call to primary_key_index | unique_indexes | scan | '
             'get_index_data')
    vals = [f for f in prog.fns.values() if VALIDATOR_RX.search(f.nice)]
    ctx.floor('uniqueness validator functions', len(vals), 7)
    for f in sorted(vals, key=lambda f: f.nice):
        look = {i for i, t in f.calls() if callee_name(t) in LOOKUPS}
        fetch = [i for i, t in f.calls() if callee_name(t) in FETCH]
        ctx.instance(f'a/{f.nice}', {'rule': 'C10.a', 'fn': f.nice, 'loc': f.loc, 'fetches': len(fetch), 'lookups': len(look)})
        if not look:
            ctx.finding(f'a/{f.nice}/no-lookup', f'{f.nice} no longer looks at any key structure of the table', f.loc)
            continue
        starts = []
        for b in fetch:
            starts += success_starts(f, b)
        if not fetch:
            continue        # table handed in by the caller: every path is examined through the lookups it makes (floor above)
        w = ok_exit_reachable(f, starts, look, loop_model=False)
        if w is not None:
            lines = [f.blocks[b]['t']['l'] for b in w][:6]
            ctx.finding(f'a/{f.nice}/shortcut', f'{f.nice} can return Ok after fetching the table without consulting its keys '
                        f'(path through lines {lines})', f.loc, {'path_blocks': w})

    # ---------------------------------------------------------------- (b) validation precedes mutation
    ctx.rule('C10.b', 'every Table::insert|update_row* / Database::insert_row* call reachable from InsertExecutor/UpdateExecutor is '
             'preceded on every path from the entry points by RowValidator::validate | enforce_primary_key_constraint | '
             'ConstraintValidator::validate_row')
    entries = M.dml_entries(ctx, ('insert', 'update'))
    reach = cg.reach([f.path for fs in entries.values() for f in fs])
    scope = [f for f in prog.fns.values() if f.unit == 'vibesql_executor' and f.path in reach]
    roots = lambda f: not [c for c in cg.inn.get(f.path, ()) if c in reach]
    MUT = M.ROW_INSERT | M.ROW_UPDATE | M.DB_INSERT

    def is_site(t, fn):
        cn = callee_name(t)
        return cn in MUT and (fn.nice, cn) not in SITE_EXCEPTIONS
    pr = Precede(prog, cg, is_site, lambda t, fn: callee_name(t) in ROW_VALIDATORS, scope, g_summaries=False)
    n = 0
    for f in scope:
        for i, t in f.calls():
            if callee_name(t) in MUT:
                n += 1
                ctx.instance(f'b/{f.nice}/{callee_name(t)}', {'rule': 'C10.b', 'fn': f.nice, 'loc': f'{f.file}:{t["l"]}', 'mutation': callee_name(t)})
    ctx.floor('C10.b insert/update mutation sites reachable from INSERT/UPDATE', n, 6)
    for k, why in SITE_EXCEPTIONS.items():
        ctx.exempt(f'b/{k[0]}/{k[1]}', why)
    bt = ctx.fn(EX + 'insert::bulk_transfer::execute_bulk_transfer')
    have = {callee_name(t) for _, t in bt.calls()}
    ctx.instance('b/bulk_transfer/validators')
    for r in sorted(BULK_REQUIRED - have):
        ctx.finding(f'b/bulk_transfer/missing/{r}', f'execute_bulk_transfer no longer calls {r.rsplit("::",1)[1]} before inserting', bt.loc)
    for (ofn, ocal), chain in sorted(M.shortest_escapes(pr, roots).items()):
        f = prog.by_nice[ofn][0]
        ctx.finding(f'b/{ofn}/{ocal}', f'{ofn}: rows are written by {ocal.rsplit("::",1)[1]} with no row validation before it on some '
                    f'path ({M.chain_str(chain)})', f.loc, {'chain': chain})


    # ---------------------------------------------------------------- (c) gating flags of the bulk-transfer path
    from . import shared
    from ..engine.symexpr import Sym
    from ..engine.cfg import cfg
    from ..engine.paths import loop_headers
    ctx.rule('C10.c', 'check_schema_compatibility: whether validate_unique / validate_primary_key / validate_foreign_keys / validate_check is '
             'set depends only on the destination schema (no condition mentioning the source decides it); execute_bulk_transfer: each '
             'validator call is decided by its own compat_result.validate_* flag and nothing else')
    csc = ctx.fn(EX + 'insert::bulk_transfer::check_schema_compatibility')
    sym = Sym(csc)
    src_name = csc.names.get(2)
    flags = {}
    for bi, b in enumerate(csc.blocks):
        if b['t'].get('cleanup'):
            continue
        for st in b['s']:
            if 'd' in st and st['d'][1] and st['d'][1][-1].startswith('.validate_') and st['v']['r'] == 'use':
                from ..engine.cfg import op_const
                if op_const(st['v']['a']) == 1:
                    flags.setdefault(st['d'][1][-1][1:], []).append(bi)

    def guard_region(reach):
        # early exits that mark the schemas incompatible: the bulk path is not taken at all
        for rb in reach:
            for st in csc.blocks[rb]['s']:
                if 'd' in st and st['d'][1] and st['d'][1][-1] == '.compatible':
                    return True
        return False
    ctx.floor('C10.c validate_* flags set in check_schema_compatibility', len(flags), 4)
    lh = loop_headers(csc)
    hdr_sw = {sw for (sw, _n) in lh.values()}
    for fl, blocks in sorted(flags.items()):
        for bi in blocks:
            conds = [shared.switch_condition(csc, sblk, sym) for sblk in shared.deciding_switches(csc, bi, guard_region) if sblk not in hdr_sw]
            ctx.instance(f'c/flag/{fl}', {'rule': 'C10.c', 'flag': fl, 'decided_by': [c[:120] for c in conds]})
            for c in conds:
                if src_name and re.search(r'(?<![A-Za-z_0-9])' + re.escape(src_name) + r'(?![A-Za-z_0-9])', c):
                    ctx.finding(f'c/flag/{fl}/depends-on-source', f'check_schema_compatibility: {fl} is switched on only if `{c[:140]}` holds — a '
                                'condition on the SOURCE table: rows already in the destination are not looked at when it is false', csc.loc)
            if not conds:
                ctx.finding(f'c/flag/{fl}/unconditional', f'check_schema_compatibility: no condition found for {fl} (rule needs re-derivation)', csc.loc)
    gate = {EX + 'insert::constraints::enforce_primary_key_constraint': 'validate_primary_key',
            EX + 'insert::constraints::enforce_unique_constraints': 'validate_unique',
            EX + 'insert::constraints::enforce_check_constraints': 'validate_check',
            EX + 'insert::foreign_keys::validate_foreign_key_constraints': 'validate_foreign_keys'}
    bsym = Sym(bt)
    blh = loop_headers(bt)
    bhdr = {sw for (sw, _n) in blh.values()}
    for i, t in bt.calls():
        cn = callee_name(t)
        if cn in gate:
            conds = [shared.switch_condition(bt, sblk, bsym) for sblk in shared.deciding_switches(bt, i) if sblk not in bhdr]
            conds = [c for c in conds if not c.startswith('discr(branch(')]      # `?` of earlier fallible calls
            ctx.instance(f'c/gate/{gate[cn]}', {'rule': 'C10.c', 'validator': cn.rsplit('::', 1)[1], 'decided_by': conds})
            extra = [c for c in conds if not c.endswith('.' + gate[cn])]
            if extra or not conds:
                ctx.finding(f'c/gate/{gate[cn]}', f'execute_bulk_transfer: {cn.rsplit("::",1)[1]} is decided by {conds} — expected exactly '
                            f'compat_result.{gate[cn]}', f'{bt.file}:{t["l"]}')

    # ---------------------------------------------------------------- (d) (e) (f) shared rules
    VALMOD = re.compile(r"^vibesql_executor::(insert::constraints::|insert::row_validator::RowValidator::<'a>::validate_(primary_key|unique)|"
                        r"update::constraints::|insert::replace::|insert::duplicate_key_update::)")
    shared.hash_key_rule(ctx, 'C10.d', lambda f: bool(VALMOD.match(f.nice)), exceptions=shared.PREEXTRACTED, floor=6)
    shared.key_order_rule(ctx, 'C10.d2')
    shared.aligned_rule(ctx, 'C10.e', lambda f: f.nice.startswith('vibesql_executor::insert::') or f.nice.startswith('vibesql_executor::update::constraints'), floor=1)
    batch_uniqueness_rule(ctx)
    filtered_enumerate_rule(ctx)
    unique_index_creation_rule(ctx)
    alter_validates_existing_rows_rule(ctx)
    modify_column_not_null_rule(ctx)
    assignments_validated_rule(ctx)
    shared.quantifier_rule(ctx, 'C10.f', lambda f: f.nice.startswith('vibesql_storage::table::') or f.nice.startswith('vibesql_executor::insert::')
                           or f.nice.startswith('vibesql_executor::update::constraints'), control_floor=2)


# ---------------------------------------------------------------- (g) batch-blind uniqueness validation
UNIQ_VALIDATORS = [
    (re.compile(r"update::constraints::ConstraintValidator::<'a>::validate_row$"), {'pk', 'unique'}),
    (re.compile(r"update::constraints::ConstraintValidator::<'a>::validate_unique_indexes$"), {'index'}),
    (re.compile(r"insert::row_validator::RowValidator::<'a>::validate$"), {'pk', 'unique', 'index'}),
    (re.compile(r"index_manager::IndexManager::check_unique_constraints_for_insert$"), {'index'}),
]
MUTATION = re.compile(r"(table::Table::(insert|update_row\w*)|Database::(insert_row\w*|insert_rows_batch|update_row\w*))$")
STORAGE_SITES = re.compile(r"Database::(insert_rows_batch|insert_row)$")       # storage entry points the executor may delegate unique indexes to
SOURCE_READER = {'pk': re.compile(r'::get_primary_key_indices$'), 'unique': re.compile(r'::get_unique_constraint_indices$')}
PUSH_TOKEN = {'pk': 'primary_key', 'unique': 'unique_keys', 'index': 'index'}


def _batch_callee_covers(prog, cg, h, depth=3):
    """key sources for which function h (and what it calls, same crate) is a set-based duplicate detector"""
    from ..engine.symexpr import Sym
    from . import shared
    seen, work, out, has_set = set(), [(h, 0)], set(), False
    while work:
        f, d = work.pop()
        if f.path in seen:
            continue
        seen.add(f.path)
        s = None
        for i, t in f.calls():
            cn = callee_name(t) or ''
            if re.search(r'HashSet<.*>::insert$|hash::set::HashSet<.*>::insert|HashSet::<.*>::insert$', cn):
                has_set = True
            for src, rx in SOURCE_READER.items():
                if rx.search(cn):
                    out.add(src)
            if d < depth:
                for c in prog.by_nice.get(cn, []):
                    if c.unit == f.unit and not shared.is_test(c):
                        work.append((c, d + 1))
        for bi, b in enumerate(f.blocks):
            if b['t']['k'] == 'switch':
                s = s or Sym(f)
                if re.search(r'\.unique\b', shared.switch_condition(f, bi, s)):
                    out.add('index')
        for c in prog.children(f):
            work.append((c, d))
    return out if has_set else set()


def _acc_root(f, defs, op):
    """named local a (reference) operand refers to, through borrows, moves and v[i] (IndexMut / DerefMut)"""
    from ..engine.cfg import op_place
    p = op_place(op)
    for _ in range(12):
        if p is None:
            return None
        l = p[0]
        if l in f.names:
            return l
        ds = defs.get(l, [])
        if len(ds) != 1:
            return None
        kind, v = ds[0][1], ds[0][2]
        if kind == 'assign' and v['r'] == 'ref':
            p = v['p']
        elif kind == 'assign' and v['r'] in ('use', 'cast'):
            p = op_place(v['a'])
        elif kind == 'call' and re.search(r'::(index_mut|index|deref_mut|deref)$', callee_name(v) or '') and v['args']:
            p = op_place(v['args'][0])
        else:
            return None
    return None


def batch_uniqueness_rule(ctx):
    from ..engine.symexpr import Sym
    from ..engine.cfg import cfg, defs_of
    from ..engine.paths import search
    from . import shared
    prog = ctx.prog
    ctx.rule('C10.g', 'a per-row uniqueness validator called in a loop that applies no row: each key source it answers for is covered by an accumulator filled in the loop and '
             'handed to the validator, by a set-based batch check behind the loop that dominates every mutation, or (unique indexes, executor) by delegation to the storage '
             'entry points, which are sites of this rule themselves')
    cg = CallGraph(prog)
    nsites = 0
    for f in prog.fns.values():
        if f.unit not in ('vibesql_executor', 'vibesql_storage') or shared.is_test(f):
            continue
        sites = []
        for i, t in f.calls():
            cn = callee_name(t) or ''
            for rx, srcs in UNIQ_VALIDATORS:
                if rx.search(cn):
                    sites.append((i, t, cn, srcs))
        if not sites:
            continue
        g = cfg(f)
        s = Sym(f)
        defs = defs_of(f)
        muts = [(j, callee_name(t2) or '') for j, t2 in f.calls() if MUTATION.search(callee_name(t2) or '')]
        for i, t, cn, srcs in sites:
            comp = next((set(c) for c in g.sccs() if i in c and len(c) > 1), None)
            if comp is None or any(j in comp for j, _n in muts):
                continue                                  # single row, or rows applied one by one inside the loop (sequential)
            nsites += 1
            covered = {}
            after_loop, loop_exits = set(), []
            for b0 in comp:
                for x in g.succ[b0]:
                    if x not in comp and not f.blocks[x]['t'].get('cleanup'):
                        after_loop |= shared._forward_reach(g, x)
                        loop_exits.append(x)
            # (i) accumulators: pushed in the loop, handed by reference to a call in the loop
            for j, t2 in f.calls():
                c2 = callee_name(t2) or ''
                if j in comp and re.search(r'Vec<.*>::push$|Vec::<.*>::push$', c2) and len(t2['args']) > 1:
                    root = _acc_root(f, defs, t2['args'][0])
                    val = s.op(t2['args'][1])
                    if root is None:
                        continue
                    handed = any(k in comp and k != j and not re.search(r'::(push|index_mut)$', callee_name(t3) or '')
                                 and any(_acc_root(f, defs, a) == root for a in t3['args']) for k, t3 in f.calls())
                    for src in srcs:
                        if handed and PUSH_TOKEN[src] in val:
                            covered[src] = f'accumulator {f.names.get(root)}'
            # (ii) batch check behind the loop
            for j, t2 in f.calls():
                if j in comp or not muts or j not in after_loop:
                    continue
                # whenever the validating loop has run, the batch check runs before any mutation
                reached, _ = search(f, loop_exits, {j}, loop_model=False)
                if any(m in reached for m, _n in muts):
                    continue
                for h in prog.by_nice.get(callee_name(t2) or '', []):
                    if h.unit == f.unit:
                        for src in _batch_callee_covers(prog, cg, h) & srcs:
                            covered.setdefault(src, f'batch check {h.nice.rsplit("::", 1)[1]}')
            # (iii) unique indexes delegated to the storage entry points
            if 'index' in srcs and 'index' not in covered and f.unit == 'vibesql_executor' and muts and all(STORAGE_SITES.search(n) for _j, n in muts):
                covered['index'] = 'delegated to ' + ' / '.join(sorted({n.rsplit('::', 1)[1] for _j, n in muts}))
            short = re.sub(r"<impl [^>]*>::", '', f.nice).rsplit('::', 1)[-1]
            vshort = cn.rsplit('::', 1)[-1]
            ctx.instance(f'g/{short}/{vshort}', {'rule': 'C10.g', 'fn': f.nice, 'loc': f'{f.file}:{t["l"]}', 'validator': vshort, 'sources': sorted(srcs),
                                                 'covered_by': covered})
            for src in sorted(srcs - set(covered)):
                what = {'pk': 'PRIMARY KEY', 'unique': 'UNIQUE constraints', 'index': 'unique indexes'}[src]
                ctx.finding(f'g/{short}/{vshort}/{src}', f'{f.nice} validates the rows of one statement one by one with {vshort} against the table as it was before the statement '
                            f'and applies them afterwards; nothing compares the rows with each other for {what}: two rows of the same statement that receive the same key are both '
                            'stored (UPDATE t SET u = 7 over two rows; INSERT .. VALUES (5,1),(5,2) under CREATE UNIQUE INDEX)', f'{f.file}:{t["l"]}')
    ctx.floor('C10.g validate-then-apply sites', nsites, 4)


def unique_index_creation_rule(ctx):
    from ..engine.symexpr import Sym
    from ..engine.cfg import cfg
    from ..engine.paths import exit_classes
    from . import shared
    prog = ctx.prog
    ctx.rule('C10.h', 'IndexManager::create_index: a switch on the parameter `unique` dominates self.indexes.insert; on its true side a HashSet::insert inside a loop decides '
             'an error exit (duplicate among the existing rows) before the index is registered')
    fs = [f for f in prog.fns.values() if f.unit == 'vibesql_storage' and re.search(r'index_maintenance::<impl .*IndexManager>::create_index$', f.nice) and not shared.is_test(f)]
    ctx.require(len(fs) == 1, 'IndexManager::create_index (index_maintenance) not found')
    f = fs[0]
    g = cfg(f)
    s = Sym(f)
    regs = [i for i, t in f.calls() if re.search(r'HashMap<.*>::insert$|HashMap::<.*>::insert$', callee_name(t) or '') and 'self.indexes' in s.op(t['args'][0])]
    ctx.require(regs, 'create_index: self.indexes.insert not found')
    err, _ok = exit_classes(f)
    ok = False
    detail = {}
    for bi, b in enumerate(f.blocks):
        if b['t']['k'] != 'switch' or shared.switch_condition(f, bi, s) != 'unique':
            continue
        if not all(g.dominates(bi, r) for r in regs):
            continue
        detail['unique_test_dominates_registration'] = True
        for j, t in f.calls():
            if not re.search(r'HashSet<.*>::insert$|HashSet::<.*>::insert$', callee_name(t) or ''):
                continue
            in_loop = any(j in c and len(c) > 1 for c in g.sccs())
            conds = {c: v for c, v in shared.deciding_conditions(f, j, s)}
            on_true_side = conds.get('unique') not in (None, '0')
            before = all(not g.dominates(r, j) for r in regs) and all(j not in shared._forward_reach(g, r) for r in regs)
            # the "already present" answer (false) reaches an error exit without passing the registration
            nxt = t.get('to')
            errs = set()
            if nxt is not None:
                reach = shared._forward_reach(g, nxt)
                errs = {e for e in err if e in reach}
            detail.update(set_insert_in_loop=in_loop, on_unique_side=on_true_side, before_registration=before, decides_error_exit=bool(errs))
            if in_loop and on_true_side and before and errs:
                ok = True
    ctx.instance('h/create_index', dict(rule='C10.h', fn=f.nice, loc=f.loc, ok=ok, **detail))
    if not ok:
        ctx.finding('h/create_index', 'IndexManager::create_index registers a UNIQUE index without looking for keys that the existing rows share: CREATE UNIQUE INDEX over a column '
                    'with duplicates succeeds and the table violates its unique index from then on (INSERT (1,1),(1,2); CREATE UNIQUE INDEX u ON t(a) -> OK)', f.loc)


def alter_validates_existing_rows_rule(ctx):
    from ..engine.symexpr import Sym
    from ..engine.cfg import cfg
    from ..engine.paths import exit_classes, search
    from ..engine.tables import enum_switches, arm_region
    from . import shared
    prog = ctx.prog
    ctx.rule('C10.i', 'execute_add_constraint: per installing arm a Table::scan (direct or in a callee) dominates the installation and reaches an error exit that avoids it; '
             'execute_add_column: an error exit decided by column_def.nullable and row_count precedes TableSchema::add_column')
    f = ctx.fn(EX + 'alter::constraints::execute_add_constraint')
    g = cfg(f)
    s = Sym(f)
    err, _ok = exit_classes(f)

    def scans(t, depth=0):
        cn = callee_name(t) or ''
        if cn.endswith('table::Table::scan'):
            return True
        if depth < 2:
            for h in prog.by_nice.get(cn, []):
                if h.unit == 'vibesql_executor' and not shared.is_test(h):
                    for hh in [h] + prog.children(h):
                        if any(scans(t2, depth + 1) for _i, t2 in hh.calls()):
                            return True
        return False
    INSTALL = {'Unique': 'add_unique_constraint', 'Check': 'add_check_constraint', 'ForeignKey': 'add_foreign_key'}
    sws = enum_switches(prog, f, 'vibesql_ast::ddl::table::TableConstraintKind')
    ctx.require(sws, 'execute_add_constraint: match on TableConstraintKind not found')
    narms = 0
    for sw in sws:
        for vname in ('PrimaryKey', 'Unique', 'Check', 'ForeignKey'):
            tb = sw['arms'].get(vname)
            if tb is None:
                continue
            region = set(arm_region(f, tb))
            installers = []
            for b in region:
                t = f.blocks[b]['t']
                if vname in INSTALL and t['k'] == 'call' and (callee_name(t) or '').endswith('TableSchema::' + INSTALL[vname]):
                    installers.append(b)
                if vname == 'PrimaryKey':
                    for st in f.blocks[b]['s']:
                        if 'd' in st and any(isinstance(e, str) and e == '.primary_key' for e in st['d'][1]):
                            installers.append(b)
            if not installers:
                continue
            narms += 1
            ok = True
            for ib in installers:
                good = False
                for b in region:
                    t = f.blocks[b]['t']
                    if t['k'] == 'call' and b != ib and g.dominates(b, ib) and scans(t):
                        reached, _ = search(f, [b], {ib}, loop_model=False)
                        if reached & err:
                            good = True
                ok = ok and good
            ctx.instance(f'i/add_constraint/{vname}', {'rule': 'C10.i', 'arm': vname, 'installers': len(installers), 'existing_rows_validated': ok})
            if not ok:
                ctx.finding(f'i/add_constraint/{vname}', f'ALTER TABLE ADD {vname} installs the constraint without looking at the rows already in the table: a table with '
                            'duplicates / NULL keys / violating or orphan rows accepts the constraint and violates it from then on (INSERT (1,1),(1,2); ALTER TABLE t ADD '
                            'CONSTRAINT u UNIQUE (a) -> OK)', f'{f.file}:{f.blocks[installers[0]]["t"]["l"]}')
    ctx.floor('C10.i installing arms of execute_add_constraint', narms, 4)

    ac = ctx.fn(EX + 'alter::columns::execute_add_column')
    ga = cfg(ac)
    sa = Sym(ac)
    adds = [i for i, t in ac.calls() if (callee_name(t) or '').endswith('TableSchema::add_column')]
    ctx.require(adds, 'execute_add_column: TableSchema::add_column not found')
    erra, _ = exit_classes(ac)
    okc = False
    for e in erra:
        conds = shared.deciding_conditions(ac, e, sa)
        if any('column_def.nullable' in c for c, _v in conds) and any('row_count(' in c for c, _v in conds) and all(not ga.dominates(a, e) for a in adds):
            okc = True
    ctx.instance('i/add_column/not-null', {'rule': 'C10.i', 'rejects_not_null_without_value_for_existing_rows': okc})
    if not okc:
        ctx.finding('i/add_column/not-null', 'ALTER TABLE ADD COLUMN c T NOT NULL on a table with rows fills the new NOT NULL column with NULL (no error exit decided by '
                    'column_def.nullable and the row count before add_column)', ac.loc)


FILTERS = re.compile(r'\b(flatten|filter|filter_map|flat_map|skip|skip_while|take_while|step_by)\(')


def filtered_enumerate_rule(ctx):
    from ..engine.symexpr import Sym
    from . import shared
    prog = ctx.prog
    ctx.rule("C10.e'", 'constraint code (executor insert:: / update::constraints, storage table::indexes): no Index::index / index_mut / get / get_mut whose index expression is the '
             'counter of an enumerate() whose receiver contains flatten / filter / filter_map / flat_map / skip / skip_while / take_while / step_by')
    nenum = 0
    for f in prog.fns.values():
        if shared.is_test(f) or not (f.nice.startswith('vibesql_executor::insert::') or f.nice.startswith('vibesql_executor::update::constraints')
                                     or f.nice.startswith('vibesql_storage::table::indexes')):
            continue
        s = None
        for i, t in f.calls():
            cn = callee_name(t) or ''
            if cn.endswith('Iterator::enumerate'):
                nenum += 1
            if cn.rsplit('::', 1)[-1].split('<')[0] not in ('index', 'index_mut', 'get', 'get_mut') or len(t['args']) < 2:
                continue
            s = s or Sym(f)
            idx = s.op(t['args'][1])
            m = re.search(r'enumerate\((.*)\)\)?@Some\.0\.0', idx)
            if not m:
                continue
            bad = FILTERS.search(m.group(1))
            short = re.sub(r"<impl [^>]*>::", '', f.nice).rsplit('::', 1)[-1]
            ctx.instance(f"e'/{short}@{t['l']}", {'rule': "C10.e'", 'fn': f.nice, 'loc': f'{f.file}:{t["l"]}', 'counter_of': m.group(1)[:100], 'unfiltered': not bad})
            if bad:
                ctx.finding(f"e'/{short}/{bad.group(1)}", f'{f.nice} indexes a per-constraint collection with the counter of enumerate() taken behind {bad.group(1)}(): the counter numbers '
                            'the surviving elements, so after a skipped element (a UNIQUE key with a NULL) every later constraint is recorded one slot too low and duplicates '
                            'within one statement are missed', f'{f.file}:{t["l"]}')
    ctx.floor("C10.e' enumerate() calls in constraint code", nenum, 4)


def assignments_validated_rule(ctx):
    from ..engine.symexpr import Sym
    from ..engine.cfg import cfg
    from ..engine.paths import search, loop_headers
    from . import shared
    prog = ctx.prog
    ctx.rule("C10.b'", 'executor functions that apply assignments (iterate a slice of vibesql_ast Assignment, or call ValueUpdater::apply_assignments) and call Table::update_row*: '
             'no path from the end of the computation to the write avoids ConstraintValidator::validate_row / RowValidator::validate')
    VALID = re.compile(r"(update::constraints::ConstraintValidator::<'a>::validate_row|insert::row_validator::RowValidator::<'a>::validate)$")
    n = 0
    for f in prog.fns.values():
        if f.unit != 'vibesql_executor' or shared.is_test(f) or f.is_closure():
            continue
        writes = [i for i, t in f.calls() if re.search(r'table::Table::update_row\w*$', callee_name(t) or '')]
        if not writes:
            continue
        s = Sym(f)
        g = cfg(f)
        starts = []
        for i, t in f.calls():
            cn = callee_name(t) or ''
            if cn.endswith('ValueUpdater::<\'a>::apply_assignments') or cn.endswith('apply_assignments'):
                if t.get('to') is not None:
                    starts.append(t['to'])
        for h, (sw, none_t) in loop_headers(f).items():
            it = s.op(f.blocks[h]['t']['args'][0]) if f.blocks[h]['t'].get('args') else ''
            if re.search(r'\bassignments\b', it):
                starts.append(none_t)
        if not starts:
            continue
        n += 1
        valid = {i for i, t in f.calls() if VALID.search(callee_name(t) or '')}
        reached, _ = search(f, starts, valid, loop_model=False)
        bad = [w for w in writes if w in reached]
        short = re.sub(r"<impl [^>]*>::", '', f.nice).rsplit('::', 1)[-1]
        ctx.instance(f"b'/{short}", {'rule': "C10.b'", 'fn': f.nice, 'loc': f.loc, 'validators_between': len(valid), 'write_reachable_without_validation': bool(bad)})
        if bad:
            ctx.finding(f"b'/{short}", f'{f.nice} computes a row from assignments and writes it (Table::update_row) without validating the computed row: INSERT .. ON DUPLICATE KEY '
                        'UPDATE u = 2 stores a duplicate UNIQUE / PRIMARY KEY value (the row that was validated is the one INSERT proposed, not the one that is written)',
                        f'{f.file}:{f.blocks[bad[0]]["t"]["l"]}')
    ctx.floor("C10.b' functions that apply assignments and write a row", n, 2)


def modify_column_not_null_rule(ctx):
    from ..engine.symexpr import Sym
    from ..engine.cfg import cfg
    from ..engine.paths import exit_classes
    from . import shared
    ctx.rule('C10.i (modify)', 'execute_modify_column / execute_change_column: an error exit decided by new_column_def.nullable that is not behind the write of the nullable flag')
    for name in ('execute_modify_column', 'execute_change_column'):
        f = ctx.fn(EX + 'alter::columns::' + name)
        s = Sym(f)
        g = cfg(f)
        err, _ = exit_classes(f)
        writes = [bi for bi, b in enumerate(f.blocks) for st in b['s'] if 'd' in st and st['d'][1] and st['d'][1][-1] == '.nullable']
        ok = False
        for e in err:
            conds = shared.deciding_conditions(f, e, s)
            if any('new_column_def.nullable' in c for c, _v in conds) and all(not g.dominates(w, e) for w in writes):
                ok = True
        ctx.instance(f'i/{name}/not-null', {'rule': 'C10.i', 'fn': f.nice, 'nullable_flag_writes': len(writes), 'rejects_existing_nulls': ok})
        if not ok:
            ctx.finding(f'i/{name}/not-null', f'ALTER TABLE .. {"MODIFY" if "modify" in name else "CHANGE"} COLUMN c T NOT NULL makes the column NOT NULL without looking for NULLs in the '
                        'existing rows: the table then holds NULL in a NOT NULL column', f.loc)
