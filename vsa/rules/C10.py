"""C10 Declared integrity constraints hold after every statement — structural clauses.

Decides: (a) every PRIMARY KEY / UNIQUE uniqueness validator, once it has fetched the table, can
only answer Ok after looking at the table's keys (hash index lookup, unique-index data or scan):
no shortcut path; (b) every insert/update mutation site reachable from INSERT/UPDATE entry points
is preceded on every path by the row validators (NOT NULL/PK/UNIQUE/CHECK) of its statement.
(c) in the bulk INSERT ... SELECT path the switch that turns a validator
on depends on the destination schema only, and each validator call is decided by its own flag only;
(d) hash-index probes of the uniqueness validators are keyed in the index's column order;
(e) per-constraint vectors consumed by position are filled on every iteration (REPLACE);
(f) "which constraint's index is affected by this UPDATE" is decided existentially.
Does NOT decide that the hash indexes are right (C15) or CHECK expression semantics."""
import re
from ..engine.callgraph import CallGraph
from ..engine.paths import Precede, ok_exit_reachable, success_starts
from ..engine.facts import callee_name
from . import matrix as M

UNITS = M.EXECUTOR_UNITS
EX = 'vibesql_executor::'
VALIDATOR_RX = re.compile(r'^vibesql_executor::(insert::constraints::enforce_(primary_key_constraint|unique_constraints|unique_indexes)|'
                          r"insert::row_validator::RowValidator::<'a>::validate_(primary_key_uniqueness|unique_constraints)|"
                          r"update::constraints::ConstraintValidator::<'a>::validate_(primary_key|unique_constraints|unique_indexes))$")
FETCH = {M.D + 'get_table'}
LOOKUPS = {M.T + 'primary_key_index', M.T + 'unique_indexes', M.T + 'scan', M.D + 'get_index_data'}

ROW_VALIDATORS = {
    EX + "insert::row_validator::RowValidator::<'a>::validate",
    EX + 'insert::constraints::enforce_primary_key_constraint',
    EX + "update::constraints::ConstraintValidator::<'a>::validate_row",
}
# mutation sites that change rows without running the row validators (reviewed)
SITE_EXCEPTIONS = {
    (EX + 'insert::execution::execute_insert_internal', M.T + 'delete_where'): 'compensating delete of the row just inserted',
    (EX + 'delete::integrity::set_null', M.T + 'update_row'):
        'writes NULL into foreign-key columns only: NULL cannot violate UNIQUE or CHECK, and NOT NULL / PRIMARY KEY columns are '
        'rejected by Table::update_row itself (observed: NOT NULL constraint violation)',
    (EX + 'insert::bulk_transfer::execute_bulk_transfer', M.D + 'insert_row'):
        'validates per constraint kind present (enforce_primary_key/unique/check + foreign keys, each under an `if` on the schema); '
        'presence of all four calls is checked separately below',
}
BULK_REQUIRED = {EX + 'insert::constraints::enforce_primary_key_constraint', EX + 'insert::constraints::enforce_unique_constraints',
                 EX + 'insert::constraints::enforce_check_constraints', EX + 'insert::foreign_keys::validate_foreign_key_constraints'}


def run(ctx):
    prog = ctx.prog
    cg = CallGraph(prog)
    # ---------------------------------------------------------------- (a) no shortcut in uniqueness validators
    ctx.rule('C10.a', 'in every PK/UNIQUE uniqueness validator, after Database::get_table succeeded (or from entry when the '
             'validator receives the table), no Ok return is reachable without a call to primary_key_index | unique_indexes | scan | '
             'get_index_data')
    vals = [f for f in prog.fns.values() if VALIDATOR_RX.search(f.nice)]
    ctx.floor('uniqueness validator functions', len(vals), 7)
    for f in sorted(vals, key=lambda f: f.nice):
        look = {i for i, t in f.calls() if callee_name(t) in LOOKUPS}
        fetch = [i for i, t in f.calls() if callee_name(t) in FETCH]
        ctx.instance(f'a/{f.nice}', {'rule': 'C10.a', 'fn': f.nice, 'loc': f.loc, 'fetches': len(fetch), 'lookups': len(look)})
        if not look:
            ctx.finding(f'a/{f.nice}/no-lookup', f'{f.nice} no longer looks at any key structure of the table', f.loc)
            continue
        starts = []
        for b in fetch:
            starts += success_starts(f, b)
        if not fetch:
            continue        # table handed in by the caller: every path is examined through the lookups it makes (floor above)
        w = ok_exit_reachable(f, starts, look, loop_model=False)
        if w is not None:
            lines = [f.blocks[b]['t']['l'] for b in w][:6]
            ctx.finding(f'a/{f.nice}/shortcut', f'{f.nice} can return Ok after fetching the table without consulting its keys '
                        f'(path through lines {lines})', f.loc, {'path_blocks': w})

    # ---------------------------------------------------------------- (b) validation precedes mutation
    ctx.rule('C10.b', 'every Table::insert|update_row* / Database::insert_row* call reachable from InsertExecutor/UpdateExecutor is '
             'preceded on every path from the entry points by RowValidator::validate | enforce_primary_key_constraint | '
             'ConstraintValidator::validate_row')
    entries = M.dml_entries(ctx, ('insert', 'update'))
    reach = cg.reach([f.path for fs in entries.values() for f in fs])
    scope = [f for f in prog.fns.values() if f.unit == 'vibesql_executor' and f.path in reach]
    roots = lambda f: not [c for c in cg.inn.get(f.path, ()) if c in reach]
    MUT = M.ROW_INSERT | M.ROW_UPDATE | M.DB_INSERT

    def is_site(t, fn):
        cn = callee_name(t)
        return cn in MUT and (fn.nice, cn) not in SITE_EXCEPTIONS
    pr = Precede(prog, cg, is_site, lambda t, fn: callee_name(t) in ROW_VALIDATORS, scope, g_summaries=False)
    n = 0
    for f in scope:
        for i, t in f.calls():
            if callee_name(t) in MUT:
                n += 1
                ctx.instance(f'b/{f.nice}/{callee_name(t)}', {'rule': 'C10.b', 'fn': f.nice, 'loc': f'{f.file}:{t["l"]}', 'mutation': callee_name(t)})
    ctx.floor('C10.b insert/update mutation sites reachable from INSERT/UPDATE', n, 6)
    for k, why in SITE_EXCEPTIONS.items():
        ctx.exempt(f'b/{k[0]}/{k[1]}', why)
    bt = ctx.fn(EX + 'insert::bulk_transfer::execute_bulk_transfer')
    have = {callee_name(t) for _, t in bt.calls()}
    ctx.instance('b/bulk_transfer/validators')
    for r in sorted(BULK_REQUIRED - have):
        ctx.finding(f'b/bulk_transfer/missing/{r}', f'execute_bulk_transfer no longer calls {r.rsplit("::",1)[1]} before inserting', bt.loc)
    for (ofn, ocal), chain in sorted(M.shortest_escapes(pr, roots).items()):
        f = prog.by_nice[ofn][0]
        ctx.finding(f'b/{ofn}/{ocal}', f'{ofn}: rows are written by {ocal.rsplit("::",1)[1]} with no row validation before it on some '
                    f'path ({M.chain_str(chain)})', f.loc, {'chain': chain})


    # ---------------------------------------------------------------- (c) gating flags of the bulk-transfer path
    from . import shared
    from ..engine.symexpr import Sym
    from ..engine.cfg import cfg
    from ..engine.paths import loop_headers
    ctx.rule('C10.c', 'check_schema_compatibility: whether validate_unique / validate_primary_key / validate_foreign_keys / validate_check is '
             'set depends only on the destination schema (no condition mentioning the source decides it); execute_bulk_transfer: each '
             'validator call is decided by its own compat_result.validate_* flag and nothing else')
    csc = ctx.fn(EX + 'insert::bulk_transfer::check_schema_compatibility')
    sym = Sym(csc)
    src_name = csc.names.get(2)
    flags = {}
    for bi, b in enumerate(csc.blocks):
        if b['t'].get('cleanup'):
            continue
        for st in b['s']:
            if 'd' in st and st['d'][1] and st['d'][1][-1].startswith('.validate_') and st['v']['r'] == 'use':
                from ..engine.cfg import op_const
                if op_const(st['v']['a']) == 1:
                    flags.setdefault(st['d'][1][-1][1:], []).append(bi)

    def guard_region(reach):
        # early exits that mark the schemas incompatible: the bulk path is not taken at all
        for rb in reach:
            for st in csc.blocks[rb]['s']:
                if 'd' in st and st['d'][1] and st['d'][1][-1] == '.compatible':
                    return True
        return False
    ctx.floor('C10.c validate_* flags set in check_schema_compatibility', len(flags), 4)
    lh = loop_headers(csc)
    hdr_sw = {sw for (sw, _n) in lh.values()}
    for fl, blocks in sorted(flags.items()):
        for bi in blocks:
            conds = [shared.switch_condition(csc, sblk, sym) for sblk in shared.deciding_switches(csc, bi, guard_region) if sblk not in hdr_sw]
            ctx.instance(f'c/flag/{fl}', {'rule': 'C10.c', 'flag': fl, 'decided_by': [c[:120] for c in conds]})
            for c in conds:
                if src_name and re.search(r'(?<![A-Za-z_0-9])' + re.escape(src_name) + r'(?![A-Za-z_0-9])', c):
                    ctx.finding(f'c/flag/{fl}/depends-on-source', f'check_schema_compatibility: {fl} is switched on only if `{c[:140]}` holds — a '
                                'condition on the SOURCE table: rows already in the destination are not looked at when it is false', csc.loc)
            if not conds:
                ctx.finding(f'c/flag/{fl}/unconditional', f'check_schema_compatibility: no condition found for {fl} (rule needs re-derivation)', csc.loc)
    gate = {EX + 'insert::constraints::enforce_primary_key_constraint': 'validate_primary_key',
            EX + 'insert::constraints::enforce_unique_constraints': 'validate_unique',
            EX + 'insert::constraints::enforce_check_constraints': 'validate_check',
            EX + 'insert::foreign_keys::validate_foreign_key_constraints': 'validate_foreign_keys'}
    bsym = Sym(bt)
    blh = loop_headers(bt)
    bhdr = {sw for (sw, _n) in blh.values()}
    for i, t in bt.calls():
        cn = callee_name(t)
        if cn in gate:
            conds = [shared.switch_condition(bt, sblk, bsym) for sblk in shared.deciding_switches(bt, i) if sblk not in bhdr]
            conds = [c for c in conds if not c.startswith('discr(branch(')]      # `?` of earlier fallible calls
            ctx.instance(f'c/gate/{gate[cn]}', {'rule': 'C10.c', 'validator': cn.rsplit('::', 1)[1], 'decided_by': conds})
            extra = [c for c in conds if not c.endswith('.' + gate[cn])]
            if extra or not conds:
                ctx.finding(f'c/gate/{gate[cn]}', f'execute_bulk_transfer: {cn.rsplit("::",1)[1]} is decided by {conds} — expected exactly '
                            f'compat_result.{gate[cn]}', f'{bt.file}:{t["l"]}')

    # ---------------------------------------------------------------- (d) (e) (f) shared rules
    VALMOD = re.compile(r"^vibesql_executor::(insert::constraints::|insert::row_validator::RowValidator::<'a>::validate_(primary_key|unique)|"
                        r"update::constraints::|insert::replace::|insert::duplicate_key_update::)")
    shared.hash_key_rule(ctx, 'C10.d', lambda f: bool(VALMOD.match(f.nice)), exceptions=shared.PREEXTRACTED, floor=6)
    shared.key_order_rule(ctx, 'C10.d2')
    shared.aligned_rule(ctx, 'C10.e', lambda f: f.nice.startswith('vibesql_executor::insert::') or f.nice.startswith('vibesql_executor::update::constraints'), floor=1)
    shared.quantifier_rule(ctx, 'C10.f', lambda f: f.nice.startswith('vibesql_storage::table::') or f.nice.startswith('vibesql_executor::insert::')
                           or f.nice.startswith('vibesql_executor::update::constraints'), control_floor=2)
