"""C10 Declared integrity constraints hold after every statement — structural clauses.

Decides: (a) every PRIMARY KEY / UNIQUE uniqueness validator, once it has fetched the table, can
only answer Ok after looking at the table's keys (hash index lookup, unique-index data or scan):
no shortcut path; (b) every insert/update mutation site reachable from INSERT/UPDATE entry points
is preceded on every path by the row validators (NOT NULL/PK/UNIQUE/CHECK) of its statement.
Does NOT decide that the hash indexes are right (C15) or CHECK expression semantics."""
import re
from ..engine.callgraph import CallGraph
from ..engine.paths import Precede, ok_exit_reachable, success_starts
from ..engine.facts import callee_name
from . import matrix as M

UNITS = M.EXECUTOR_UNITS
EX = 'vibesql_executor::'
VALIDATOR_RX = re.compile(r'^vibesql_executor::(insert::constraints::enforce_(primary_key_constraint|unique_constraints|unique_indexes)|'
                          r"insert::row_validator::RowValidator::<'a>::validate_(primary_key_uniqueness|unique_constraints)|"
                          r"update::constraints::ConstraintValidator::<'a>::validate_(primary_key|unique_constraints|unique_indexes))$")
FETCH = {M.D + 'get_table'}
LOOKUPS = {M.T + 'primary_key_index', M.T + 'unique_indexes', M.T + 'scan', M.D + 'get_index_data'}

ROW_VALIDATORS = {
    EX + "insert::row_validator::RowValidator::<'a>::validate",
    EX + 'insert::constraints::enforce_primary_key_constraint',
    EX + "update::constraints::ConstraintValidator::<'a>::validate_row",
}
# mutation sites that change rows without running the row validators (reviewed)
SITE_EXCEPTIONS = {
    (EX + 'insert::execution::execute_insert_internal', M.T + 'delete_where'): 'compensating delete of the row just inserted',
    (EX + 'delete::integrity::set_null', M.T + 'update_row'):
        'writes NULL into foreign-key columns only: NULL cannot violate UNIQUE or CHECK, and NOT NULL / PRIMARY KEY columns are '
        'rejected by Table::update_row itself (observed: NOT NULL constraint violation)',
    (EX + 'insert::bulk_transfer::execute_bulk_transfer', M.D + 'insert_row'):
        'validates per constraint kind present (enforce_primary_key/unique/check + foreign keys, each under an `if` on the schema); '
        'presence of all four calls is checked separately below',
}
BULK_REQUIRED = {EX + 'insert::constraints::enforce_primary_key_constraint', EX + 'insert::constraints::enforce_unique_constraints',
                 EX + 'insert::constraints::enforce_check_constraints', EX + 'insert::foreign_keys::validate_foreign_key_constraints'}


def run(ctx):
    prog = ctx.prog
    cg = CallGraph(prog)
    # ---------------------------------------------------------------- (a) no shortcut in uniqueness validators
    ctx.rule('C10.a', 'in every PK/UNIQUE uniqueness validator, after Database::get_table succeeded (or from entry when the '
             'validator receives the table), no Ok return is reachable without a call to primary_key_index | unique_indexes | scan | '
             'get_index_data')
    vals = [f for f in prog.fns.values() if VALIDATOR_RX.search(f.nice)]
    ctx.floor('uniqueness validator functions', len(vals), 7)
    for f in sorted(vals, key=lambda f: f.nice):
        look = {i for i, t in f.calls() if callee_name(t) in LOOKUPS}
        fetch = [i for i, t in f.calls() if callee_name(t) in FETCH]
        ctx.instance(f'a/{f.nice}', {'rule': 'C10.a', 'fn': f.nice, 'loc': f.loc, 'fetches': len(fetch), 'lookups': len(look)})
        if not look:
            ctx.finding(f'a/{f.nice}/no-lookup', f'{f.nice} no longer looks at any key structure of the table', f.loc)
            continue
        starts = []
        for b in fetch:
            starts += success_starts(f, b)
        if not fetch:
            continue        # table handed in by the caller: every path is examined through the lookups it makes (floor above)
        w = ok_exit_reachable(f, starts, look, loop_model=False)
        if w is not None:
            lines = [f.blocks[b]['t']['l'] for b in w][:6]
            ctx.finding(f'a/{f.nice}/shortcut', f'{f.nice} can return Ok after fetching the table without consulting its keys '
                        f'(path through lines {lines})', f.loc, {'path_blocks': w})

    # ---------------------------------------------------------------- (b) validation precedes mutation
    ctx.rule('C10.b', 'every Table::insert|update_row* / Database::insert_row* call reachable from InsertExecutor/UpdateExecutor is '
             'preceded on every path from the entry points by RowValidator::validate | enforce_primary_key_constraint | '
             'ConstraintValidator::validate_row')
    entries = M.dml_entries(ctx, ('insert', 'update'))
    reach = cg.reach([f.path for fs in entries.values() for f in fs])
    scope = [f for f in prog.fns.values() if f.unit == 'vibesql_executor' and f.path in reach]
    roots = lambda f: not [c for c in cg.inn.get(f.path, ()) if c in reach]
    MUT = M.ROW_INSERT | M.ROW_UPDATE | M.DB_INSERT

    def is_site(t, fn):
        cn = callee_name(t)
        return cn in MUT and (fn.nice, cn) not in SITE_EXCEPTIONS
    pr = Precede(prog, cg, is_site, lambda t, fn: callee_name(t) in ROW_VALIDATORS, scope, g_summaries=False)
    n = 0
    for f in scope:
        for i, t in f.calls():
            if callee_name(t) in MUT:
                n += 1
                ctx.instance(f'b/{f.nice}/{callee_name(t)}', {'rule': 'C10.b', 'fn': f.nice, 'loc': f'{f.file}:{t["l"]}', 'mutation': callee_name(t)})
    ctx.floor('C10.b insert/update mutation sites reachable from INSERT/UPDATE', n, 6)
    for k, why in SITE_EXCEPTIONS.items():
        ctx.exempt(f'b/{k[0]}/{k[1]}', why)
    bt = ctx.fn(EX + 'insert::bulk_transfer::execute_bulk_transfer')
    have = {callee_name(t) for _, t in bt.calls()}
    ctx.instance('b/bulk_transfer/validators')
    for r in sorted(BULK_REQUIRED - have):
        ctx.finding(f'b/bulk_transfer/missing/{r}', f'execute_bulk_transfer no longer calls {r.rsplit("::",1)[1]} before inserting', bt.loc)
    for (ofn, ocal), chain in sorted(M.shortest_escapes(pr, roots).items()):
        f = prog.by_nice[ofn][0]
        ctx.finding(f'b/{ofn}/{ocal}', f'{ofn}: rows are written by {ocal.rsplit("::",1)[1]} with no row validation before it on some '
                    f'path ({M.chain_str(chain)})', f.loc, {'chain': chain})
