"""C26 Access control is complete — structural clauses (T2 must-precede, T12 who-may-call, T8).

Decides: (R1) every read of a table's row data in query-side code (select, evaluator, optimizer,
INSERT…SELECT source, SELECT INTO) is preceded on every path from every root by
PrivilegeChecker::check_select; (R2) every other row read in the executor is preceded by the
privilege check of its own statement or sits in a reviewed internal module; (R3) every row
mutation is preceded by a privilege check of a DML/DDL kind; (R4) check_privilege has exactly the
documented bypasses; (R5) only GRANT/REVOKE/role executors call the catalog's privilege mutators.
Does NOT decide has_privilege's lookup or column-level privileges."""
import re
from ..engine.callgraph import CallGraph
from ..engine.paths import Precede
from ..engine.facts import callee_name
from ..engine.cfg import op_const, op_place
from . import matrix as M

UNITS = M.EXECUTOR_UNITS
EX = 'vibesql_executor::'
PC = EX + 'privilege_checker::PrivilegeChecker::'
CHECKS = {PC + n for n in ('check_select', 'check_insert', 'check_update', 'check_delete', 'check_create', 'check_drop', 'check_alter')}
T = M.T
ROW_READS = {T + 'scan', T + 'row_count', T + 'primary_key_index', T + 'unique_indexes',
             M.D + 'get_index_data', M.D + 'get_spatial_index', M.D + 'get_spatial_indexes_for_table'}

QUERY_SIDE = re.compile(r'^vibesql_executor::(select|evaluator|optimizer|select_into|cache|correlation|insert::bulk_transfer|'
                        r'advanced_objects::views|view_ddl|procedural)(::|$)')
# query-side functions whose reads never reach a result row (reviewed)
PLANNING_ONLY = {
    EX + 'select::join::search::cost::<impl vibesql_executor::select::join::search::JoinOrderContext>::extract_cardinalities_with_selectivity':
        'row_count is used as a cardinality estimate for join ordering only',
    EX + 'select::join::search::cost::<impl vibesql_executor::select::join::search::JoinOrderContext>::compute_edge_selectivities':
        'statistics for join ordering only',
}
# query-side reads reviewed as not exposing row data of an unchecked table (site-level exceptions)
R1_EXCEPTIONS = {
    (EX + 'select::executor::index_optimization::spatial::apply_two_phase_filtering', M.D + 'get_spatial_index'):
        'the R-tree yields candidate row ids that only filter rows already produced by the privilege-checked FROM scan',
    (EX + 'select::executor::index_optimization::spatial::try_detect_spatial_predicate', M.D + 'get_spatial_indexes_for_table'):
        'reads spatial index metadata (names/columns) for planning; no row data',
    (EX + 'evaluator::combined::subqueries::try_index_optimized_in_subquery', M.D + 'get_index_data'):
        'candidate, not reproducible: in every tried shape (IN-subquery in WHERE, select list, CASE, UPDATE/DELETE) the gate '
        'can_use_index_for_in_subquery returned false (gdb) and the regular checked subquery path ran; recorded in DESIGN as open',
    (EX + 'evaluator::combined::subqueries::try_index_optimized_in_subquery', T + 'scan'):
        'same site as above (not reproducible; gate returns false in all tried shapes)',
}
# roots whose mutations are not statements of a role (reviewed)
ROOT_EXEMPT = {
    EX + 'transaction::RollbackToSavepointExecutor::execute': 'undoes changes the same session made under its own privileges',
    EX + 'transaction::RollbackExecutor::execute': 'restores the snapshot taken at BEGIN',
}


def run(ctx):
    prog = ctx.prog
    cg = CallGraph(prog)
    scope = [f for f in prog.fns.values() if f.unit == 'vibesql_executor']
    roots = M.roots_pred(cg)
    for n in CHECKS:
        ctx.fn(n)

    def is_read(t, fn):
        return callee_name(t) in ROW_READS

    # ---------------------------------------------------------------- R1 query-side reads need check_select
    ctx.rule('C26.R1', 'every call to Table::scan|row_count|primary_key_index|unique_indexes or Database::get_index_data|spatial '
             'in query-side modules (select, evaluator, optimizer, bulk_transfer, select_into, views, procedural) is preceded by '
             'PrivilegeChecker::check_select on every path from every call-graph root (callers inherit unguarded demands)')
    pr = Precede(prog, cg, lambda t, fn: is_read(t, fn) and QUERY_SIDE.search(fn.nice.split('::{closure')[0]) is not None
                 and fn.nice.split('::{closure')[0] not in PLANNING_ONLY,
                 lambda t, fn: callee_name(t) == PC + 'check_select', scope)
    nq = 0
    for f in scope:
        base = f.nice.split('::{closure')[0]
        if not QUERY_SIDE.search(base):
            continue
        for i, t in f.calls():
            if is_read(t, f):
                nq += 1
                ctx.instance(f'R1/{f.nice}/{callee_name(t)}', {'rule': 'C26.R1', 'fn': f.nice, 'loc': f'{f.file}:{t["l"]}', 'read': callee_name(t)})
                if base in PLANNING_ONLY:
                    ctx.exempt(f'R1/{base}', PLANNING_ONLY[base])
    ctx.floor('C26.R1 row-data read sites in query-side modules', nq, 8)
    for (ofn, ocal), chain in sorted(M.shortest_escapes(pr, roots).items()):
        f = prog.by_nice[ofn][0]
        if (ofn, ocal) in R1_EXCEPTIONS:
            ctx.exempt(f'R1/{ofn}/{ocal}', R1_EXCEPTIONS[(ofn, ocal)])
            continue
        ctx.finding(f'R1/{ofn}/{ocal}', f'{ofn} reads row data ({ocal.rsplit("::",1)[1]}) with no check_select on some path '
                    f'({M.chain_str(chain)})', f.loc, {'chain': chain})

    # ---------------------------------------------------------------- R2 other reads need the statement's own check
    ctx.rule('C26.R2', 'every other row-data read in the executor is preceded by some PrivilegeChecker::check_* of its statement '
             'on every path from every root')
    pr2 = Precede(prog, cg, lambda t, fn: is_read(t, fn) and QUERY_SIDE.search(fn.nice.split('::{closure')[0]) is None,
                  lambda t, fn: callee_name(t) in CHECKS, scope)
    no = 0
    for f in scope:
        if QUERY_SIDE.search(f.nice.split('::{closure')[0]):
            continue
        for i, t in f.calls():
            if is_read(t, f):
                no += 1
                ctx.instance(f'R2/{f.nice}/{callee_name(t)}')
    ctx.floor('C26.R2 row-data read sites in statement-side modules', no, 30)
    for (ofn, ocal), chain in sorted(M.shortest_escapes(pr2, roots).items()):
        f = prog.by_nice[ofn][0]
        ctx.finding(f'R2/{ofn}/{ocal}', f'{ofn} reads row data ({ocal.rsplit("::",1)[1]}) and no privilege check precedes it on some path '
                    f'({M.chain_str(chain)})', f.loc, {'chain': chain})

    # ---------------------------------------------------------------- R3 mutations need a privilege check
    ctx.rule('C26.R3', 'every Table row mutator / Database::insert_row* call in the executor is preceded by a '
             'PrivilegeChecker::check_{insert,update,delete,alter,drop,create} on every path from every root')
    MUT = M.ROW_MUTATORS | M.DB_INSERT
    GW = CHECKS - {PC + 'check_select'}
    pr3 = Precede(prog, cg, lambda t, fn: callee_name(t) in MUT, lambda t, fn: callee_name(t) in GW, scope)
    nm = 0
    for f in scope:
        for i, t in f.calls():
            if callee_name(t) in MUT:
                nm += 1
                ctx.instance(f'R3/{f.nice}/{callee_name(t)}')
    ctx.floor('C26.R3 mutation call sites in the executor', nm, 20)
    esc3 = {}
    for (ef, ofn, ocal, chain) in pr3.escaped(roots):
        k = (ofn, ocal, ef.nice)
        if k not in esc3 or len(chain) < len(esc3[k]):
            esc3[k] = chain
    for (ofn, ocal, root), chain in sorted(esc3.items()):
        f = prog.by_nice[ofn][0]
        key = f'R3/{ofn}/{ocal}/{root}'
        if root in ROOT_EXEMPT:
            ctx.exempt(key, ROOT_EXEMPT[root])
            continue
        ctx.finding(key, f'{ofn}: {ocal.rsplit("::",1)[1]} is reachable from {root} with no privilege check before it '
                    f'({M.chain_str(chain)})', f.loc, {'chain': chain})

    # ---------------------------------------------------------------- R4 check_privilege bypasses
    ctx.rule('C26.R4', 'check_privilege returns Ok only on: security disabled, role ADMIN, role DBA, has_privilege true — '
             'exactly these string constants are compared and has_privilege is consulted')
    cp = ctx.fn(PC + 'check_privilege')
    from ..engine.cfg import string_literals, adt_literals
    consts = string_literals(prog, cp)
    names = {callee_name(t) for _, t in cp.calls()}
    ctx.instance('R4/check_privilege', {'rule': 'C26.R4', 'role_constants': sorted(consts)})
    role_consts = {c for c in consts if c.isupper()}
    if role_consts != {'ADMIN', 'DBA'}:
        ctx.finding('R4/bypass-constants', f'check_privilege compares the role against {sorted(role_consts)} (documented bypasses: ADMIN, DBA)', cp.loc)
    need = {M.D + 'is_security_enabled', M.D + 'get_current_role'}
    hp = [n for n in names if n and n.endswith('::has_privilege')]
    if not need <= names or not hp:
        ctx.finding('R4/structure', f'check_privilege no longer consults is_security_enabled/get_current_role/has_privilege', cp.loc)
    from ..engine.paths import exit_classes
    err, ok = exit_classes(cp)
    nok = sum(1 for b in ok if any('d' in s and s['d'][0] == 0 for s in cp.blocks[b]['s']))
    ctx.extra['check_privilege_ok_exits'] = nok
    if nok > 3:
        ctx.finding('R4/ok-exits', f'check_privilege has {nok} successful exits (documented: security off, admin role, privilege held)', cp.loc)
    # each check_* wrapper forwards to check_privilege with its own privilege type
    for n in CHECKS:
        w = ctx.fn(n)
        cs = [callee_name(t) for _, t in w.calls()]
        ctx.instance(f'R4/{n}')
        if PC + 'check_privilege' not in cs:
            ctx.finding(f'R4/{n}/forward', f'{n} no longer forwards to check_privilege', w.loc)
    # privilege variant used by each wrapper
    PT = 'vibesql_ast::ddl::'
    expect = {'check_select': 'Select', 'check_insert': 'Insert', 'check_update': 'Update', 'check_delete': 'Delete',
              'check_create': 'Create', 'check_drop': 'Delete', 'check_alter': 'Create'}
    for n in CHECKS:
        w = ctx.fn(n)
        variants = adt_literals(prog, w, 'PrivilegeType')
        short = n.rsplit('::', 1)[1]
        if variants != {expect[short]}:
            ctx.finding(f'R4/{n}/variant', f'{short} checks PrivilegeType::{sorted(variants)} instead of {expect[short]}', w.loc)

    # ---------------------------------------------------------------- R5 who may change privileges
    ctx.rule('C26.R5', 'catalog privilege mutators are called only from the GRANT/REVOKE/role executors (and catalog itself)')
    muts = [f for f in prog.fns.values() if f.unit == 'vibesql_catalog' and re.search(r'privileges::.*::(grant_privilege|revoke_privilege|add_grant|remove_grant|add_privilege|remove_privilege)$', f.nice)]
    pm = [f for f in prog.fns.values() if f.unit == 'vibesql_catalog' and 'store::privileges' in f.nice and not f.is_closure()
          and f.argc >= 1 and f.locals[1].startswith('&mut ')]
    ctx.floor('catalog privilege mutators (&mut self methods in store::privileges)', len(pm), 2)
    allowed = re.compile(r'^vibesql_executor::(grant|revoke|role_ddl|drop_table|schema_ddl)::|^vibesql_catalog::|^vibesql_storage::persistence::|^vibesql_executor::persistence')
    for m in pm:
        for c in cg.inn.get(m.path, ()):
            cf = prog.fns[c]
            ctx.instance(f'R5/{m.nice}/{cf.nice}')
            if not allowed.search(cf.nice):
                ctx.finding(f'R5/{m.nice}/{cf.nice}', f'{cf.nice} calls the privilege mutator {m.nice}', cf.loc)
    # ---------------------------------------------------------------- R6 privilege list edits visit every entry
    ctx.rule('C26.R6', 'in the catalog privilege store, an index-driven loop never removes the element at the cursor and then advances '
             'the cursor on the same path (the element shifted into the gap would be skipped: a duplicate grant survives REVOKE)')
    from ..engine.cfg import cfg as _cfg, defs_of as _defs, op_local as _ol
    npf = 0
    for f in prog.fns.values():
        if f.unit != 'vibesql_catalog' or 'store::privileges' not in f.nice:
            continue
        npf += 1
        g = _cfg(f)
        d = _defs(f)
        loops = set()
        for comp in g.sccs():
            loops |= set(comp)
        for i, t in f.calls():
            if i not in loops or callee_name(t) != 'alloc::vec::Vec::<T, A>::remove' or t.get('to') is None:
                continue
            # the index operand, traced to a named cursor local
            l = _ol(t['args'][1]); cur = None
            for _ in range(4):
                if l is None:
                    break
                if l in f.names:
                    cur = l; break
                ds = d.get(l, [])
                if len(ds) != 1 or ds[0][1] != 'assign' or ds[0][2]['r'] not in ('use', 'cast'):
                    break
                l = _ol(ds[0][2]['a'])
            ctx.instance(f'R6/{f.nice}/remove', {'rule': 'C26.R6', 'fn': f.nice, 'cursor': f.names.get(cur)})
            if cur is None:
                continue
            # blocks reachable from the removal without passing a loop back edge
            back = set(g.back_edges())
            seen = set(); st = [t['to']]
            while st:
                b = st.pop()
                if b in seen:
                    continue
                seen.add(b)
                for s2 in g.succ[b]:
                    if (b, s2) not in back:
                        st.append(s2)
            for b in seen & loops:
                for st_ in f.blocks[b]['s']:
                    if 'd' in st_ and st_['v']['r'] == 'bin' and st_['v']['op'] in ('Add', 'AddWithOverflow'):
                        pa = op_place(st_['v']['a'])
                        if pa and pa[0] == cur and op_const(st_['v']['b']) == 1:
                            ctx.finding(f'R6/{f.nice}/remove-then-advance', f'{f.nice}: removes the entry at `{f.names.get(cur)}` and then '
                                        f'increments it on the same path; the next entry is skipped', f'{f.file}:{st_["l"]}')
    ctx.floor('functions of the catalog privilege store', npf, 5)

    # ---------------------------------------------------------------- R7 all privilege checks precede all mutations
    ctx.rule('C26.R7', 'inside one executor function no PrivilegeChecker::check_* call is reachable after a row mutation of the same '
             'function succeeded (a refused statement must change nothing: validate every object first, then mutate)')
    mutating = {f.path for f in prog.fns.values() if f.nice in (M.ROW_MUTATORS | M.DB_INSERT)}
    cut = {f.path for f in prog.fns.values() if f.nice.startswith(EX + 'trigger_execution::TriggerFirer::') or f.nice.startswith(EX + 'procedural::')}
    changed = True
    while changed:
        changed = False
        for pth, outs in cg.out.items():
            if pth not in mutating and pth not in cut and outs & mutating:
                mutating.add(pth); changed = True
    from ..engine.paths import search as _search, success_starts as _ss
    from ..engine.facts import callee_path as _cp
    n7 = 0
    for f in scope:
        if f.path in cut:
            continue
        chk = {i for i, t in f.calls() if callee_name(t) in CHECKS}
        if not chk:
            continue
        for i, t in f.calls():
            if _cp(t) in mutating:
                n7 += 1
                reached, _ = _search(f, _ss(f, i), frozenset(), loop_model=True)
                ctx.instance(f'R7/{f.nice}/{callee_name(t)}')
                if reached & chk:
                    ctx.finding(f'R7/{f.nice}/{callee_name(t)}', f'{f.nice}: a privilege check is still ahead after {callee_name(t).rsplit("::",1)[1]} '
                                f'already changed rows; when it refuses, the statement fails with part of its effect applied', f.loc)
    ctx.extra['R7_sites'] = n7

    ctx.assumptions.append('a read of the statement\'s own target table under the statement\'s DML privilege counts as authorised (R2)')
    ctx.assumptions.append('argument agreement between the checked table name and the table read is not tracked across calls')
