"""C25 The query result cache never serves a stale or foreign result — structural clauses.

Decides: (a) the text→key normalisation of QuerySignature::from_sql applies no whole-string case
folding or whitespace collapsing (both change the contents of string literals, so two queries that
differ only inside a literal would share an entry); (b) T9: the table extractor used for
invalidation visits every child position of Expression / FromClause / SelectStmt that can hold a
table reference (there is no conservative answer: an unvisited position means a write does not
invalidate the entry); (c) CacheManager::invalidate_table reaches both caches and the result cache
compares table names case-insensitively.  Does NOT decide that callers invalidate on every write."""
from ..engine.facts import callee_name
from ..engine.callgraph import CallGraph
from ..engine.visitor import child_fields, arm_table
from ..engine.cfg import defs_of, root_of

UNITS = {'vibesql_executor', 'vibesql_ast', 'vibesql_types', 'vibesql_catalog', 'vibesql_storage'}
EX = 'vibesql_executor::cache::'
EXPR = 'vibesql_ast::expression::Expression'
FOLDS = ('to_lowercase', 'to_uppercase', 'to_ascii_lowercase', 'to_ascii_uppercase', 'make_ascii_lowercase', 'make_ascii_uppercase', 'split_whitespace',
         'split_ascii_whitespace', 'trim', 'replace')


# variants whose expression child can only be a literal in anything the parser builds (reviewed)
UNBUILDABLE = {
    'Interval': 'the parser accepts only a string literal after INTERVAL ("Expected string literal after INTERVAL keyword"): '
                'the child can never contain a table reference',
}


def run(ctx):
    prog = ctx.prog
    cg = CallGraph(prog)
    # ---------------------------------------------------------------- (a) key normalisation
    ctx.rule('C25.a', 'QuerySignature::from_sql and everything it calls apply no case folding / whitespace collapsing / replacement to the '
             'SQL text as a whole (not injective on string literals)')
    fs = ctx.fn(EX + 'query_signature::QuerySignature::from_sql')
    reach = cg.reach([fs.path])
    lossy = []
    ALLOWED_A = {'normalize', 'new', 'hash', 'finish', 'deref', 'collect', 'join', 'as_str', 'to_string', 'clone', 'to_owned', 'into', 'from',
                 'with_capacity', 'push_str', 'push', 'len', 'is_empty', 'as_ref', 'borrow', 'fmt', 'write_str', 'default', 'into_iter', 'iter',
                 'next', 'drop', 'from_sql', 'hash_one', 'write'}
    import re as _re
    for p in reach:
        f = prog.fns[p]
        if f.unit != 'vibesql_executor':
            continue
        for g_ in [f] + prog.children(f):
            for _, t in g_.calls():
                cn = callee_name(t) or ''
                sh = _re.sub(r'<.*>$', '', cn).rsplit('::', 1)[-1]
                texty = ('str' in cn or 'String' in cn or 'char' in cn or 'iter' in cn.lower() or 'slice' in cn)
                if not texty:
                    continue
                if sh in FOLDS or sh not in ALLOWED_A:
                    lossy.append((f.nice, sh, t['l']))
    ctx.instance('a/from_sql', {'rule': 'C25.a', 'reachable_functions': len(reach), 'lossy_text_operations': [f'{a.rsplit("::",1)[1]}:{b}' for a, b, _ in lossy]})
    for sh in sorted({b for _, b, _ in lossy}):
        ctx.finding(f'a/from_sql/{sh}', f'the cache key of a query text is computed after {sh} of the whole text: queries that differ only inside a '
                    f'string literal (case / inner whitespace) share one result entry', fs.loc)

    # ---------------------------------------------------------------- (b) extractor completeness
    ctx.rule('C25.b', 'table_extractor::extract_from_expression visits (calls itself or extract_tables_from_select on) every Expression variant that '
             'has expression or subquery children; extract_from_from_clause handles every FromClause variant; extract_tables_from_select '
             'passes every clause of SelectStmt that holds expressions')
    TE = EX + 'table_extractor::'
    fe = ctx.fn(TE + 'extract_from_expression')
    fsel = ctx.fn(TE + 'extract_tables_from_select')
    ffc = ctx.fn(TE + 'extract_from_from_clause')
    walkers = {fe.path, fsel.path, ffc.path}
    kids = child_fields(prog, EXPR, ('::Expression', '::SelectStmt', '::CaseWhen', '::WindowSpec', '::WindowFunctionSpec', '::OrderByItem'))
    sw, table = arm_table(prog, fe, EXPR, walkers)
    ctx.require(table is not None, 'extract_from_expression: match on Expression not found')
    ctx.floor('Expression variants with children', sum(1 for k in kids.values() if k), 15)
    for v, ks in sorted(kids.items()):
        if not ks:
            continue
        row = table[v]
        ctx.instance(f'b/expr/{v}', {'rule': 'C25.b', 'variant': v, 'children': ks, 'explicit_arm': row['explicit'], 'visits_children': row['recurses']})
        if not row['recurses'] and v in UNBUILDABLE:
            ctx.exempt(f'b/expr/{v}', UNBUILDABLE[v])
            continue
        if not row['recurses']:
            ctx.finding(f'b/expr/{v}', f'extract_from_expression does not visit the children {ks} of Expression::{v}: a table referenced there is not '
                        f'recorded, so writes to it leave the cached result in place', fe.loc)
    FC = 'vibesql_ast::select::FromClause'
    if FC not in prog.adts:
        FC = [a for a in prog.adts if a.endswith('::FromClause')][0]
    sw2, t2 = arm_table(prog, ffc, FC, walkers)
    ctx.require(t2 is not None, 'extract_from_from_clause: match on FromClause not found')
    for v, row in t2.items():
        ctx.instance(f'b/from/{v}', {'rule': 'C25.b', 'variant': v, 'explicit_arm': row['explicit']})
        if not row['explicit']:
            ctx.finding(f'b/from/{v}', f'extract_from_from_clause has no arm for FromClause::{v}', ffc.loc)
    # clauses of SelectStmt
    SS = [a for a in prog.adts if a.endswith('::SelectStmt')][0]
    ss = prog.adt(SS)
    need = [f['name'] for f in ss['variants'][0]['fields'] if any(a.endswith(x) for a in f['adts'] for x in ('::Expression', '::SelectStmt', '::FromClause', '::SelectItem', '::OrderByItem', '::CommonTableExpr', '::SetOperation'))]
    read = set()
    for g_ in [fsel] + prog.children(fsel):
        for b in g_.blocks:
            for s in b['s']:
                if 'd' in s and s['v']['r'] in ('ref', 'discr'):
                    for e in s['v']['p'][1]:
                        if e.startswith('.'):
                            read.add(e[1:])
    from ..engine.cfg import cfg as _cfg
    gsel = _cfg(fsel)
    rets = [i for i, b in enumerate(fsel.blocks) if b['t']['k'] == 'return' and not b['t'].get('cleanup')]
    read_blocks = {}
    for bi, b in enumerate(fsel.blocks):
        for s_ in b['s']:
            if 'd' in s_ and s_['v']['r'] in ('ref', 'discr'):
                for e in s_['v']['p'][1]:
                    if e.startswith('.'):
                        read_blocks.setdefault(e[1:], []).append(bi)
    for fl in need:
        dominates = fl in read_blocks and all(any(gsel.dominates(rb, r) for rb in read_blocks[fl]) for r in rets)
        ctx.instance(f'b/select/{fl}', {'rule': 'C25.b', 'clause': fl, 'read': fl in read, 'read_on_every_path': dominates})
        if fl not in read:
            ctx.finding(f'b/select/{fl}', f'extract_tables_from_select never looks at SelectStmt.{fl}', fsel.loc)
        elif fl in read_blocks and not dominates:
            ctx.finding(f'b/select/{fl}/skipped-on-some-path', f'extract_tables_from_select can return without having looked at SelectStmt.{fl} '
                        '(an early return before the clause is visited): tables referenced there are not recorded, so writes to them '
                        'leave the cached result in place', fsel.loc)

    # ---------------------------------------------------------------- (c) invalidation reaches both caches
    ctx.rule('C25.c', 'CacheManager::invalidate_table calls both QueryPlanCache::invalidate_table and QueryResultCache::invalidate_table; the '
             'result cache folds case on both sides of the table-name comparison')
    cm = ctx.fn(EX + 'integration::CacheManager::invalidate_table')
    names = {callee_name(t) for _, t in cm.calls()}
    ctx.instance('c/CacheManager::invalidate_table', {'calls': sorted(n for n in names if n and 'invalidate' in n)})
    for want in (EX + 'query_plan_cache::QueryPlanCache::invalidate_table', EX + 'query_result_cache::QueryResultCache::invalidate_table'):
        if want not in names:
            ctx.finding(f'c/invalidate/{want.rsplit("::",2)[1]}', f'CacheManager::invalidate_table no longer invalidates {want.rsplit("::",2)[1]}', cm.loc)
    ri = ctx.fn(EX + 'query_result_cache::QueryResultCache::invalidate_table')
    folds = 0
    for g_ in [ri] + prog.children(ri):
        for _, t in g_.calls():
            if (callee_name(t) or '').rsplit('::', 1)[-1] in ('to_lowercase', 'to_uppercase', 'eq_ignore_ascii_case', 'to_ascii_lowercase', 'to_ascii_uppercase'):
                folds += 1
    ctx.instance('c/QueryResultCache::invalidate_table', {'case_folding_calls': folds})
    if folds == 0:
        ctx.finding('c/result-cache/case', 'QueryResultCache::invalidate_table compares table names case-sensitively (the parser upper-cases identifiers)', ri.loc)

    # a fast path that returns before the scan of the entries is sound only if the structure it consults never forgets a table while an
    # entry that depends on it is still cached: it must not shrink outside clear()
    from ..engine.cfg import cfg as _cfg2
    from ..engine.symexpr import Sym as _Sym
    from . import shared as _shared
    gri = _cfg2(ri)
    scans = [i for i, t in ri.calls() if _re.search(r'::retain(<|$)', callee_name(t) or '')]
    rets2 = [i for i, b in enumerate(ri.blocks) if b['t']['k'] == 'return' and not b['t'].get('cleanup')]
    ctx.instance('c/QueryResultCache::invalidate_table/scan', {'retain_calls': len(scans), 'returns': len(rets2)})
    ctx.require(scans, 'QueryResultCache::invalidate_table: scan of the entries (retain) not found')
    from ..engine.paths import search as _search
    reached, _ = _search(ri, [0], set(scans), loop_model=False)
    early = [r for r in rets2 if r in reached]
    if early:
        sy = _Sym(ri)
        guards = set()
        for sblk in gri.reachable():
            t = ri.blocks[sblk]['t']
            if t['k'] == 'switch' and not any(gri.dominates(sc, sblk) for sc in scans):
                c = _shared.switch_condition(ri, sblk, sy)
                for m in _re.finditer(r'self\.([a-z_]+)', c):
                    guards.add(m.group(1))
        shrinks = []
        for f in prog.fns.values():
            if f.unit == 'vibesql_executor' and 'query_result_cache::QueryResultCache' in f.nice and not f.nice.endswith('::clear'):
                sf = _Sym(f)
                for i, t in f.calls():
                    op = _re.sub(r'<.*>$', '', callee_name(t) or '').rsplit('::', 1)[-1]
                    if op in ('remove', 'retain', 'take', 'drain', 'clear') and t['args']:
                        recv = sf.op(t['args'][0])
                        if f.is_closure():
                            from ..engine.panics import _expand_upvar
                            base = _re.match(r'^[A-Za-z_][A-Za-z_0-9]*', recv)
                            if base:
                                recv = _expand_upvar(prog, f, base.group(0)) + recv[len(base.group(0)):]
                        for gname in guards:
                            if gname in recv and gname != 'cache':
                                shrinks.append((f.nice, op, gname))
        ctx.instance('c/QueryResultCache::invalidate_table/fast-path', {'guard_fields': sorted(guards), 'shrinking_sites': shrinks})
        if shrinks or not guards:
            ctx.finding('c/result-cache/fast-path-forgets', 'QueryResultCache::invalidate_table returns before scanning the entries when '
                        f'self.{"/".join(sorted(guards)) or "?"} does not contain the table, but that structure is shrunk ({shrinks[:2]}) while entries that depend '
                        'on the removed names may still be cached: a later write to such a table invalidates nothing', ri.loc)
