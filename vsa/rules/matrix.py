"""Slots of the mutation-site matrix shared by C10-C15, C26, C33, C34 (DESIGN Appendix B).

Every slot is a resolved def-path.  `mutation_api(ctx)` re-derives the mutator API from the facts
(every effectively-public `&mut self` method of Table) and fails closed if a new mutator appears
that the tables below do not classify."""
from ..engine.run import AnalysisError
from ..engine.facts import callee_name

T = 'vibesql_storage::table::Table::'
D = 'vibesql_storage::database::core::Database::'
OPS = 'vibesql_storage::database::operations::Operations::'

# row mutators of Table, by kind
ROW_INSERT = {T + 'insert'}
ROW_UPDATE = {T + 'update_row', T + 'update_row_selective'}
ROW_DELETE = {T + 'delete_where', T + 'remove_row', T + 'clear'}
ROW_RAW = {T + 'rows_mut'}
SCHEMA_MUT = {T + 'schema_mut'}
ROW_MUTATORS = ROW_INSERT | ROW_UPDATE | ROW_DELETE | ROW_RAW
# &mut self methods of Table that do not change rows/schema (reviewed)
TABLE_NON_MUTATING = {
    T + 'analyze': 'recomputes statistics only',
    T + 'statistics': 'lazily computes statistics only',
    T + 'rebuild_indexes': 'rebuilds the hash indexes from the rows; changes no row',
}

DB_INSERT = {D + 'insert_row', D + 'insert_rows_batch'}

USER_INDEX_MAINT = {
    D + 'update_indexes_for_update', D + 'update_indexes_for_delete', D + 'rebuild_indexes',
    OPS + 'update_indexes_for_update', OPS + 'update_indexes_for_delete', OPS + 'rebuild_indexes',
}
USER_INDEX_INSERT_MAINT = {
    'vibesql_storage::database::indexes::index_maintenance::<impl vibesql_storage::database::indexes::index_manager::IndexManager>::add_to_indexes_for_insert',
    D + 'rebuild_indexes', OPS + 'rebuild_indexes',
}

EXECUTOR_UNITS = {'vibesql_types', 'vibesql_ast', 'vibesql_parser', 'vibesql_catalog', 'vibesql_storage',
                  'vibesql_executor'}
ALL_UNITS = None


def table_mut_methods(prog):
    out = []
    for f in prog.fns.values():
        if f.self_adt == 'vibesql_storage::table::Table' and not f.trait and not f.is_closure():
            if f.argc >= 1 and f.locals[1].startswith('&mut ') and f.epub:
                out.append(f.nice)
    return sorted(out)


def check_api_closed(ctx):
    """Fail closed when Table grows a public mutator the matrix does not know."""
    known = ROW_MUTATORS | SCHEMA_MUT | set(TABLE_NON_MUTATING)
    have = table_mut_methods(ctx.prog)
    ctx.floor('public &mut self methods of Table', len(have), 11)
    new = [m for m in have if m not in known]
    if new:
        raise AnalysisError('Table has public &mut self methods the mutation matrix does not classify: '
                            + ', '.join(new))
    # `rows`/`schema` must not be directly writable from outside the storage crate
    adt = ctx.prog.adt('vibesql_storage::table::Table')
    for v in adt['variants']:
        for fld in v['fields']:
            if fld['name'] in ('rows', 'indexes') and fld['vis'].startswith('Public'):
                raise AnalysisError(f"Table.{fld['name']} became public: the who-may-call matrix is no longer closed")


def in_impl_table(fn):
    f = fn
    return f.self_adt == 'vibesql_storage::table::Table' or (f.root or '').startswith('vibesql_storage::table::')


def is_test_support(fn):
    return False


import re as _re

DML_ENTRY_RX = {
    'insert': r'^vibesql_executor::insert::InsertExecutor::execute',
    'update': r'^vibesql_executor::update::UpdateExecutor::execute',
    'delete': r'^vibesql_executor::delete::executor::DeleteExecutor::execute',
}


def dml_entries(ctx, kinds=('insert', 'update', 'delete')):
    """{kind: [Fn]} the public statement entry points of INSERT/UPDATE/DELETE (fail closed if absent)."""
    out = {}
    for k in kinds:
        rx = _re.compile(DML_ENTRY_RX[k])
        fs = [f for f in ctx.prog.fns.values() if rx.search(f.nice) and not f.is_closure() and f.epub
              and not f.nice.endswith('execute_internal')]
        if not fs:
            raise AnalysisError(f'no public {k} statement entry point found ({DML_ENTRY_RX[k]})')
        out[k] = fs
    return out


def roots_pred(cg):
    return lambda f: not cg.inn.get(f.path)


def shortest_escapes(fo, is_entry):
    """{(origin_fn, origin_callee): shortest chain} over leaks/demands that reach an entry"""
    esc = {}
    for (ef, ofn, ocal, chain) in fo.escaped(is_entry):
        k = (ofn, ocal)
        if k not in esc or len(chain) < len(esc[k]):
            esc[k] = chain
    return esc


def chain_str(chain):
    return ' <- '.join(c.split('::', 1)[1] if '::' in c else c for c in chain)
