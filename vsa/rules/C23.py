"""C23 The SQL parser is total — panic/abort clause (T5), recursion clause (T6), loop progress clause.

Decides over everything reachable from Parser::parse_sql (lexer and parser):
 (R1) complete may-panic inventory: every assert terminator, panicking library call (unwrap/expect, indexing and
      slicing, split_at, remove ...) and explicit panic is either discharged by a local rule (index guarded by a
      dominating length test, non-zero constant divisor, position + small constant, guarded subtraction) or is an
      entry of the reviewed table below (one reason each); anything else is a finding;
 (R2) every recursive cycle of the call graph passes through a function that enforces a nesting limit (compares a
      depth counter with a bound and returns an error) — otherwise arbitrarily deep input overflows the stack;
 (R3') saturating progress: Parser::advance does not move at the end of input, so "calls advance" is progress only before
      Eof.  Every parser loop is walked again under the assumption "the current token is Eof" (the discriminant of a Token
      obtained from peek()/peek_next()/peek_at_offset() is Eof's, bool helpers that are constant at Eof - peek_keyword,
      is_join_keyword: false - are replaced by the constant, constants assigned to temporaries are followed to their test):
      no cycle may remain that avoids every call that can fail or is decided by its own loop rule (parse_*, expect_*,
      an iterator step, the caller's item parser).  A skip loop that only counts parentheses spins forever on `ENUM(`;
 (R3) loop progress: in every loop of the lexer and the parser, each cycle of the control-flow graph contains a call
      that consumes input (reaches Parser::advance / Lexer::advance) or pulls from an iterator.
The temporal literal parsers in vibesql_types that the parser calls (DATE/TIME/TIMESTAMP/INTERVAL '...') are inventoried by C22.
Does NOT decide time bounds beyond progress, nor recursion in Drop of the produced tree."""
import re
from ..engine.facts import callee_name
from ..engine.callgraph import CallGraph
from ..engine.cfg import cfg, defs_of, op_local, op_const, op_place, term_succs
from ..engine.paths import switch_target
from ..engine.panics import may_panic_sites, auto_discharge, recursive_components, cycle_without
from ..engine.symexpr import Sym

UNITS = {'vibesql_parser', 'vibesql_ast', 'vibesql_types'}
P = 'vibesql_parser::'
ENTRY = P + 'parser::Parser::parse_sql'
LX = P + 'lexer::'
PR = P + 'parser::'

# reviewed sites: key prefix (function / kind / detail) -> reason.  Ordinals are omitted when every site of that kind in the
# function is covered by the same argument.
REVIEWED = {
    (LX + 'numbers::<impl vibesql_parser::lexer::Lexer>::tokenize_number', 'call', 'Index::index on alloc::vec::Vec<T, A>'):
        'input[start..position]: start is the position saved on entry, position only grows through Lexer::advance, which stops at input.len()',
    (LX + 'identifiers::<impl vibesql_parser::lexer::Lexer>::tokenize_identifier_or_keyword', 'call', 'Index::index on alloc::vec::Vec<T, A>'):
        'input[start..position]: start is the position saved on entry, position only grows through Lexer::advance, which stops at input.len()',
    (PR + 'helpers::<impl vibesql_parser::parser::Parser>::peek_at_offset', 'assert', 'Overflow(Add)'):
        'position + offset: every caller passes a small literal offset (checked below: all call sites pass constants)',
    (LX + 'Lexer::peek', 'assert', 'Overflow(Add)'):
        'position + n: every caller passes a small literal n (checked below: all call sites pass constants)',
    (LX + 'operators::<impl vibesql_parser::lexer::Lexer>::tokenize_operator', 'assert', 'Overflow(Sub)'):
        'position - 1 in an error message, after advance() consumed the `|` that was just matched (position >= 1)',
    (PR + 'trigger::<impl vibesql_parser::parser::Parser>::parse_trigger_action', 'assert', 'Overflow(Add)'):
        'i32 BEGIN/END nesting counter: would need 2^31 BEGIN tokens',
    (PR + 'trigger::<impl vibesql_parser::parser::Parser>::parse_trigger_action', 'assert', 'Overflow(Sub)'):
        'i32 nesting counter starts at 1 and the loop leaves when it reaches 0',
    (PR + 'create::types::<impl vibesql_parser::parser::Parser>::parse_data_type', 'assert', 'Overflow(Add)'):
        'parenthesis depth counter incremented once per token',
    (PR + 'expressions::functions::<impl vibesql_parser::parser::Parser>::parse_function_call', 'assert', 'Overflow(Sub)'):
        'position -= 1 rewinds the advance() made three lines earlier after peek() returned an identifier token (position < len, so advance incremented)',
    (PR + 'expressions::identifiers::<impl vibesql_parser::parser::Parser>::parse_identifier_expression', 'assert', 'Overflow(Sub)'):
        'position -= 1 rewinds the advance() made after peek() returned an identifier token',
    (PR + 'expressions::functions::<impl vibesql_parser::parser::Parser>::parse_function_call', 'call', 'core::panicking::panic'):
        'unreachable!() in an inner match on the same peek() token the outer arm already matched (LEFT/RIGHT/REPLACE/SCHEMA)',
    (PR + 'expressions::operators::<impl vibesql_parser::parser::Parser>::parse_comparison_expression', 'call', 'core::panicking::panic'):
        'unreachable!() in an inner match on the token the enclosing arm matched (Symbol/Operator comparison tokens)',
    (PR + 'expressions::identifiers::<impl vibesql_parser::parser::Parser>::parse_identifier_expression', 'call', 'Index::index on alloc::string::String'):
        'x\'..\' and b\'..\' literals are sliced pairwise / bytewise only after the text was checked to consist of ASCII hex digits resp. 0/1 '
        '(guard checked below: a chars().all(..) test dominates each slicing loop)',
}
CONST_ARG_CALLEES = {PR + 'helpers::<impl vibesql_parser::parser::Parser>::peek_at_offset': 1, LX + 'Lexer::peek': 1}


def run(ctx):
    prog = ctx.prog
    cg = CallGraph(prog)
    entry = ctx.fn(ENTRY)
    reach = cg.reach([entry.path])
    fns = [prog.fns[p] for p in reach if p in prog.fns and not _is_test(prog.fns[p]) and prog.fns[p].unit == 'vibesql_parser']
    ctx.floor('functions reachable from Parser::parse_sql', len(fns), 250)
    ctx.extra['callgraph'] = {'reachable_functions': len(fns), 'unresolved_calls': cg.unresolved}

    # ------------------------------------------------------------------ R1 may-panic inventory
    ctx.rule('C23.R1', 'every may-panic construct reachable from Parser::parse_sql is auto-discharged (D1 guarded index, D2 constant divisor, '
             'D3 position + small constant, D4 guarded subtraction) or listed in the reviewed table with its reason')
    sites = may_panic_sites(prog, fns)
    ctx.floor('C23.R1 may-panic constructs inventoried', len(sites), 30)
    nd = nr = 0
    used = set()
    for s in sites:
        reason = auto_discharge(prog, s.fn, s)
        if reason is None:
            reason = _const_nonzero_arg(s)
        rk = (s.fn.nice, s.kind, s.detail)
        status = 'discharged' if reason else 'reviewed' if rk in REVIEWED else 'open'
        if reason:
            nd += 1
        elif rk in REVIEWED:
            nr += 1; used.add(rk)
            reason = REVIEWED[rk]
        ctx.instance(f'R1/{s.key}', {'rule': 'C23.R1', 'fn': s.fn.nice, 'loc': s.loc, 'construct': f'{s.kind}:{s.detail}', 'status': status,
                                     'reason': (reason or '')[:160]})
        if status == 'reviewed':
            ctx.exempt(f'R1/{s.key}', REVIEWED[rk])
        if status == 'open':
            ctx.finding(f'R1/{s.key}', f'{s.fn.nice}: {s.kind} `{s.detail}` can panic on some input and is neither guarded by a recognisable '
                        'check nor reviewed', s.loc)
    ctx.extra['R1'] = {'discharged_automatically': nd, 'reviewed': nr, 'total': len(sites)}
    for rk in REVIEWED:
        if rk not in used:
            ctx.notes.append(f'reviewed entry no longer matches a site: {rk[0]} {rk[1]} {rk[2]}') if hasattr(ctx, 'notes') else None
    # side conditions of reviewed entries
    for callee, argi in CONST_ARG_CALLEES.items():
        for f in fns:
            for i, t in f.calls():
                if callee_name(t) == callee:
                    from ..engine.cfg import op_const
                    c = op_const(t['args'][argi])
                    if not isinstance(c, int) or c > 64:
                        ctx.finding(f'R1/side-condition/{callee.rsplit("::",1)[1]}/{f.nice}', f'{f.nice} calls {callee.rsplit("::",1)[1]} with a '
                                    'non-constant offset: the reviewed argument for position + offset (small literal offsets) no longer holds',
                                    f'{f.file}:{t["l"]}')
    pie = ctx.fn(PR + 'expressions::identifiers::<impl vibesql_parser::parser::Parser>::parse_identifier_expression')
    g = cfg(pie)
    alls = [i for i, t in pie.calls() if re.search(r'Iterator::all(<|$)', callee_name(t) or '')]
    slices = [i for i, t in pie.calls() if 'ops::index::Index' in (callee_name(t) or '') and 'String' in (callee_name(t) or '')]
    ctx.instance('R1/side-condition/literal-slicing', {'rule': 'C23.R1', 'all_tests': len(alls), 'string_slicings': len(slices)})
    for sb in slices:
        if not any(g.dominates(a, sb) for a in alls):
            ctx.finding('R1/side-condition/literal-slicing', 'parse_identifier_expression slices the text of an x\'..\' / b\'..\' literal at fixed byte '
                        'offsets without a dominating all-characters-are-ASCII-digits test: a multi-byte character makes the slice boundary '
                        'fall inside a character (panic)', f'{pie.file}:{pie.blocks[sb]["t"]["l"]}')

    # ------------------------------------------------------------------ R2 recursion depth
    ctx.rule('C23.R2', 'every cycle of the call graph reachable from parse_sql passes through a function that compares a depth counter '
             'against a bound and leaves with an error')
    comps = recursive_components(prog, cg, reach)
    guards = {p for p in reach if p in prog.fns and _has_depth_guard(prog.fns[p])}
    ctx.extra['recursive_components'] = [sorted(prog.fns[p].nice.rsplit('::', 1)[1] for p in c if p in prog.fns)[:40] for c in comps]
    ctx.floor('C23.R2 recursive components', len(comps), 2)
    for comp in comps:
        adj = {p: [q for q in cg.out.get(p, ()) if q in comp] for p in comp}
        cyc = cycle_without(adj, comp, guards)
        rep = sorted(prog.fns[p].nice for p in comp if p in prog.fns and not prog.fns[p].is_closure())[0]
        ctx.instance(f'R2/{rep}', {'rule': 'C23.R2', 'component_size': len(comp), 'guarded_functions': sorted(prog.fns[p].nice for p in comp if p in guards)})
        if cyc:
            names = [prog.fns[p].nice.rsplit('::', 1)[1] for p in cyc if p in prog.fns]
            ctx.finding(f'R2/{rep}', f'unbounded recursion: the cycle {" -> ".join(names[:8])} has no nesting limit; deeply nested input '
                        'overflows the stack (abort, not an error)', prog.fns[cyc[0]].loc, {'cycle': names})

    # ------------------------------------------------------------------ R3 loop progress
    ctx.rule('C23.R3', 'every control-flow cycle inside a lexer/parser function contains a call that consumes input (a function from which '
             'Parser::advance or Lexer::advance is reachable, or an Iterator::next)')
    adv = {p for p in reach if p in prog.fns and re.search(r'(Parser|Lexer)(>)?::advance$', prog.fns[p].nice)}
    ctx.require(len(adv) >= 2, 'Parser::advance / Lexer::advance not found')
    consumers = set()
    for p in reach:
        if p in prog.fns and (cg.reach([p]) & adv):
            consumers.add(prog.fns[p].nice)
    nloops = 0
    nsat = [0]
    tok = prog.adts.get('vibesql_lexer::token::Token') or next((a for p_, a in prog.adts.items() if p_.endswith('token::Token')), None)
    ctx.require(tok is not None, 'Token ADT not found')
    eof_discr = next(int(v.get('discr', i)) for i, v in enumerate(tok['variants']) if v['name'] == 'Eof')
    summaries = {}
    ndecided = []
    for f in fns:
        for g_ in [f] + prog.children(f):
            if g_.dk == 'Promoted':
                continue
            gg = cfg(g_)
            for comp in gg.sccs():
                if len(comp) < 2 and not (comp and comp[0] in gg.succ[comp[0]]):
                    continue
                nloops += 1
                prog_blocks = set()
                for b in comp:
                    t = g_.blocks[b]['t']
                    if t['k'] == 'call':
                        cn = callee_name(t) or ''
                        if cn in consumers or cn.endswith('Iterator::next') or '::next<' in cn or re.search(r'iter::traits::iterator::Iterator>::next', cn) \
                                or re.search(r'::(next|next_back|pop|pop_front|remove)(<|$)', cn):
                            prog_blocks.add(b)
                adj = {b: [x for x in gg.succ[b] if x in comp] for b in comp}
                cyc = cycle_without(adj, list(comp), prog_blocks)
                # R3': under the assumption "the current token is Eof" no cycle may remain that lacks a fallible consumer
                if 'parser::' in g_.nice and 'lexer' not in g_.nice:
                    breakers = set()
                    for b in comp:
                        t = g_.blocks[b]['t']
                        if t['k'] != 'call':
                            continue
                        cn = callee_name(t) or ''
                        if re.search(r'(Parser|Lexer)(>)?::advance$', cn):
                            continue
                        if b in prog_blocks or (t['f'].get('ptr') or 'FnMut' in cn or 'Fn>::call' in cn or 'FnOnce' in cn):
                            # a consumer other than the bare advance (parse_*, expect_*, consume_*: they fail at the end of input or
                            # are decided by their own loop rule), an iterator step, or the item parser handed in by the caller
                            breakers.add(b)
                    ew = _EofWalk(prog, g_, eof_discr, summaries)
                    cyc2 = ew.cycle(set(comp), breakers)
                    nsat[0] += 1
                    if not cyc2 and _EofWalk(prog, g_, None, {}).cycle(set(comp), breakers):
                        ndecided.append(g_.nice.rsplit('::', 1)[1])
                    if cyc2:
                        ctx.finding(f"R3'/{g_.nice}", f'{g_.nice}: at the end of input (peek() == Eof, Parser::advance stays put) the loop through lines '
                                    f'{sorted({g_.blocks[b]["t"]["l"] for b in cyc2})[:6]} repeats without a call that can fail: truncated input makes the parser spin forever', g_.loc)
                if cyc:
                    key = f'R3/{g_.nice}/loop@{min(comp)}'
                    if _is_position_loop(g_, cyc):
                        continue
                    ctx.finding(f'R3/{g_.nice}', f'{g_.nice}: a loop can iterate without consuming input (cycle through lines '
                                f'{sorted({g_.blocks[b]["t"]["l"] for b in cyc})[:6]})', g_.loc)
    ctx.instance('R3/loops', {'rule': 'C23.R3', 'loops_examined': nloops, 'consuming_functions': len(consumers)})
    ctx.floor('C23.R3 loops examined', nloops, 60)
    ctx.extra['parser_loops_evaluated_at_eof'] = nsat[0]
    ctx.extra['loops_that_terminate_only_because_of_their_eof_exit'] = sorted(ndecided)
    ctx.floor("C23.R3' loops whose termination rests on the Eof exit", len(ndecided), 5)
    ctx.extra['bool_helpers_constant_at_eof'] = {k.rsplit('::', 1)[1]: v for k, v in summaries.items() if v is not None}
    ctx.floor("C23.R3' parser loops evaluated at the end of input", nsat[0], 40)


def _is_test(f):
    return '/tests' in f.file or '::tests::' in f.nice or f.file.endswith('tests.rs')


def _const_nonzero_arg(s):
    from ..engine.cfg import op_const
    if s.kind == 'call' and s.detail.endswith('Iterator::step_by'):
        c = op_const(s.term['args'][1]) if len(s.term['args']) > 1 else None
        if isinstance(c, int) and c > 0:
            return f'D2: step_by with the non-zero constant {c}'
    if s.kind == 'assert' and s.detail in ('RemainderByZero', 'DivisionByZero'):
        # the condition operand is computed from the divisor in the same block: `_c = Eq(const N, const 0)`
        blk = s.fn.blocks[s.block]
        for st in blk['s']:
            if 'd' in st and st['v']['r'] == 'bin' and st['v']['op'] == 'Eq':
                a, b = op_const(st['v']['a']), op_const(st['v']['b'])
                if isinstance(a, int) and isinstance(b, int) and a != 0 and b == 0:
                    return f'D2: divisor is the non-zero constant {a}'
    return None


def _has_depth_guard(f):
    """a comparison of a value whose name (field or local) contains `depth` or `nesting` with a bound, in a function that can
    leave with an error"""
    from ..engine.paths import exit_classes
    from ..engine.cfg import op_place, defs_of
    builds_err = any('d' in st and st['v']['r'] == 'agg' and st['v'].get('variant') == 'Err' for b in f.blocks for st in b['s'])
    if not builds_err:
        try:
            err, _ok = exit_classes(f)
        except Exception:
            return False
        if not err:
            return False
    defs = None
    for b in f.blocks:
        for st in b['s']:
            if 'd' in st and st['v']['r'] == 'bin' and st['v']['op'] in ('Ge', 'Gt', 'Lt', 'Le'):
                txt = repr(st['v'])
                if re.search(r"\.(\w*depth\w*|\w*nesting\w*)'", txt):
                    return True
                for k in ('a', 'b'):
                    p = op_place(st['v'][k]) if isinstance(st['v'].get(k), dict) else None
                    seen = 0
                    while p is not None and seen < 6:
                        nm = f.names.get(p[0], '')
                        if re.search(r'depth|nesting', nm, re.I):
                            return True
                        defs = defs or defs_of(f)
                        ds = defs.get(p[0], [])
                        if len(ds) == 1 and ds[0][1] == 'assign' and ds[0][2]['r'] in ('use', 'ref', 'cast'):
                            v = ds[0][2]
                            p = v['p'] if v['r'] == 'ref' else op_place(v['a'])
                        else:
                            p = None
                        seen += 1
    return False


def _is_position_loop(f, cyc):
    """a loop whose own body increments a position/index local (while i < n { .. i += 1 })"""
    for b in cyc:
        for st in f.blocks[b]['s']:
            if 'd' in st and st['v']['r'] == 'bin' and st['v']['op'] in ('AddWithOverflow', 'Add', 'SubWithOverflow', 'Sub'):
                return True
    return False


class _EofWalk:
    """Abstract walk of one function under the assumption that the current token is Eof: the discriminant of a Token obtained from
    peek()/peek_next()/peek_at_offset() is the discriminant of Token::Eof, constants assigned to temporaries are remembered until the
    temporary is tested, bool helpers that are constant at Eof (peek_keyword: false) are replaced by that constant; every other test
    keeps both successors."""
    PEEK = re.compile(r'Parser(>)?::(peek|peek_next|peek_at_offset)$')

    def __init__(self, prog, fn, eof_discr, summaries):
        self.prog, self.fn, self.eof, self.summaries = prog, fn, eof_discr, summaries
        self.defs = defs_of(fn)

    def _from_peek(self, local, depth=0):
        ds = self.defs.get(local, [])
        if len(ds) != 1 or depth > 4:
            return False
        kind, val = ds[0][1], ds[0][2]
        if kind == 'call':
            return bool(self.PEEK.search(callee_name(val) or ''))
        if kind == 'assign' and val['r'] in ('use', 'cast') and op_local(val['a']) is not None:
            return self._from_peek(op_local(val['a']), depth + 1)
        if kind == 'assign' and val['r'] == 'ref':
            return self._from_peek(val['p'][0], depth + 1)
        return False

    def step(self, b, env):
        """successor states of (block b, env) -> [(block, env)]"""
        fn = self.fn
        env = dict(env)
        for st in fn.blocks[b]['s']:
            if 'd' not in st or st['d'][1]:
                if 'd' in st:
                    env.pop(st['d'][0], None)
                continue
            d, v = st['d'][0], st['v']
            env.pop(d, None)
            if self.eof is not None and v['r'] == 'discr' and 'token::Token' in str(v.get('t')) and self._from_peek(v['p'][0]):
                env[d] = self.eof
            elif v['r'] in ('use', 'cast'):
                c = op_const(v['a'])
                if isinstance(c, bool):
                    c = int(c)
                if isinstance(c, int):
                    env[d] = c
                elif op_local(v['a']) in env and not (op_place(v['a']) or (0, []))[1]:
                    env[d] = env[op_local(v['a'])]
            elif v['r'] == 'un' and v.get('op') == 'Not' and op_local(v['a']) in env:
                env[d] = 0 if env[op_local(v['a'])] else 1
        t = fn.blocks[b]['t']
        if t['k'] == 'switch':
            p = op_place(t['on'])
            if p is not None and not p[1] and p[0] in env:
                val = env[p[0]]
                if p[0] not in fn.names:
                    env.pop(p[0], None)
                return [(switch_target(t, val), env)]
            return [(x, env) for x in dict.fromkeys([tb for _v, tb in t['targets']] + [t['else']])]
        if t['k'] == 'call':
            dst = t.get('d')
            if dst and not dst[1]:
                env.pop(dst[0], None)
                c = self.summary(callee_name(t) or '')
                if c is not None:
                    env[dst[0]] = c
            return [(t['to'], env)] if t.get('to') is not None else []
        return [(x, env) for x in term_succs(t)]

    def summary(self, cn):
        """constant returned at Eof by a bool helper of the parser (None: not constant / not a helper)"""
        if self.eof is None or 'parser::' not in cn or not re.search(r'::(peek_\w+|is_\w+|check_\w+|at_\w+|matches_\w+|try_consume\w*|consume_if\w*)$', cn):
            return None
        if cn in self.summaries:
            return self.summaries[cn]
        self.summaries[cn] = None
        fs = [f for f in self.prog.by_nice.get(cn, []) if f.locals and f.locals[0] == 'bool']
        if len(fs) != 1:
            return None
        f = fs[0]
        w = _EofWalk(self.prog, f, self.eof, self.summaries)
        rets = set()
        seen = set()
        work = [(0, ())]
        while work and len(seen) < 4000:
            b, e = work.pop()
            if (b, e) in seen:
                continue
            seen.add((b, e))
            t = f.blocks[b]['t']
            if t['k'] == 'return':
                env = dict(e)
                for st in f.blocks[b]['s']:
                    pass
                nxt = w.step_env_only(b, dict(e))
                rets.add(nxt.get(0, '?'))
                continue
            for nb, ne in w.step(b, dict(e)):
                work.append((nb, tuple(sorted(ne.items()))))
        r = rets.pop() if len(rets) == 1 else None
        self.summaries[cn] = r if isinstance(r, int) else None
        return self.summaries[cn]

    def step_env_only(self, b, env):
        t = self.fn.blocks[b]['t']
        saved = self.fn.blocks[b]['t']
        # evaluate the statements of the block without following the terminator
        fake = dict(t)
        env2 = dict(env)
        for st in self.fn.blocks[b]['s']:
            if 'd' in st and not st['d'][1]:
                v = st['v']
                d = st['d'][0]
                env2.pop(d, None)
                if v['r'] in ('use', 'cast'):
                    c = op_const(v['a'])
                    if isinstance(c, bool):
                        c = int(c)
                    if isinstance(c, int):
                        env2[d] = c
                    elif op_local(v['a']) in env2:
                        env2[d] = env2[op_local(v['a'])]
        return env2

    def cycle(self, comp, breakers):
        """a cycle of (block, env) states inside comp that avoids the breaker blocks, or None"""
        graph = {}
        work = [(b, ()) for b in comp if b not in breakers]
        while work and len(graph) < 20000:
            st = work.pop()
            if st in graph:
                continue
            b, e = st
            outs = []
            for nb, ne in self.step(b, dict(e)):
                if nb in comp and nb not in breakers and not self.fn.blocks[nb]['t'].get('cleanup'):
                    outs.append((nb, tuple(sorted(ne.items()))))
            graph[st] = outs
            work.extend(outs)
        # iterative DFS for a cycle
        color = {}
        for root in graph:
            if root in color:
                continue
            stack = [(root, iter(graph[root]))]
            color[root] = 1
            path = [root]
            while stack:
                node, it = stack[-1]
                nxt = next(it, None)
                if nxt is None:
                    color[node] = 2
                    stack.pop(); path.pop()
                    continue
                if color.get(nxt) == 1:
                    return [x[0] for x in path[path.index(nxt):]]
                if nxt not in color:
                    color[nxt] = 1
                    stack.append((nxt, iter(graph.get(nxt, []))))
                    path.append(nxt)
        return None
