"""C23 The SQL parser is total — panic/abort clause (T5), recursion clause (T6), loop progress clause.

Decides over everything reachable from Parser::parse_sql (lexer and parser):
 (R1) complete may-panic inventory: every assert terminator, panicking library call (unwrap/expect, indexing and
      slicing, split_at, remove ...) and explicit panic is either discharged by a local rule (index guarded by a
      dominating length test, non-zero constant divisor, position + small constant, guarded subtraction) or is an
      entry of the reviewed table below (one reason each); anything else is a finding;
 (R2) every recursive cycle of the call graph passes through a function that enforces a nesting limit (compares a
      depth counter with a bound and returns an error) — otherwise arbitrarily deep input overflows the stack;
 (R3) loop progress: in every loop of the lexer and the parser, each cycle of the control-flow graph contains a call
      that consumes input (reaches Parser::advance / Lexer::advance) or pulls from an iterator.
The temporal literal parsers in vibesql_types that the parser calls (DATE/TIME/TIMESTAMP/INTERVAL '...') are inventoried by C22.
Does NOT decide time bounds beyond progress, nor recursion in Drop of the produced tree."""
import re
from ..engine.facts import callee_name
from ..engine.callgraph import CallGraph
from ..engine.cfg import cfg
from ..engine.panics import may_panic_sites, auto_discharge, recursive_components, cycle_without
from ..engine.symexpr import Sym

UNITS = {'vibesql_parser', 'vibesql_ast', 'vibesql_types'}
P = 'vibesql_parser::'
ENTRY = P + 'parser::Parser::parse_sql'
LX = P + 'lexer::'
PR = P + 'parser::'

# reviewed sites: key prefix (function / kind / detail) -> reason.  Ordinals are omitted when every site of that kind in the
# function is covered by the same argument.
REVIEWED = {
    (LX + 'numbers::<impl vibesql_parser::lexer::Lexer>::tokenize_number', 'call', 'Index::index on alloc::vec::Vec<T, A>'):
        'input[start..position]: start is the position saved on entry, position only grows through Lexer::advance, which stops at input.len()',
    (LX + 'identifiers::<impl vibesql_parser::lexer::Lexer>::tokenize_identifier_or_keyword', 'call', 'Index::index on alloc::vec::Vec<T, A>'):
        'input[start..position]: start is the position saved on entry, position only grows through Lexer::advance, which stops at input.len()',
    (PR + 'helpers::<impl vibesql_parser::parser::Parser>::peek_at_offset', 'assert', 'Overflow(Add)'):
        'position + offset: every caller passes a small literal offset (checked below: all call sites pass constants)',
    (LX + 'Lexer::peek', 'assert', 'Overflow(Add)'):
        'position + n: every caller passes a small literal n (checked below: all call sites pass constants)',
    (LX + 'operators::<impl vibesql_parser::lexer::Lexer>::tokenize_operator', 'assert', 'Overflow(Sub)'):
        'position - 1 in an error message, after advance() consumed the `|` that was just matched (position >= 1)',
    (PR + 'trigger::<impl vibesql_parser::parser::Parser>::parse_trigger_action', 'assert', 'Overflow(Add)'):
        'i32 BEGIN/END nesting counter: would need 2^31 BEGIN tokens',
    (PR + 'trigger::<impl vibesql_parser::parser::Parser>::parse_trigger_action', 'assert', 'Overflow(Sub)'):
        'i32 nesting counter starts at 1 and the loop leaves when it reaches 0',
    (PR + 'create::types::<impl vibesql_parser::parser::Parser>::parse_data_type', 'assert', 'Overflow(Add)'):
        'parenthesis depth counter incremented once per token',
    (PR + 'expressions::functions::<impl vibesql_parser::parser::Parser>::parse_function_call', 'assert', 'Overflow(Sub)'):
        'position -= 1 rewinds the advance() made three lines earlier after peek() returned an identifier token (position < len, so advance incremented)',
    (PR + 'expressions::identifiers::<impl vibesql_parser::parser::Parser>::parse_identifier_expression', 'assert', 'Overflow(Sub)'):
        'position -= 1 rewinds the advance() made after peek() returned an identifier token',
    (PR + 'expressions::functions::<impl vibesql_parser::parser::Parser>::parse_function_call', 'call', 'core::panicking::panic'):
        'unreachable!() in an inner match on the same peek() token the outer arm already matched (LEFT/RIGHT/REPLACE/SCHEMA)',
    (PR + 'expressions::operators::<impl vibesql_parser::parser::Parser>::parse_comparison_expression', 'call', 'core::panicking::panic'):
        'unreachable!() in an inner match on the token the enclosing arm matched (Symbol/Operator comparison tokens)',
    (PR + 'expressions::identifiers::<impl vibesql_parser::parser::Parser>::parse_identifier_expression', 'call', 'Index::index on alloc::string::String'):
        'x\'..\' and b\'..\' literals are sliced pairwise / bytewise only after the text was checked to consist of ASCII hex digits resp. 0/1 '
        '(guard checked below: a chars().all(..) test dominates each slicing loop)',
}
CONST_ARG_CALLEES = {PR + 'helpers::<impl vibesql_parser::parser::Parser>::peek_at_offset': 1, LX + 'Lexer::peek': 1}


def run(ctx):
    prog = ctx.prog
    cg = CallGraph(prog)
    entry = ctx.fn(ENTRY)
    reach = cg.reach([entry.path])
    fns = [prog.fns[p] for p in reach if p in prog.fns and not _is_test(prog.fns[p]) and prog.fns[p].unit == 'vibesql_parser']
    ctx.floor('functions reachable from Parser::parse_sql', len(fns), 250)
    ctx.extra['callgraph'] = {'reachable_functions': len(fns), 'unresolved_calls': cg.unresolved}

    # ------------------------------------------------------------------ R1 may-panic inventory
    ctx.rule('C23.R1', 'every may-panic construct reachable from Parser::parse_sql is auto-discharged (D1 guarded index, D2 constant divisor, '
             'D3 position + small constant, D4 guarded subtraction) or listed in the reviewed table with its reason')
    sites = may_panic_sites(prog, fns)
    ctx.floor('C23.R1 may-panic constructs inventoried', len(sites), 30)
    nd = nr = 0
    used = set()
    for s in sites:
        reason = auto_discharge(prog, s.fn, s)
        if reason is None:
            reason = _const_nonzero_arg(s)
        rk = (s.fn.nice, s.kind, s.detail)
        status = 'discharged' if reason else 'reviewed' if rk in REVIEWED else 'open'
        if reason:
            nd += 1
        elif rk in REVIEWED:
            nr += 1; used.add(rk)
            reason = REVIEWED[rk]
        ctx.instance(f'R1/{s.key}', {'rule': 'C23.R1', 'fn': s.fn.nice, 'loc': s.loc, 'construct': f'{s.kind}:{s.detail}', 'status': status,
                                     'reason': (reason or '')[:160]})
        if status == 'reviewed':
            ctx.exempt(f'R1/{s.key}', REVIEWED[rk])
        if status == 'open':
            ctx.finding(f'R1/{s.key}', f'{s.fn.nice}: {s.kind} `{s.detail}` can panic on some input and is neither guarded by a recognisable '
                        'check nor reviewed', s.loc)
    ctx.extra['R1'] = {'discharged_automatically': nd, 'reviewed': nr, 'total': len(sites)}
    for rk in REVIEWED:
        if rk not in used:
            ctx.notes.append(f'reviewed entry no longer matches a site: {rk[0]} {rk[1]} {rk[2]}') if hasattr(ctx, 'notes') else None
    # side conditions of reviewed entries
    for callee, argi in CONST_ARG_CALLEES.items():
        for f in fns:
            for i, t in f.calls():
                if callee_name(t) == callee:
                    from ..engine.cfg import op_const
                    c = op_const(t['args'][argi])
                    if not isinstance(c, int) or c > 64:
                        ctx.finding(f'R1/side-condition/{callee.rsplit("::",1)[1]}/{f.nice}', f'{f.nice} calls {callee.rsplit("::",1)[1]} with a '
                                    'non-constant offset: the reviewed argument for position + offset (small literal offsets) no longer holds',
                                    f'{f.file}:{t["l"]}')
    pie = ctx.fn(PR + 'expressions::identifiers::<impl vibesql_parser::parser::Parser>::parse_identifier_expression')
    g = cfg(pie)
    alls = [i for i, t in pie.calls() if re.search(r'Iterator::all(<|$)', callee_name(t) or '')]
    slices = [i for i, t in pie.calls() if 'ops::index::Index' in (callee_name(t) or '') and 'String' in (callee_name(t) or '')]
    ctx.instance('R1/side-condition/literal-slicing', {'rule': 'C23.R1', 'all_tests': len(alls), 'string_slicings': len(slices)})
    for sb in slices:
        if not any(g.dominates(a, sb) for a in alls):
            ctx.finding('R1/side-condition/literal-slicing', 'parse_identifier_expression slices the text of an x\'..\' / b\'..\' literal at fixed byte '
                        'offsets without a dominating all-characters-are-ASCII-digits test: a multi-byte character makes the slice boundary '
                        'fall inside a character (panic)', f'{pie.file}:{pie.blocks[sb]["t"]["l"]}')

    # ------------------------------------------------------------------ R2 recursion depth
    ctx.rule('C23.R2', 'every cycle of the call graph reachable from parse_sql passes through a function that compares a depth counter '
             'against a bound and leaves with an error')
    comps = recursive_components(prog, cg, reach)
    guards = {p for p in reach if p in prog.fns and _has_depth_guard(prog.fns[p])}
    ctx.extra['recursive_components'] = [sorted(prog.fns[p].nice.rsplit('::', 1)[1] for p in c if p in prog.fns)[:40] for c in comps]
    ctx.floor('C23.R2 recursive components', len(comps), 2)
    for comp in comps:
        adj = {p: [q for q in cg.out.get(p, ()) if q in comp] for p in comp}
        cyc = cycle_without(adj, comp, guards)
        rep = sorted(prog.fns[p].nice for p in comp if p in prog.fns and not prog.fns[p].is_closure())[0]
        ctx.instance(f'R2/{rep}', {'rule': 'C23.R2', 'component_size': len(comp), 'guarded_functions': sorted(prog.fns[p].nice for p in comp if p in guards)})
        if cyc:
            names = [prog.fns[p].nice.rsplit('::', 1)[1] for p in cyc if p in prog.fns]
            ctx.finding(f'R2/{rep}', f'unbounded recursion: the cycle {" -> ".join(names[:8])} has no nesting limit; deeply nested input '
                        'overflows the stack (abort, not an error)', prog.fns[cyc[0]].loc, {'cycle': names})

    # ------------------------------------------------------------------ R3 loop progress
    ctx.rule('C23.R3', 'every control-flow cycle inside a lexer/parser function contains a call that consumes input (a function from which '
             'Parser::advance or Lexer::advance is reachable, or an Iterator::next)')
    adv = {p for p in reach if p in prog.fns and re.search(r'(Parser|Lexer)(>)?::advance$', prog.fns[p].nice)}
    ctx.require(len(adv) >= 2, 'Parser::advance / Lexer::advance not found')
    consumers = set()
    for p in reach:
        if p in prog.fns and (cg.reach([p]) & adv):
            consumers.add(prog.fns[p].nice)
    nloops = 0
    for f in fns:
        for g_ in [f] + prog.children(f):
            if g_.dk == 'Promoted':
                continue
            gg = cfg(g_)
            for comp in gg.sccs():
                if len(comp) < 2 and not (comp and comp[0] in gg.succ[comp[0]]):
                    continue
                nloops += 1
                prog_blocks = set()
                for b in comp:
                    t = g_.blocks[b]['t']
                    if t['k'] == 'call':
                        cn = callee_name(t) or ''
                        if cn in consumers or cn.endswith('Iterator::next') or '::next<' in cn or re.search(r'iter::traits::iterator::Iterator>::next', cn) \
                                or re.search(r'::(next|next_back|pop|pop_front|remove)(<|$)', cn):
                            prog_blocks.add(b)
                adj = {b: [x for x in gg.succ[b] if x in comp] for b in comp}
                cyc = cycle_without(adj, list(comp), prog_blocks)
                if cyc:
                    key = f'R3/{g_.nice}/loop@{min(comp)}'
                    if _is_position_loop(g_, cyc):
                        continue
                    ctx.finding(f'R3/{g_.nice}', f'{g_.nice}: a loop can iterate without consuming input (cycle through lines '
                                f'{sorted({g_.blocks[b]["t"]["l"] for b in cyc})[:6]})', g_.loc)
    ctx.instance('R3/loops', {'rule': 'C23.R3', 'loops_examined': nloops, 'consuming_functions': len(consumers)})
    ctx.floor('C23.R3 loops examined', nloops, 60)


def _is_test(f):
    return '/tests' in f.file or '::tests::' in f.nice or f.file.endswith('tests.rs')


def _const_nonzero_arg(s):
    from ..engine.cfg import op_const
    if s.kind == 'call' and s.detail.endswith('Iterator::step_by'):
        c = op_const(s.term['args'][1]) if len(s.term['args']) > 1 else None
        if isinstance(c, int) and c > 0:
            return f'D2: step_by with the non-zero constant {c}'
    if s.kind == 'assert' and s.detail in ('RemainderByZero', 'DivisionByZero'):
        # the condition operand is computed from the divisor in the same block: `_c = Eq(const N, const 0)`
        blk = s.fn.blocks[s.block]
        for st in blk['s']:
            if 'd' in st and st['v']['r'] == 'bin' and st['v']['op'] == 'Eq':
                a, b = op_const(st['v']['a']), op_const(st['v']['b'])
                if isinstance(a, int) and isinstance(b, int) and a != 0 and b == 0:
                    return f'D2: divisor is the non-zero constant {a}'
    return None


def _has_depth_guard(f):
    """a comparison of a value whose name (field or local) contains `depth` or `nesting` with a bound, in a function that can
    leave with an error"""
    from ..engine.paths import exit_classes
    from ..engine.cfg import op_place, defs_of
    builds_err = any('d' in st and st['v']['r'] == 'agg' and st['v'].get('variant') == 'Err' for b in f.blocks for st in b['s'])
    if not builds_err:
        try:
            err, _ok = exit_classes(f)
        except Exception:
            return False
        if not err:
            return False
    defs = None
    for b in f.blocks:
        for st in b['s']:
            if 'd' in st and st['v']['r'] == 'bin' and st['v']['op'] in ('Ge', 'Gt', 'Lt', 'Le'):
                txt = repr(st['v'])
                if re.search(r"\.(\w*depth\w*|\w*nesting\w*)'", txt):
                    return True
                for k in ('a', 'b'):
                    p = op_place(st['v'][k]) if isinstance(st['v'].get(k), dict) else None
                    seen = 0
                    while p is not None and seen < 6:
                        nm = f.names.get(p[0], '')
                        if re.search(r'depth|nesting', nm, re.I):
                            return True
                        defs = defs or defs_of(f)
                        ds = defs.get(p[0], [])
                        if len(ds) == 1 and ds[0][1] == 'assign' and ds[0][2]['r'] in ('use', 'ref', 'cast'):
                            v = ds[0][2]
                            p = v['p'] if v['r'] == 'ref' else op_place(v['a'])
                        else:
                            p = None
                        seen += 1
    return False


def _is_position_loop(f, cyc):
    """a loop whose own body increments a position/index local (while i < n { .. i += 1 })"""
    for b in cyc:
        for st in f.blocks[b]['s']:
            if 'd' in st and st['v']['r'] == 'bin' and st['v']['op'] in ('AddWithOverflow', 'Add', 'SubWithOverflow', 'Sub'):
                return True
    return False
