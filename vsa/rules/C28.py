"""C28 Server messages are well-formed protocol frames — length clause and layout table (T13 + T8).

Decides: for every BackendMessage variant (match without wildcard) and every path through its
encoder arm, the declared length (argument of the length put_i32) equals 4 + the bytes written
after it, as linear forms over symbolic field lengths — i.e. for all field contents; the type byte
and the authentication sub-code of each variant equal the PostgreSQL v3 protocol table.
Does NOT decide re-parsing by an independent parser."""
from ..engine.facts import callee_name
from ..engine.linear import Encoder, Lin
from ..engine.tables import enum_switches, switch_arm_regions
from ..engine.cfg import op_const, cfg

UNITS = {'vibesql_server'}
BM = 'vibesql_server::protocol::messages::BackendMessage'
PC = 'vibesql_server::protocol::messages::put_cstring'
ENE = 'vibesql_server::protocol::messages::encode_notice_or_error'

PROTOCOL = {   # variant -> (type byte, auth sub-code or None)
    'AuthenticationOk': ('R', 0), 'AuthenticationCleartextPassword': ('R', 3), 'AuthenticationMD5Password': ('R', 5),
    'ParameterStatus': ('S', None), 'BackendKeyData': ('K', None), 'ReadyForQuery': ('Z', None), 'RowDescription': ('T', None),
    'DataRow': ('D', None), 'CommandComplete': ('C', None), 'ErrorResponse': ('E', None), 'NoticeResponse': ('N', None),
    'EmptyQueryResponse': ('I', None),
}


def puts_in_order(fn, path):
    out = []
    for b in path:
        t = fn.blocks[b]['t']
        if t['k'] == 'call':
            n = callee_name(t) or ''
            short = n.rsplit('::', 1)[-1]
            if 'BufMut' in n and short.startswith('put_'):
                out.append((short, op_const(t['args'][1]) if len(t['args']) > 1 else None, b))
            elif n in (PC, ENE):
                out.append((short, None, b))
    return out


def run(ctx):
    prog = ctx.prog
    f = ctx.fn(BM + '::encode')
    pc = ctx.fn(PC)
    # put_cstring writes |s| + 1 bytes: check its body (put_slice(as_bytes(s)); put_u8(0))
    pcs = [(callee_name(t) or '').rsplit('::', 1)[-1] for _, t in sorted(pc.calls(), key=lambda x: x[1]['l'])]
    ctx.require('put_slice' in pcs and pcs.count('put_u8') == 1, f'put_cstring no longer writes the bytes followed by one terminator ({pcs})')
    helper = {PC: lambda term: Lin(1, {term: 1})}
    enc = Encoder(prog, f, helper)
    sw = max(enum_switches(prog, f, BM), key=lambda s: len(s['arms']))
    adt = prog.adt(BM)
    variants = [v['name'] for v in adt['variants']]
    ctx.rule('C28.T13', 'for every path through every BackendMessage arm (one symbolic iteration per loop, consistent Option case choices) the '
             'linear form of the declared length equals 4 + the linear form of the bytes written after the length field')
    ctx.rule('C28.T8', 'type byte and authentication sub-code per variant equal the PostgreSQL v3 table; the match has no wildcard arm')
    if sw['otherwise'] is not None:
        ctx.finding('encode/wildcard', 'BackendMessage::encode has a wildcard arm: a variant is encoded without a layout of its own', f.loc)
    ctx.floor('BackendMessage variants', len(variants), 12)
    regs = switch_arm_regions(f, sw)
    for v in variants:
        if v not in sw['arms']:
            ctx.finding(f'encode/{v}/missing', f'no encoder arm for BackendMessage::{v}', f.loc)
            continue
        ctx.require(v in PROTOCOL, f'BackendMessage::{v} is not in the protocol table of the checker (new message type: extend the table)')
        tb = sw['arms'][v]
        reg = regs[v] | {tb}
        paths = enc.paths(tb, reg)
        ctx.require(paths, f'encode arm {v}: no complete path found')
        delegated = False
        for path, guards in paths:
            order = puts_in_order(f, path)
            ctx.require(order and order[0][0] == 'put_u8', f'encode arm {v}: first write is not the type byte')
            tbyte = order[0][1]
            want, sub = PROTOCOL[v]
            if tbyte != ord(want):
                ctx.finding(f'layout/{v}/type-byte', f'BackendMessage::{v} is sent with type byte {chr(tbyte) if isinstance(tbyte, int) else tbyte!r} '
                            f'(protocol: {want!r})', f'{f.file}:{f.blocks[order[0][2]]["t"]["l"]}')
            if len(order) >= 2 and order[1][0] == 'encode_notice_or_error':
                delegated = True
                ctx.instance(f'len/{v}', {'rule': 'C28.T13', 'variant': v, 'delegated_to': 'encode_notice_or_error'})
                continue
            if sub is not None:
                code = order[2][1] if len(order) > 2 and order[2][0] == 'put_i32' else None
                if code != sub:
                    ctx.finding(f'layout/{v}/auth-code', f'BackendMessage::{v} carries authentication code {code} (protocol: {sub})', f.loc)
            d, w, notes = enc.eval_path(path, lambda b, t: True)
            ctx.instance(f'len/{v}/{sorted(guards.items())}', {'rule': 'C28.T13', 'variant': v, 'case': {k: g for k, g in guards.items()},
                                                              'declared': repr(d), 'written_after_type_byte': repr(w)})
            if d is None:
                ctx.require(False, f'encode arm {v}: declared length could not be evaluated symbolically')
            if d.key() != w.key():
                ctx.finding(f'len/{v}', f'BackendMessage::{v}: declared length {d} but {w} bytes follow the type byte (case {guards})',
                            f'{f.file}:{f.line}', {'declared': repr(d), 'written': repr(w)})
    # the shared error/notice body
    g = ctx.fn(ENE)
    e2 = Encoder(prog, g, helper)
    region = set(cfg(g).reachable())
    paths = e2.paths(0, region)
    ctx.require(paths, 'encode_notice_or_error: no path found')
    for path, guards in paths:
        d, w, notes = e2.eval_path(path, lambda b, t: True)
        ctx.instance(f'len/encode_notice_or_error/{sorted(guards.items())}', {'rule': 'C28.T13', 'declared': repr(d), 'written': repr(w)})
        ctx.require(d is not None, 'encode_notice_or_error: declared length could not be evaluated symbolically')
        if d.key() != w.key():
            ctx.finding('len/encode_notice_or_error', f'ErrorResponse/NoticeResponse: declared length {d} but {w} bytes are written', g.loc)
    # lossy casts of counts/lengths (reported, not alarmed: needs > 32767 columns / > 2 GiB values)
    casts = []
    for fn in (f, g):
        for b in fn.blocks:
            for s in b['s']:
                if 'd' in s and s['v']['r'] == 'cast' and s['v']['from'] == 'usize' and s['v']['to'] in ('i16', 'i32'):
                    casts.append(f"{fn.nice.rsplit('::',1)[1]}:{s['l']} usize as {s['v']['to']}")
    ctx.extra['narrowing_casts_of_lengths'] = casts
    ctx.assumptions.append('per-element additivity: equality on the uniform Some-path and None-path implies equality for mixed rows')
