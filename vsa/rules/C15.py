"""C15 Index structures always mirror table contents — structural clause (DESIGN §4 C15).

Decides: every mutation of a table's row vector is followed, on every path to a successful
return, by the maintenance call that keeps (i) the table's constraint hash indexes and (ii) the
user-defined index registry in step, and (iii) no error return separates a row mutation from its
user-index maintenance.  Does NOT decide that the maintenance computes the right keys.
(R7) functions that look a table up by name fall back to the schema-qualified key; (R8) every access of a
table's primary-key / unique hash index is keyed in the index's own column order; (R9) which hash index an
UPDATE affects is decided existentially over the index's columns; (R10) in the hash-index maintenance for UPDATE
(table::indexes::IndexManager::update_for_update / update_selective) whether the NEW key enters an index is not decided by
the NULL-ness of the OLD key: a row whose unique key goes from NULL to a value must be indexed."""
from ..engine.callgraph import CallGraph
from ..engine.paths import (Follow, ok_exit_reachable, err_exits_reachable, search, succ_of_call,
                            success_starts, err_origin, none_edges)
from ..engine.facts import callee_name, callee_generic_name
from ..engine.cfg import op_place
from . import matrix as M

UNITS = M.EXECUTOR_UNITS
UNITS_THOROUGH = None

IM = 'vibesql_storage::table::indexes::IndexManager::'
# consumer of `&mut self.rows` -> kind
VEC = 'alloc::vec::Vec::<T, A>::'
ROWS_CONSUMERS = {
    VEC + 'push': 'insert', VEC + 'insert': 'shift', VEC + 'extend_from_slice': 'insert', VEC + 'append': 'insert',
    '<alloc::vec::Vec<T, A> as core::iter::traits::collect::Extend<T>>::extend': 'insert',
    'core::ops::index::IndexMut::index_mut': 'update', VEC + 'iter_mut': 'update', VEC + 'swap': 'shift',
    'core::slice::<impl [T]>::iter_mut': 'update', 'core::slice::<impl [T]>::get_mut': 'update',
    'core::iter::traits::collect::IntoIterator::into_iter': 'update',
    'core::ops::deref::DerefMut::deref_mut': 'update',
    VEC + 'remove': 'shift', VEC + 'swap_remove': 'shift', VEC + 'retain': 'shift', VEC + 'drain': 'shift',
    VEC + 'truncate': 'shift', VEC + 'pop': 'shift', VEC + 'dedup': 'shift', VEC + 'clear': 'clear',
    VEC + 'reserve': None, VEC + 'shrink_to_fit': None, VEC + 'len': None, VEC + 'capacity': None,
}
# which IndexManager calls discharge which kind
DISCHARGE = {
    'insert': {IM + 'update_for_insert', IM + 'rebuild'},
    'update': {IM + 'update_for_update', IM + 'update_selective', IM + 'rebuild'},
    'shift': {IM + 'rebuild'},       # positions of later rows change: only a rebuild restores the mapping
    'clear': {IM + 'clear', IM + 'rebuild'},
    'unknown': {IM + 'rebuild'},
}

REBUILD_USER = {M.D + 'rebuild_indexes', M.OPS + 'rebuild_indexes'}
UPDATE_USER = {M.D + 'update_indexes_for_update', M.OPS + 'update_indexes_for_update'} | REBUILD_USER
CREATE_INDEX = {M.D + 'create_index', M.OPS + 'create_index'}


_SAME = ('every iteration assigns the same NULL/default/new key to the same columns of a child row: update_row either '
         'fails on the first row (nothing changed yet) or on none')
R5_EXEMPT = {
    ('vibesql_executor::delete::integrity::set_null', M.T + 'update_row'): _SAME,
    ('vibesql_executor::delete::integrity::set_default', M.T + 'update_row'): _SAME,
    ('vibesql_executor::update::foreign_keys::ForeignKeyValidator::check_no_child_references', M.T + 'update_row'): _SAME,
}


def consumer_of(fn, loc, depth=0):
    """What happens to the `&mut rows` reference held in local `loc`: (kind, consumer, block)"""
    if loc == 0:
        return 'escape', 'returned &mut rows', None
    for j, b in enumerate(fn.blocks):
        if b['t'].get('cleanup'):
            continue
        for s in b['s']:
            if 'd' not in s:
                continue
            v = s['v']
            src = None
            if v['r'] == 'ref' and v['p'][0] == loc:
                src = loc
            elif v['r'] in ('use', 'cast'):
                p = op_place(v['a'])
                if p and p[0] == loc:
                    src = loc
            if src is not None and not s['d'][1] and depth < 5:
                return consumer_of(fn, s['d'][0], depth + 1)
        t = b['t']
        if t['k'] == 'call':
            for a in t['args']:
                p = op_place(a)
                if p and p[0] == loc:
                    gn = callee_generic_name(t)
                    return ROWS_CONSUMERS.get(gn, 'unknown'), gn, j
    return 'unknown', 'unrecognised consumer', None


def rows_mut_sites(fn):
    """[(block, kind, consumer_name, line)] for mutable uses of self.rows inside a Table method"""
    out = []
    for i, b in enumerate(fn.blocks):
        if b['t'].get('cleanup'):
            continue
        for s in b['s']:
            if 'd' not in s:
                continue
            v = s['v']; d = s['d']
            # direct assignment  self.rows = ..
            if d[1] and d[1][-1] == '.rows' and d[0] == 1:
                out.append((i, 'unknown', 'assignment to self.rows', s['l']))
                continue
            if v['r'] == 'ref' and v['mut'] and v['p'][0] == 1 and v['p'][1] == ['*', '.rows']:
                kind, cons, cb = consumer_of(fn, d[0])
                out.append((cb if cb is not None else i, kind, cons, s['l']))
    return out


def run(ctx):
    prog = ctx.prog
    M.check_api_closed(ctx)
    cg = CallGraph(prog)
    ctx.extra['callgraph'] = {'calls': cg.total_calls, 'unresolved': cg.unresolved}

    # ---------------------------------------------------------------- R1 inside impl Table
    ctx.rule('C15.R1', 'in every method of storage::Table, each mutable use of the row vector is followed on '
             'every Ok path by the IndexManager call of the matching kind (push→update_for_insert|rebuild; '
             'index_mut→update_for_update|update_selective|rebuild; remove/retain/…→rebuild; clear→clear|rebuild); '
             'only rows_mut may hand out &mut rows')
    n_r1 = 0
    for f in prog.fns.values():
        if f.self_adt != 'vibesql_storage::table::Table' and not (f.root and prog.fns.get(f.root) is not None
                                                                     and prog.fns[f.root].self_adt == 'vibesql_storage::table::Table'):
            continue
        if f.is_closure():
            continue
        for (b, kind, cons, line) in rows_mut_sites(f):
            if kind is None:
                continue
            n_r1 += 1
            site = f'R1/{f.nice}/{cons}'
            ctx.instance(site, {'rule': 'C15.R1', 'fn': f.nice, 'loc': f'{f.file}:{line}', 'use': cons, 'kind': kind})
            if kind == 'escape':
                if f.nice == M.T + 'rows_mut':
                    ctx.exempt(site, 'rows_mut is the declared raw accessor of ALTER TABLE; its callers carry the obligation (rule R4: a column that leaves the rows takes its UNIQUE constraints along)')
                else:
                    ctx.finding(site, f'{f.nice} hands out a mutable reference to the row vector', f'{f.file}:{line}')
                continue
            names = DISCHARGE[kind]
            ob = {i for i, t in f.calls() if callee_name(t) in names}
            t = f.blocks[b]['t']
            starts = succ_of_call(f, b) if t['k'] == 'call' else [b]
            w = ok_exit_reachable(f, starts, ob)
            if w is not None:
                ctx.finding(site, f'{f.nice}: row vector changed ({cons}) and a successful return is reachable '
                            f'without {"/".join(sorted(n.rsplit("::",1)[1] for n in names))} on the hash indexes',
                            f'{f.file}:{line}', {'path_blocks': w})
    ctx.floor('C15.R1 mutable uses of Table.rows inside impl Table', n_r1, 7)

    CAT_GET = {'vibesql_catalog::store::tables::<impl vibesql_catalog::store::Catalog>::get_table'}
    from ..engine.paths import zero_count_edges
    dead = lambda f: (none_edges(f, CAT_GET) if f.unit == 'vibesql_storage' else frozenset()) | zero_count_edges(f, {M.T + 'delete_where'})
    ctx.assumptions.append('Table::delete_where returns the number of rows it removed: on the `== 0` edge nothing changed')
    ctx.assumptions.append('inside vibesql-storage, Catalog::get_table(name) is Some for a table that exists in storage '
                           '(catalog/storage coherence is C33\'s clause)')
    scope = [f for f in prog.fns.values()
             if f.unit in ('vibesql_executor', 'vibesql_storage', 'vibesql_cli', 'vibesql_py', 'vibesql_wasm', 'vibesql_server')
             and not M.in_impl_table(f)]
    roots = lambda f: not cg.inn.get(f.path)

    def report(fo, rule, what, floor_name, floor, exempt=None):
        esc = {}
        for (ef, ofn, ocal, chain) in fo.escaped(roots):
            k = (ofn, ocal)
            if k not in esc or len(chain) < len(esc[k]):
                esc[k] = chain
        for (ofn, ocal), chain in sorted(esc.items()):
            f = prog.by_nice[ofn][0]
            if exempt and (ofn, ocal) in exempt:
                ctx.exempt(f'{rule}/{ofn}/{ocal}', exempt[(ofn, ocal)])
                continue
            ctx.finding(f'{rule}/{ofn}/{ocal}', f'{ofn}: {ocal.rsplit("::",1)[1]} {what} (escapes through '
                        + ' <- '.join(c.split('::', 1)[1] for c in chain) + ')', f.loc, {'chain': chain})

    def count_sites(names, rule):
        n = 0
        for f in scope:
            for i, t in f.calls():
                cn = callee_name(t)
                if cn in names:
                    n += 1
                    ctx.instance(f'{rule}/{f.nice}/{cn}', {'rule': 'C15.' + rule, 'fn': f.nice, 'loc': f'{f.file}:{t["l"]}', 'mutation': cn})
        return n

    # ---------------------------------------------------------------- R2 user-defined indexes after update/delete
    ctx.rule('C15.R2', 'outside impl Table, after Table::update_row|update_row_selective a call to '
             'Database::update_indexes_for_update|rebuild_indexes, and after delete_where|remove_row|clear a call '
             'to Database::rebuild_indexes (row positions shift), happens on every path to an Ok return; '
             'helpers that leave the obligation open pass it to their callers (summaries to fix-point)')
    fo_u = Follow(prog, cg, lambda t, fn: callee_name(t) in M.ROW_UPDATE, lambda t, fn: callee_name(t) in UPDATE_USER, scope, dead=dead)
    report(fo_u, 'R2', 'is not followed by user-index maintenance on every successful path', '', 0)
    fo_d = Follow(prog, cg, lambda t, fn: callee_name(t) in M.ROW_DELETE,
                  lambda t, fn: callee_name(t) in REBUILD_USER, scope, dead=dead)
    report(fo_d, 'R2', 'is not followed by a rebuild of the user-defined indexes on every successful path', '', 0)
    n2 = count_sites(M.ROW_UPDATE | M.ROW_DELETE, 'R2')
    ctx.floor('C15.R2 update/delete mutation call sites outside impl Table', n2, 11)

    # ---------------------------------------------------------------- R3 inserts outside Operations
    ctx.rule('C15.R3', 'after Table::insert outside impl Table: IndexManager::add_to_indexes_for_insert, '
             'Database::rebuild_indexes or a later Database::create_index (which scans the table) on every Ok path')
    ins_o = M.USER_INDEX_INSERT_MAINT | CREATE_INDEX
    fo_i = Follow(prog, cg, lambda t, fn: callee_name(t) in M.ROW_INSERT, lambda t, fn: callee_name(t) in ins_o, scope, dead=dead)
    # which TransactionChange variants are ever recorded (undo arms for the others are dead code today)
    from .C14 import recorded_variant, REC
    from ..engine.cfg import defs_of
    recorded = set()
    for f in prog.fns.values():
        d = None
        for i, t in f.calls():
            if callee_name(t) in REC:
                d = d or defs_of(f)
                v = recorded_variant(f, t, d)
                if v:
                    recorded.add(v)
    ctx.extra['recorded_change_variants'] = sorted(recorded)
    undo_ins = {}
    if not (recorded & {'Update', 'Delete'}):
        undo_ins = {(M.D + 'undo_change', M.T + 'insert'):
                    'Table::insert is only called in the Update/Delete arms of undo_change and no code records '
                    'TransactionChange::Update|Delete today (C14 finding), so the site is unreachable; the exemption '
                    'lapses automatically once such a change is recorded anywhere'}
    report(fo_i, 'R3', 'is not followed by user-index maintenance on every successful path', '', 0,
           exempt={**undo_ins, ('vibesql_executor::alter::table_options::execute_rename_table', M.T + 'insert'):
                   'rows are copied into a table stored under the new name; user indexes are registered per table name and '
                   'none exists for the new name at that point (the registry entry left under the old name is C33\'s clause)'})
    n3 = count_sites(M.ROW_INSERT, 'R3')
    ctx.floor('C15.R3 Table::insert call sites outside impl Table', n3, 6)

    # ---------------------------------------------------------------- R4 a column leaves the rows => Table::rebuild_indexes
    ctx.rule('C15.R4', 'a function that removes a column\'s value from the stored rows (Row::remove_value: the column leaves the schema too, and with it every UNIQUE constraint '
             'it belonged to; the constraint hash indexes are a vector with one slot per constraint) calls Table::rebuild_indexes on every Ok path')
    ROW_SHIFT = {'vibesql_storage::row::Row::remove_value'}
    fo_r = Follow(prog, cg, lambda t, fn: callee_name(t) in ROW_SHIFT and fn.unit != 'vibesql_storage',
                  lambda t, fn: callee_name(t) == M.T + 'rebuild_indexes', scope, dead=dead)
    report(fo_r, 'R4', 'is not followed by Table::rebuild_indexes (constraint hash indexes) on every successful path', '', 0)
    n4 = count_sites(ROW_SHIFT, 'R4')
    ctx.floor('C15.R4 Row::remove_value call sites', n4, 1)

    # ---------------------------------------------------------------- R5 no error return between mutation and maintenance
    ctx.rule('C15.R5', 'between a row mutation and its user-index maintenance call no Err return is reachable '
             '(otherwise a failed statement leaves the registry out of step with the rows)')
    for f in scope:
        for i, t in f.calls():
            cn = callee_name(t)
            if cn in M.ROW_UPDATE:
                names = UPDATE_USER
            elif cn in (M.ROW_DELETE | M.ROW_RAW):
                names = REBUILD_USER
            else:
                continue
            ob = {j for j, u in f.calls() if callee_name(u) in names}
            if not ob:
                continue      # no maintenance here at all: that is R2's finding
            errs, prev = err_exits_reachable(f, success_starts(f, i), ob, loop_model=True)
            ctx.instance(f'R5/{f.nice}/{cn}')
            for e in errs:
                org = err_origin(f, e)
                line = f.blocks[e]['t']['l']
                if (f.nice, org) in R5_EXEMPT:
                    ctx.exempt(f'R5/{f.nice}/{cn}/{org}', R5_EXEMPT[(f.nice, org)])
                    continue
                ctx.finding(f'R5/{f.nice}/{cn}/{org}', f'{f.nice}: an error return ({org}, line {line}) is reachable after '
                            f'{cn.rsplit("::",1)[1]} succeeded and before the user-index maintenance',
                            f'{f.file}:{line}')

    # ---------------------------------------------------------------- R6 key pipeline agreement of the maintenance sites
    ctx.rule('C15.R6', 'every closure/function of the user-index maintenance code that builds an index key from row values applies both '
             'apply_prefix_truncation and normalize_for_comparison (the sibling key-building sites must agree, else one path stores keys '
             'another path cannot find or remove)')
    TRUNC = 'vibesql_storage::database::indexes::index_maintenance::apply_prefix_truncation'
    NORM = 'vibesql_storage::database::indexes::value_normalization::normalize_for_comparison'
    n6 = 0
    for f in prog.fns.values():
        if not (f.nice.startswith('vibesql_storage::database::indexes::index_maintenance::') or
                f.nice.startswith('vibesql_storage::database::indexes::index_manager::IndexManager::check_unique_constraints_for_insert')):
            continue
        names = {callee_name(t) for _, t in f.calls()}
        if TRUNC in names or NORM in names:
            n6 += 1
            key = f.nice.replace('{closure#', '{closure-').split('{closure-')[0].rstrip(':')
            ctx.instance(f'R6/{f.nice}', {'rule': 'C15.R6', 'site': f.nice, 'loc': f.loc, 'truncates': TRUNC in names, 'normalises': NORM in names})
            if not (TRUNC in names and NORM in names):
                miss = 'apply_prefix_truncation' if TRUNC not in names else 'normalize_for_comparison'
                ctx.finding(f'R6/{key}/missing-{miss}', f'{f.nice} builds an index key without {miss} while its sibling sites apply it', f.loc)
    ctx.floor('C15.R6 index key-building sites', n6, 9)

    # ---------------------------------------------------------------- R7 table-map lookups agree on the key normalisation
    ctx.rule('C15.R7', 'tables are stored under "<schema>.<NAME>" (Database::create_table); every function of storage::database that looks a '
             'table up in the HashMap<String, Table> by a name it was given contains the schema-qualification idiom (a "{}.{}" format), '
             'as its siblings do — otherwise the lookup silently misses and the operation (e.g. an index rebuild) is skipped')
    from ..engine.fmt import format_sites
    n7 = 0
    for f in prog.fns.values():
        if not f.nice.startswith('vibesql_storage::database::') or f.is_closure() or f.dk == 'Promoted':
            continue
        look = [t for _, t in f.calls() if (callee_name(t) or '').startswith('std::collections::hash::map::HashMap::<K, V, S, A>::')
                and (callee_name(t) or '').rsplit('::', 1)[1] in ('get', 'get_mut', 'remove', 'contains_key')
                and (t['f'].get('ga') or '').startswith('alloc::string::String, vibesql_storage::table::Table')]
        if not look:
            continue
        n7 += 1
        tmpl = set()
        for g_ in [f] + prog.children(f):
            for site in format_sites(prog, g_):
                if site['text']:
                    tmpl.add(site['text'])
        ok = '{}.{}' in tmpl
        ctx.instance(f'R7/{f.nice}', {'rule': 'C15.R7', 'fn': f.nice, 'loc': f.loc, 'lookups': len(look), 'qualifies': ok})
        if not ok:
            ctx.finding(f'R7/{f.nice}', f'{f.nice} looks the table up by the raw name only (its siblings fall back to the schema-qualified key '
                        f'under which tables are stored): the lookup misses and the operation is skipped', f.loc)
    ctx.floor('C15.R7 functions that look tables up by name', n7, 7)

    # ---------------------------------------------------------------- R8 / R9 key derivation and affectedness of the hash indexes
    from . import shared
    shared.hash_key_rule(ctx, 'C15.R8', lambda f: f.nice.startswith('vibesql_storage::table::'), floor=12)
    shared.quantifier_rule(ctx, 'C15.R9', lambda f: f.nice.startswith('vibesql_storage::table::'), control_floor=2)

    ctx.assumptions.append('a `for` loop entered after the mutation iterates at least once (collect-then-apply idiom)')
    ctx.assumptions.append('the maintenance calls compute correct keys and positions (value-level; not decided)')


_run_main = run


def run(ctx):
    _run_main(ctx)
    new_key_insert_rule(ctx)


def new_key_insert_rule(ctx):
    """(R10) insertion of the new key is independent of the old key's NULL test"""
    import re
    from ..engine.symexpr import Sym
    from . import shared
    prog = ctx.prog
    ctx.rule('C15.R10', 'table::indexes::IndexManager::update_*: no HashMap::insert of a key built from new_row is decided by a contains(<key built from old_row>, NULL) test')
    n = 0
    for f in prog.fns.values():
        if not re.match(r'^vibesql_storage::table::indexes::IndexManager::update_', f.nice) or f.is_closure():
            continue
        s = Sym(f)
        for i, t in f.calls():
            cn = callee_name(t) or ''
            if not (cn.endswith('::insert') and 'HashMap' in cn) or len(t['args']) < 2:
                continue
            key = s.op(t['args'][1])
            if '(new_row)' not in key:
                continue
            n += 1
            bad = [c for c, _v in shared.deciding_conditions(f, i, s) if c.startswith('contains(') and '(old_row)' in c.split(', const(')[0]]
            k = f'R10/{f.nice.rsplit("::", 1)[1]}/{"pk" if "get_primary_key_indices" in key else "unique"}'
            ctx.instance(k + f'@{t["l"]}', {'rule': 'C15.R10', 'fn': f.nice, 'loc': f'{f.file}:{t["l"]}', 'decided_by_old_key_null_test': bool(bad)})
            if bad:
                ctx.finding(k, f'{f.nice} inserts the new key into the hash index only where the OLD key contained no NULL: a row whose unique key is updated from NULL to a value '
                            'is never indexed, and a later INSERT/UPDATE with the same key is accepted', f'{f.file}:{t["l"]}')
    ctx.floor('C15.R10 new-key insertions in IndexManager::update_*', n, 4)
