"""C04 Results do not depend on the parallelism configuration — structural clauses (T12 + T8).

Decides (for the build that is analysed: feature `parallel` on, as in the default build):
 (R1) no rayon operation whose result depends on scheduling is used in the executor/storage crates:
      par_sort_unstable*, par_bridge, for_each*/try_for_each* (side-effect order), find_any/position_any,
      reduce/sum/product/fold/min_by/max_by over a parallel iterator;
 (R2) every parallel sort is one arm of a fork on ParallelConfig::should_parallelize_sort whose other arm
      is the sequential sort of the same stability class (par_sort_by <-> sort_by) applied to the same
      collection with the same comparator (same value, or two closures with identical MIR fingerprints);
 (R3) every *_parallel predicate filter treats the evaluated predicate exactly like its sequential
      sibling: same variants rejected with an error, same variants tested for non-zero, Boolean by value;
 (R5) a global position rebuilt inside a chunked pipeline (`par_chunks(n).enumerate()`: chunk index * something + offset)
      multiplies the chunk index by the very value that was given to par_chunks (not by the length of the current,
      possibly short, chunk);
 (R6) parallel work is distributed over the data (par_iter / into_par_iter / par_chunks of the collection).  A parallel
      iterator over an integer range whose closure slices the input by computed bounds (manual partitioning) must cover
      the input: slice width = ceiling division of the length by the number of parts and the upper bound clamped to the
      length; width = floor division leaves the last len % parts rows unprocessed (violation); any other form is not
      decided (ANALYSIS-ERROR, fail closed);
 (R7) the thread-local evaluator that the parallel filters rebuild per row (get_parallel_components ->
      from_parallel_components) and the evaluators derived from `self` (with_incremented_depth, clone_for_new_expression)
      carry every non-cache field of CombinedExpressionEvaluator over from the source evaluator: a field filled with a
      constant (None, 0) makes the predicate see another context (CTEs, routine variables, nesting depth) on the parallel
      path than on the sequential one;
 (R4) repeated execution: the functions that resolve an unqualified column name against several tables do not return
      the first hit of a HashMap iteration (std's HashMap order is randomised per map: two tables with a column of the
      same name would be resolved differently from one execution to the next).  Loop form (an exit of a loop over a
      hash-map iterator that is not decided by a comparison of the map key) and adaptor form (find / find_map / next /
      last / position / nth / fold on such an iterator) are both recognised; max / min(_by_key) over the unique start
      offsets are order independent.
Does NOT decide the merge of chunked results beyond R5/R6 (e.g. order of concatenation inside rayon's collect, which is
documented rayon behaviour) or float associativity inside SIMD kernels."""
import re
from ..engine.facts import callee_name, callee_generic_name
from ..engine.cfg import cfg, defs_of, op_local, op_const
from ..engine.symexpr import Sym
from ..engine.paths import switch_target
from .truthiness import truthiness_table
from . import matrix as M
from . import shared

UNITS = M.EXECUTOR_UNITS
EX = 'vibesql_executor::'
DENY = {'par_sort_unstable', 'par_sort_unstable_by', 'par_sort_unstable_by_key', 'par_bridge', 'for_each', 'for_each_with', 'for_each_init',
        'try_for_each', 'try_for_each_with', 'try_for_each_init', 'find_any', 'position_any', 'find_map_any', 'reduce', 'reduce_with',
        'try_reduce', 'try_reduce_with', 'sum', 'product', 'fold', 'fold_with', 'try_fold', 'min_by', 'max_by', 'min_by_key', 'max_by_key',
        'any', 'all', 'while_some', 'panic_fuse', 'collect_into_vec_unordered'}
DENY_WHY = {
    'any': 'short-circuit order is scheduling dependent only for side effects; listed because predicate evaluation can fail (which error is reported)',
    'all': 'see any',
}
ALLOW = {'enumerate', 'into_par_iter', 'par_iter', 'par_iter_mut', 'cloned', 'copied', 'collect', 'filter', 'filter_map', 'flat_map', 'map',
         'map_with', 'map_init', 'par_chunks', 'par_chunks_mut', 'par_sort_by', 'par_sort', 'par_sort_by_key', 'zip', 'chunks', 'with_min_len',
         'with_max_len', 'flatten', 'count', 'unzip', 'partition', 'collect_into_vec', 'current_num_threads', 'rev', 'skip', 'take', 'chain',
         'flat_map_iter', 'flatten_iter', 'par_extend', 'len', 'is_empty'}
ORDER_DEPENDENT = {'find', 'find_map', 'next', 'last', 'position', 'nth', 'reduce', 'fold', 'try_fold'}   # max/min(_by_key) on the unique start offsets are order independent
SEQ_OF = {'par_sort_by': 'sort_by', 'par_sort': 'sort', 'par_sort_by_key': 'sort_by_key'}


def fingerprint(prog, f):
    """MIR shape of a function body without local numbers, line numbers and closure ordinals"""
    out = []
    sym = Sym(f)
    for b in f.blocks:
        row = []
        for st in b['s']:
            if 'd' not in st:
                continue
            v = st['v']
            item = [v['r'], v.get('op'), v.get('kind'), v.get('variant'), v.get('to')]
            for k in ('a', 'b'):
                if isinstance(v.get(k), dict):
                    c = op_const(v[k])
                    if c is not None:
                        item.append(re.sub(r'\{closure#\d+\}', '{closure}', str(c)))
            row.append(tuple(str(x) for x in item))
        t = b['t']
        tt = [t['k']]
        if t['k'] == 'call':
            tt.append(re.sub(r'\{closure#\d+\}', '{closure}', callee_name(t) or '?'))
            tt.append(tuple(re.sub(r'closure#\d+', 'closure', sym.op(a))[:200] for a in t['args']))
        if t['k'] == 'switch':
            tt.append(tuple(v for v, _ in t['targets']))
        out.append((tuple(row), tuple(str(x) for x in tt)))
    return tuple(out)


def short(name):
    m = re.search(r'::([A-Za-z_0-9]+)(?:<.*>)?$', name or '')
    return m.group(1) if m else (name or '')


def is_test(f):
    return '/tests' in f.file or '::tests::' in f.nice or f.file.endswith('tests.rs')


def run(ctx):
    prog = ctx.prog
    # ------------------------------------------------------------------ R1 operation inventory
    ctx.rule('C04.R1', 'inventory of rayon operations in non-test code of the executor and storage crates; scheduling-dependent operations '
             '(unstable parallel sorts, par_bridge, for_each*, find_any/position_any, reductions) are violations; operations outside both lists are reported as notes')
    inv = {}
    unknown = {}
    for f in prog.fns.values():
        if f.unit not in ('vibesql_executor', 'vibesql_storage') or is_test(f):
            continue
        for i, t in f.calls():
            gn = callee_generic_name(t) or ''
            cn = callee_name(t) or ''
            if not (gn.startswith('rayon') or cn.startswith('rayon')):
                continue
            nm = gn if gn.startswith('rayon') else cn
            op = short(nm)
            inv.setdefault(op, []).append(f'{f.file}:{t["l"]}')
            ctx.instance(f'R1/{op}/{f.nice}@{shared._ordinal(f, i)}', {'rule': 'C04.R1', 'op': nm.split('<')[0], 'fn': f.nice, 'loc': f'{f.file}:{t["l"]}'})
            if op in DENY:
                ctx.finding(f'R1/{f.nice}/{op}', f'{f.nice}: rayon `{op}` makes the result (or the reported error) depend on scheduling / chunking; '
                            'the sequential path has one fixed order', f'{f.file}:{t["l"]}')
            elif op not in ALLOW:
                unknown.setdefault(op, []).append(f'{f.file}:{t["l"]}')
    ctx.extra['rayon_operations'] = {k: len(v) for k, v in sorted(inv.items())}
    ctx.extra['rayon_operations_not_classified'] = unknown
    ctx.floor('C04.R1 rayon call sites', sum(len(v) for v in inv.values()), 30)

    # ------------------------------------------------------------------ R2 sort forks
    ctx.rule('C04.R2', 'each par_sort_by is the true arm of a switch on should_parallelize_sort(..); the false arm applies the sequential sort of '
             'the same stability class to the same collection with the same comparator (same operand or identical closure fingerprints)')
    nsort = 0
    for f in prog.fns.values():
        if f.unit != 'vibesql_executor' or is_test(f):
            continue
        psorts = [(i, t) for i, t in f.calls() if short(callee_generic_name(t)) in SEQ_OF
                  and 'rayon' in (callee_generic_name(t) or '')]
        if not psorts:
            continue
        g = cfg(f)
        s = Sym(f)
        for i, t in psorts:
            nsort += 1
            pop = short(callee_generic_name(t))
            want = SEQ_OF[pop]
            key = f'R2/{f.nice}/{pop}@{shared._ordinal(f, i)}'
            conds = shared.deciding_conditions(f, i, s)
            gate = [c for c in conds if 'should_parallelize' in c[0]]
            seqs = [(j, t2) for j, t2 in f.calls() if (callee_name(t2) or '').startswith('alloc::slice::') and short(callee_name(t2)) == want]
            # the sequential sort on the other arm: decided by the same condition with the other value
            partner = None
            for j, t2 in seqs:
                c2 = shared.deciding_conditions(f, j, s)
                for (ce, va) in gate:
                    if any(ce == ce2 and va != va2 for (ce2, va2) in c2):
                        partner = (j, t2)
            rec = {'rule': 'C04.R2', 'fn': f.nice, 'loc': f'{f.file}:{t["l"]}', 'gate': [c[0][:100] for c in gate], 'partner': bool(partner)}
            if not gate:
                ctx.instance(key, rec)
                ctx.finding(key + '/ungated', f'{f.nice}: {pop} is not under a should_parallelize_sort test', f'{f.file}:{t["l"]}')
                continue
            if partner is None:
                ctx.instance(key, rec)
                ctx.finding(key + '/no-sequential-arm', f'{f.nice}: the other arm of the should_parallelize_sort fork does not apply {want} '
                            f'(stable sequential counterpart of {pop}): equal keys can come out in another order', f'{f.file}:{t["l"]}')
                continue
            j, t2 = partner
            same_recv = _recv_root(f, s, t) == _recv_root(f, s, t2)
            ca, cb = _closure_of(prog, f, t), _closure_of(prog, f, t2)
            same_cmp = False
            if ca is not None and cb is not None:
                same_cmp = fingerprint(prog, ca) == fingerprint(prog, cb) and ca.upvars == cb.upvars
            elif ca is None and cb is None:
                same_cmp = s.op(t['args'][1]) == s.op(t2['args'][1])
            rec.update({'same_collection': same_recv, 'same_comparator': same_cmp})
            ctx.instance(key, rec)
            if not same_recv:
                ctx.finding(key + '/collection', f'{f.nice}: the parallel and the sequential sort work on different collections', f'{f.file}:{t["l"]}')
            if not same_cmp:
                ctx.finding(key + '/comparator', f'{f.nice}: the parallel sort and its sequential counterpart use different comparators: the '
                            'order of the result depends on the row count threshold', f'{f.file}:{t["l"]}')
    nsort += sum(len(v) for k, v in inv.items() if k.startswith('par_sort') and k not in SEQ_OF)
    ctx.floor('C04.R2 parallel sorts', nsort, 3)

    # ------------------------------------------------------------------ R3 predicate treatment of parallel filters
    ctx.rule('C04.R3', 'a *_parallel filter classifies the evaluated predicate like its sequential sibling: same SqlValue variants raise an '
             'error, same variants are tested for non-zero, Boolean is taken by value, NULL drops the row')
    pairs = []
    for f in prog.fns.values():
        if f.unit != 'vibesql_executor' or f.is_closure() or is_test(f) or not f.nice.endswith('_parallel'):
            continue
        sib = prog.by_nice.get(f.nice[:-len('_parallel')])
        tp = _table_of(prog, f)
        if tp is None:
            continue
        if sib:
            pairs.append((f, sib[0], tp, _table_of(prog, sib[0])))
        else:
            pairs.append((f, None, tp, None))
    ref = truthiness_table(prog, ctx.fn(EX + 'select::filter::is_truthy_combined'))
    ctx.require(ref and ref.get('Boolean') == 'bool', 'reference truthiness table not recognised')
    ctx.floor('C04.R3 parallel predicate filters with a recognisable truthiness table', len(pairs), 2)
    for f, sib, tp, ts in pairs:
        base = ts if ts else ref
        basename = sib.nice if ts else 'select::filter::is_truthy_combined (reference)'
        diff = {}
        for v in tp:
            for cls in ('error', 'nonzero', 'bool'):
                if (tp.get(v) == cls) != (base.get(v) == cls):
                    diff[v] = (tp.get(v), base.get(v))
        ctx.instance(f'R3/{f.nice}', {'rule': 'C04.R3', 'parallel': f.nice, 'compared_with': basename, 'differences': diff})
        if diff:
            ctx.finding(f'R3/{f.nice}', f'{f.nice} treats predicate values differently from {basename}: {diff}', f.loc)

    # ------------------------------------------------------------------ R4 order-independent name resolution
    ctx.rule('C04.R4', 'the unqualified-name resolvers (CombinedSchema::get_column_index, ExpressionMapper::resolve_column, '
             'monomorphic::generic::filter::get_column_type, spatial::find_table_for_column / find_column_index) contain no loop over a '
             'HashMap iterator that is left early with a result (first hit of a randomly ordered iteration)')
    from ..engine.paths import loop_headers
    from ..engine.linear import Encoder
    RESOLVERS = (EX + 'schema::CombinedSchema::get_column_index', EX + 'select::join::expression_mapper::ExpressionMapper::resolve_column',
                 EX + 'select::monomorphic::generic::filter::get_column_type',
                 EX + 'select::executor::index_optimization::spatial::find_table_for_column',
                 EX + 'select::executor::index_optimization::spatial::find_column_index')
    for nm in RESOLVERS:
        f = ctx.fn(nm)
        g = cfg(f)
        lh = loop_headers(f)
        enc = Encoder(prog, f)
        s_ = Sym(f)
        early = []
        for h, (sw, none_t) in lh.items():
            t = f.blocks[h]['t']
            a0 = t['args'][0]
            l0 = a0.get('m', a0.get('c', [None]))[0]
            ity = f.locals[l0] if l0 is not None else ''
            if not re.search(r'hash::(map|set)::', ity):
                continue
            body = shared._body(enc, h)
            for b in body:
                tb = f.blocks[b]['t']
                for x in g.succ[b]:
                    if x in body or x == none_t or f.blocks[x]['t'].get('cleanup') or f.blocks[x]['t']['k'] in ('unreachable', 'resume'):
                        continue
                    if tb['k'] != 'switch':
                        continue        # unwind edges of calls
                    # an exit decided by a comparison of the map KEY itself (qualified lookup by table name) finds at most one
                    # entry whatever the order of the iteration is
                    cond = s_.op(tb['on'])
                    early.append((h, b, cond))
        real = [(h, b) for h, b, cond in early if not re.match(r'^(eq|ne|eq_ignore_ascii_case)\(.*next\(.*\)@Some\.0\.0(?![.\w])', cond)]
        # the iterator-adaptor form of the same thing: find / find_map / next / last / position ... on an iterator over the map
        heads = set(lh)
        for i, t in f.calls():
            gn = callee_generic_name(t) or ''
            if short(gn.split('<')[0] if '<' not in gn.split('::')[-1] else gn) in ORDER_DEPENDENT or short(callee_name(t) or '') in ORDER_DEPENDENT:
                op = short(callee_name(t) or '')
                if op == 'next' and i in heads:
                    continue
                a0 = t['args'][0] if t['args'] else None
                l0 = op_local(a0) if a0 else None
                ity = f.locals[l0] if l0 is not None else ''
                if re.search(r'hash::(map|set)::', ity) or re.search(r'hash::(map|set)::', gn):
                    real.append((i, i))
        ctx.instance(f'R4/{nm.rsplit("::", 1)[1]}', {'rule': 'C04.R4', 'fn': nm, 'hash_iteration_loops_left_early': len(real)})
        if real:
            ctx.finding(f'R4/{nm}', f'{nm} returns the first hit of a HashMap iteration for an unqualified name: with the name present in two '
                        'tables the answer depends on the map\'s random iteration order, so the same query can return different results on '
                        'repeated execution', f'{f.file}:{f.blocks[real[0][0]]["t"]["l"]}')

    # ------------------------------------------------------------------ R7 evaluator reconstruction keeps the context
    ctx.rule('C04.R7', 'every non-cache field of CombinedExpressionEvaluator is carried over when an evaluator is derived from another one: '
             'get_parallel_components reads it from self, from_parallel_components fills it from a parameter, with_incremented_depth / '
             'clone_for_new_expression fill it from the same field of self')
    EV = EX + 'evaluator::combined_core::CombinedExpressionEvaluator'
    adt = prog.adt(EV)
    ctx.require(adt is not None, 'CombinedExpressionEvaluator not found')
    fields = adt['variants'][0]['fields']
    state = [(k, fl['name']) for k, fl in enumerate(fields) if not re.search(r'RefCell|\brc::Rc<|\bCell<|LruCache', fl['ty'])]
    ctx.floor('C04.R7 non-cache fields of the evaluator', len(state), 9)

    def ev_aggs(f):
        sy = Sym(f)
        for b in f.blocks:
            for st in b['s']:
                if 'd' in st and st['v']['r'] == 'agg' and str(st['v'].get('adt', '')) == EV:
                    yield [sy.op(o) for o in st['v'].get('ops', [])]
    derived = [f for f in prog.fns.values() if f.unit == 'vibesql_executor' and not is_test(f) and f.self_adt == EV and f.names.get(1) == 'self'
               and any(True for _ in ev_aggs(f))]
    ctx.floor('C04.R7 evaluators derived from self', len(derived), 2)
    for f in derived:
        for ops in ev_aggs(f):
            for k, name in state:
                ok = re.search(r'\bself\.' + re.escape(name) + r'\b', ops[k]) is not None
                ctx.instance(f'R7/{f.nice.rsplit("::", 1)[1]}/{name}', {'rule': 'C04.R7', 'fn': f.nice, 'field': name, 'value': ops[k][:80], 'ok': ok})
                if not ok:
                    ctx.finding(f'R7/{f.nice.rsplit("::", 1)[1]}/{name}', f'{f.nice} builds the derived evaluator with {name} = {ops[k][:60]} instead of the '
                                f'source evaluator\'s {name}', f.loc)
    fp = [f for f in prog.find('from_parallel_components') if f.self_adt == EV]
    gp = [f for f in prog.find('get_parallel_components') if f.self_adt == EV]
    ctx.require(len(fp) == 1 and len(gp) == 1, 'get_parallel_components / from_parallel_components not found')
    fp, gp = fp[0], gp[0]
    params = set(fp.names.get(i) for i in range(1, fp.argc + 1))
    for ops in ev_aggs(fp):
        for k, name in state:
            root = re.match(r'^[A-Za-z_][A-Za-z_0-9]*', ops[k])
            ok = bool(root) and root.group(0) in params and 'const(' not in ops[k]
            ctx.instance(f'R7/from_parallel_components/{name}', {'rule': 'C04.R7', 'fn': fp.nice, 'field': name, 'value': ops[k][:80], 'ok': ok})
            if not ok:
                ctx.finding(f'R7/from_parallel_components/{name}', f'the per-row evaluator of the parallel filters is rebuilt with {name} = {ops[k][:60]}: a WHERE '
                            f'clause that needs the statement\'s {name} (CTE of a WITH clause, routine variable, nesting depth) evaluates differently '
                            'once the row count passes the parallel threshold', fp.loc)
    sg = Sym(gp)
    read = set()
    for b in gp.blocks:
        for st in b['s']:
            if 'd' in st and st['v']['r'] == 'agg':
                for o in st['v'].get('ops', []):
                    read.update(re.findall(r'\bself\.([A-Za-z_0-9]+)', sg.op(o)))
    for k, name in state:
        ctx.instance(f'R7/get_parallel_components/{name}', {'rule': 'C04.R7', 'fn': gp.nice, 'field': name, 'read': name in read})
        if name not in read:
            ctx.finding(f'R7/get_parallel_components/{name}', f'get_parallel_components does not hand the evaluator\'s {name} to the parallel filters', gp.loc)

    # R7b: closures run by rayon build their evaluator with from_parallel_components only
    nfp = 0
    for f in prog.fns.values():
        if f.unit != 'vibesql_executor' or is_test(f):
            continue
        ray = [(i, t) for i, t in f.calls() if (callee_generic_name(t) or '').startswith('rayon')]
        if not ray:
            continue
        sf = Sym(f)
        cl = set()
        for i, t in ray:
            for a in t['args'][1:]:
                cl.update(re.findall(r'closure#(\d+)', sf.op(a)[:60]))
        for c in prog.children(f):
            k = re.search(r'closure#(\d+)\}$', c.nice)
            if not c.is_closure() or not k or k.group(1) not in cl:
                continue
            for i, t in c.calls():
                cn = callee_name(t) or ''
                if cn.endswith('::from_parallel_components'):
                    nfp += 1
                    ctx.instance(f'R7b/{c.nice}', {'rule': 'C04.R7', 'closure': c.nice, 'evaluator_built_with': 'from_parallel_components'})
                elif re.search(r'ExpressionEvaluator(<[^>]*>)?::(new|with_\w+)$', cn):
                    ctx.instance(f'R7b/{c.nice}', {'rule': 'C04.R7', 'closure': c.nice, 'evaluator_built_with': cn})
                    ctx.finding(f'R7b/{f.nice}', f'{f.nice}: a closure run by rayon builds its evaluator with {cn.rsplit("::", 1)[1]} instead of '
                                'from_parallel_components: the context of the statement\'s evaluator (outer row, CTEs, routine variables, window mapping) '
                                'is not carried to the parallel path', f'{c.file}:{t["l"]}')
    ctx.floor('C04.R7 evaluators rebuilt inside rayon closures', nfp, 3)

    # ------------------------------------------------------------------ R5 chunk index base
    ctx.rule('C04.R5', 'inside a closure fed by par_chunks(n).enumerate() (argument type (usize, &[T])), every multiplication of the chunk index '
             'has n (the value passed to par_chunks) as its other factor')
    from ..engine.panics import _expand_upvar, _parent_of
    nr5 = 0
    for c in prog.fns.values():
        if c.unit not in ('vibesql_executor', 'vibesql_storage') or is_test(c) or not c.is_closure():
            continue
        if len(c.locals) < 3 or not re.match(r'\(usize, &(mut )?\[', c.locals[2]):
            continue
        parent = _parent_of(prog, c)
        if parent is None:
            continue
        sp = Sym(parent)
        sizes = [sp.op(t['args'][1]) for i, t in parent.calls()
                 if re.search(r'::(par_chunks|par_chunks_mut|par_chunks_exact|chunks|chunks_exact)$', (callee_generic_name(t) or '').split('<')[0]) and len(t['args']) > 1]
        if not sizes:
            continue
        sc = Sym(c)
        for bi, b in enumerate(c.blocks):
            for st in b['s']:
                if 'd' not in st or st['v']['r'] not in ('bin', 'checked') or 'Mul' not in str(st['v'].get('op')):
                    continue
                a, b2 = sc.op(st['v']['a']), sc.op(st['v']['b'])
                if 'arg2.0' not in (a, b2):
                    continue
                other = b2 if a == 'arg2.0' else a
                exp = _expand_upvar(prog, c, other)
                nr5 += 1
                ok = exp in sizes
                ctx.instance(f'R5/{c.nice}', {'rule': 'C04.R5', 'fn': c.nice, 'chunk_index_multiplied_by': other, 'expands_to': exp[:120], 'par_chunks_size': sizes[0][:120], 'ok': ok})
                if not ok:
                    ctx.finding(f'R5/{parent.nice}', f'{parent.nice}: the position of a row is rebuilt as chunk_index * {other}, but the chunks were cut with '
                                f'size {sizes[0][:80]}: for a short last chunk the positions point into an earlier chunk, so the parallel result differs '
                                'from the sequential one', f'{c.file}:{st.get("l", c.line)}')
    ctx.floor('C04.R5 chunk-index multiplications', nr5, 1)

    # ------------------------------------------------------------------ R6 manual partitioning
    ctx.rule('C04.R6', 'a parallel iterator over an integer range whose closure slices a collection by bounds computed from the range element '
             'covers the collection: width is a ceiling division of the length by the number of parts and the upper bound is clamped to the length; '
             'floor division is a violation; other forms are not decided (fail closed)')
    ctx.fixture('R6 classifier: floor', _partition_verdict('(len(rows) Div n)', 'n', '(w MulWithOverflow k).0', '((w AddWithOverflow const(1)).0 MulWithOverflow k).0', 'rows', 'k') == 'floor')
    ctx.fixture('R6 classifier: ceil', _partition_verdict('div_ceil(len(rows), n)', 'n', '(w MulWithOverflow k).0', 'min(((w AddWithOverflow const(1)).0 MulWithOverflow k).0, len(rows))', 'rows', 'k') == 'ok')
    ctx.fixture('R6 classifier: unclamped', _partition_verdict('div_ceil(len(rows), n)', 'n', '(w MulWithOverflow k).0', '((w AddWithOverflow const(1)).0 MulWithOverflow k).0', 'rows', 'k') == 'undecided')
    npar = 0; nrange = 0
    for f in prog.fns.values():
        if f.unit not in ('vibesql_executor', 'vibesql_storage') or is_test(f):
            continue
        sf = None
        for i, t in f.calls():
            gn = (callee_generic_name(t) or '')
            if not re.search(r'rayon.*::(into_par_iter|par_iter|par_iter_mut)$', gn.split('<')[0]):
                continue
            npar += 1
            sf = sf or Sym(f)
            src = sf.op(t['args'][0])
            if not src.startswith('Range('):
                continue
            nrange += 1
            parts = _split_top(src[len('Range('):-1])
            n_expr = parts[1] if len(parts) == 2 else '?'
            for c in prog.children(f):
                if not c.is_closure() or len(c.locals) < 3 or c.locals[2] != 'usize':
                    continue
                sc = Sym(c)
                w = c.names.get(2, 'arg2')
                for j, t2 in c.calls():
                    g2 = (callee_generic_name(t2) or '')
                    if not re.search(r'::(index|index_mut|get|get_mut|get_unchecked)$', g2.split('<')[0]) or len(t2['args']) < 2:
                        continue
                    ix = sc.op(t2['args'][1])
                    if not ix.startswith('Range(') or not re.search(r'\b' + re.escape(w) + r'\b', ix):
                        continue
                    lo, hi = (_split_top(ix[len('Range('):-1]) + ['?', '?'])[:2]
                    coll = sc.op(t2['args'][0])
                    kname = None
                    m = re.search(r'\(' + re.escape(w) + r' Mul\w* ([A-Za-z_][A-Za-z_0-9]*)\)', lo)
                    if m:
                        kname = m.group(1)
                    kexp = _expand_upvar(prog, c, kname) if kname else '?'
                    collp = _expand_upvar(prog, c, coll)
                    verdict = _partition_verdict(kexp, n_expr, lo, hi, coll, kname or '?', collp)
                    key = f'R6/{f.nice}'
                    ctx.instance(key, {'rule': 'C04.R6', 'fn': f.nice, 'parts': n_expr[:80], 'width': kexp[:100], 'lo': lo[:100], 'hi': hi[:100], 'verdict': verdict})
                    if verdict == 'floor':
                        ctx.finding(key, f'{f.nice}: the input is partitioned by hand into {n_expr[:60]} slices of width {kexp[:80]} (floor division): the last '
                                    f'len % parts rows belong to no slice and silently disappear from the parallel result', f'{c.file}:{t2["l"]}')
                    elif verdict != 'ok':
                        raise_undecided = f'{f.nice}: manual partition {coll}[{lo} .. {hi}] over {n_expr}: coverage of the input is not decided by rule C04.R6'
                        ctx.require(False, raise_undecided)
    ctx.floor('C04.R6 parallel iterator sources examined', npar, 8)
    ctx.extra['parallel_iterators_over_integer_ranges'] = nrange

    ctx.assumptions.append('analysed with the default feature set (feature `parallel` enabled); the cfg(not(feature = "parallel")) arms are not compiled')
    ctx.assumptions.append('rayon collect() preserves the order of the source for all adaptors used (documented rayon behaviour)')


def _split_top(x):
    out = []; d = 0; cur = ''
    for ch in x:
        if ch in '([':
            d += 1
        elif ch in ')]':
            d -= 1
        if ch == ',' and d == 0:
            out.append(cur.strip()); cur = ''
        else:
            cur += ch
    if cur.strip():
        out.append(cur.strip())
    return out


def _partition_verdict(k, n, lo, hi, coll, kname, coll_parent=None):
    """k: the width as written in the enclosing function, n: number of parts, lo/hi: bounds in the closure"""
    colls = {coll, coll_parent or coll, 'deref(' + coll + ')'}
    lens = {f'len({c})' for c in colls}
    nn = re.escape(n)
    L = '(?:' + '|'.join(re.escape(x) for x in lens) + ')'
    K = re.escape(kname)
    lo_ok = re.fullmatch(r'\(\w+ Mul\w* ' + K + r'\)(\.0)?', lo) is not None
    hi_core = r'\(\(\w+ Add\w* const\(1\)\)(\.0)? Mul\w* ' + K + r'\)(\.0)?'
    hi_plain = re.fullmatch(hi_core, hi) is not None
    hi_clamped = re.fullmatch(r'min\(' + hi_core + r', ' + L + r'\)', hi) is not None or re.fullmatch(r'min\(' + L + r', ' + hi_core + r'\)', hi) is not None
    floor = re.fullmatch(r'\(' + L + r' Div ' + nn + r'\)', k) is not None
    ceil = re.fullmatch(r'div_ceil\(' + L + r', ' + nn + r'\)', k) is not None or \
        re.fullmatch(r'\(\(\(' + L + r' Add\w* ' + nn + r'\)(\.0)? Sub\w* const\(1\)\)(\.0)? Div ' + nn + r'\)', k) is not None
    if lo_ok and floor and (hi_plain or hi_clamped):
        return 'floor'
    if lo_ok and ceil and hi_clamped:
        return 'ok'
    return 'undecided'


def _is_work(cn, gn):
    if cn.startswith('vibesql_') and 'ParallelConfig' not in cn:
        return True
    op = short(gn or cn)
    return op in ('sort_by', 'sort', 'par_sort_by', 'collect', 'into_par_iter', 'par_iter', 'par_chunks', 'next', 'into_iter', 'iter', 'push', 'extend')


def _recv_root(f, s, t):
    r = s.op(t['args'][0])
    return re.sub(r'^(deref_mut|deref|as_mut_slice|as_mut)\((.*)\)$', r'\2', r)


def _closure_of(prog, f, t):
    for a in t['args'][1:]:
        l = op_local(a)
        ty = f.locals[l] if l is not None else ''
        m = re.search(r'\{closure@([^:]+):(\d+):(\d+)', ty)
        if m:
            for c in prog.children(f):
                if c.is_closure() and c.file.endswith(m.group(1).split('/')[-1]) and c.line == int(m.group(2)):
                    return c
    return None


def _table_of(prog, f):
    best = None
    for g in [f] + prog.children(f):
        try:
            t = truthiness_table(prog, g)
        except Exception:
            t = None
        if t and t.get('Boolean') == 'bool':
            best = t
    return best
