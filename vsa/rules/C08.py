"""C08 ORDER BY from an index agrees with ORDER BY from sorting — the NULL-placement clause (T8, sibling agreement).

Sortedness, slicing and distinctness of result sequences are run-time properties and stay undecided.  Decided is the one
clause of the property that has a structural necessary condition, "this holds whether the order comes from sorting or
from an index":
 (R1) the sorting path places NULLs last (compare_sql_values: NULL is greater than every value; observed with the
      triage harness for ASC and for DESC), while an index keeps NULL keys first.  Every FromResult that
      claims "already sorted" (from_rows_sorted / from_rows_where_filtered with a Some claim) must therefore be built
      on a path where the claim was re-decided by a test that no ordering column of the fetched rows is NULL:
      the claim is not the caller's `sorted_columns` value passed through, and the `Some(..)` alternative is
      constructed only where an `any(..)` over the fetched rows, whose closure reads the discriminant of a SqlValue,
      is false;
 (R3) ORDER BY of a set operation orders the combined result: in the function that executes set operations
      (execute_with_ctes) the call of execute_set_operations is followed, before apply_limit_offset, by a test of
      stmt.order_by whose Some branch hands the ORDER BY items and the combined rows to a sorting function;
 (R4) multi-key comparators are lexicographic: in every comparator of the executor that walks the key list in a loop
      (ORDER BY, aggregated ORDER BY, set-operation ORDER BY, window partitions, implicit ordering, grouped plans), a
      value leaves the loop body only as a constant Less / Greater or as a comparison result that a dominating test
      found different from Equal; Equal is returned only after the last key (the None edge of the key iterator).  A tie
      on one key - two NULLs included - must fall through to the next key;
 (R5) LIMIT / OFFSET cut the final sequence: every operation that shortens a row sequence by an amount read from
      stmt.limit / stmt.offset (apply_limit_offset, truncate, take, skip, drain, split_off) is decided - in its function
      or in every caller, through bool helpers such as can_use_iterator_execution - by "the statement has no set
      operation" (the cut of a set operation belongs to the combined result) and by "not DISTINCT" or follows
      apply_distinct on the same rows; the one cut after execute_set_operations is the combined result's;
 (R6) no result path forgets the cut: from execute_with_ctes downwards (every callee of the select executor that receives
      the same `stmt`), each path to a successful return passes, for LIMIT and for OFFSET separately, a cut by that
      clause, a call of a function for which the same holds, a branch on which the clause was found absent, a branch on
      which the statement has a set operation (the cut is the combined result's), or returns an empty vector / declines
      with Ok(None).  A fast path that answers COUNT(*) from the row count, or SELECT without FROM, must still cut;
 (R9) no result path de-duplicates on its own: with the same machinery as R6, every path to a successful return passes
      helpers::apply_distinct (the de-duplicator over the whole row set), a callee for which that holds, or a branch on
      which stmt.distinct is false (directly or through can_use_iterator_execution / is_simple_count_star / the columnar
      gate); a neighbour-only Vec::dedup behind a sort is not a substitute (SELECT DISTINCT b .. ORDER BY id);
 (R7) NULLS LAST does not depend on the direction: in every comparator of a query's ORDER BY (plain, aggregated, set
      operation) an Ordering::reverse applied to compare_sql_values (which ranks NULL highest) is reached only where both
      operands were tested to be non-NULL; otherwise DESC would return the NULL rows first on that path only;
 (R8) every ORDER BY key builder knows the three forms of an item: each function of the select executor that walks the
      ORDER BY list and reads item.direction also decides, itself or in a helper that receives item.expr, whether the
      item is an integer literal (a select-list position); a builder that evaluates `1` as the constant 1 leaves its
      path unsorted under ORDER BY 1;
 (R2) the reference the rule relies on: compare_sql_values orders (NULL, x) as Greater and (x, NULL) as Less.
Does NOT decide that the index order equals the sort order for non-NULL keys (C02 decides the key pipeline), LIMIT /
OFFSET arithmetic, or DISTINCT."""
import re
from ..engine.facts import callee_name
from ..engine.cfg import cfg, op_place
from ..engine.symexpr import Sym
from . import shared

UNITS = {'vibesql_executor', 'vibesql_types', 'vibesql_ast'}
EX = 'vibesql_executor::'
SV = 'vibesql_types::sql_value::SqlValue'


def _reads_sqlvalue_discr(prog, f, depth=0):
    for b in f.blocks:
        for st in b['s']:
            if 'd' in st and st['v']['r'] == 'discr' and SV in str(st['v'].get('t')):
                return True
    if depth < 2:
        for c in prog.children(f):
            if c.is_closure() and _reads_sqlvalue_discr(prog, c, depth + 1):
                return True
    return False


def run(ctx):
    prog = ctx.prog
    ctx.rule('C08.R1', 'every "already sorted" claim handed to FromResult is re-decided in the producing function: its Some(..) alternative is built only '
             'where an any(..) test over the fetched rows (closure reading a SqlValue discriminant: the NULL test) is false')
    producers = []
    for f in prog.fns.values():
        if f.unit != 'vibesql_executor' or shared.is_test(f):
            continue
        for i, t in f.calls():
            cn = callee_name(t) or ''
            if re.search(r'FromResult::(from_rows_sorted|from_rows_where_filtered)$', cn):
                producers.append((f, i, t))
    ctx.floor('C08.R1 producers of a sorted claim', len(producers), 2)
    for f, i, t in producers:
        s = Sym(f)
        claim = s.op(t['args'][2]) if len(t['args']) > 2 else '?'
        params = {f.names.get(k) for k in range(1, f.argc + 1)}
        raw = re.sub(r'@Some\.0$', '', claim) in params
        # blocks that build the Some(..) alternative of the claim
        some_blocks = []
        for bi, b in enumerate(f.blocks):
            for st in b['s']:
                if 'd' in st and st['v']['r'] == 'agg' and str(st['v'].get('adt', '')).endswith('option::Option') and st['v'].get('variant') == 'Some':
                    e = s.op(st['v']['ops'][0])
                    if any(p and re.search(r'\b' + re.escape(p) + r'\b', e) for p in params if p and 'sorted' in p):
                        some_blocks.append(bi)
        null_tested = False
        for bi in some_blocks:
            for c, v in shared.deciding_conditions(f, bi, s):
                if c.startswith('any(') and v == '0':
                    k = re.search(r'closure#(\d+)', c[::-1][:0] or c)
                    # the closure handed to any(): take the last closure mentioned in the condition
                    ks = re.findall(r'closure#(\d+)', c)
                    for kk in ks[-1:]:
                        for ch in prog.children(f):
                            if ch.nice.endswith('{closure#%s}' % kk) and _reads_sqlvalue_discr(prog, ch):
                                null_tested = True
        ok = (not raw) and null_tested
        key = f'R1/{f.nice.rsplit("::", 1)[1]}/{(callee_name(t) or "").rsplit("::", 1)[1]}'
        ctx.instance(key, {'rule': 'C08.R1', 'fn': f.nice, 'loc': f'{f.file}:{t["l"]}', 'claim': claim[:80], 'claim_is_the_callers_value': raw,
                           'some_alternative_guarded_by_null_test': null_tested})
        if not ok:
            ctx.finding(key, f'{f.nice} hands rows in index order to the executor with the claim "sorted by {claim[:40]}" without testing the ordering columns for '
                        'NULL: the index keeps NULL keys first, ORDER BY places them last, so ORDER BY k (and ORDER BY k LIMIT n) returns the NULL rows first '
                        'once an index on k exists', f'{f.file}:{t["l"]}')

    ctx.rule('C08.R2', 'compare_sql_values (the sorting path): (NULL, non-NULL) is Greater and (non-NULL, NULL) is Less')
    cmpf = ctx.fn(EX + 'select::grouping::aggregates::compare_sql_values')
    sc = Sym(cmpf)
    verdicts = {}
    for bi, b in enumerate(cmpf.blocks):
        for st in b['s']:
            if 'd' in st and st['d'][0] == 0 and st['v']['r'] == 'agg' and str(st['v'].get('adt', '')).endswith('cmp::Ordering'):
                conds = sorted((c, v) for c, v in shared.deciding_conditions(cmpf, bi, sc) if c.startswith('is_null('))
                verdicts[tuple(conds)] = st['v'].get('variant')
    want = {(('is_null(a)', 'else:0'), ('is_null(b)', '0')): 'Greater', (('is_null(a)', '0'), ('is_null(b)', 'else:0')): 'Less'}
    got = {k: v for k, v in verdicts.items()}
    ok2 = all(got.get(k) == v for k, v in want.items())
    ctx.instance('R2/compare_sql_values', {'rule': 'C08.R2', 'null_cases': {str(k): v for k, v in got.items()}, 'nulls_last': ok2})
    if not ok2:
        ctx.finding('R2/compare_sql_values', 'compare_sql_values no longer orders NULL after every value: rule R1 (and the index path) assume NULLS LAST on the sorting path',
                    cmpf.loc)
    _setop_rule(ctx, prog)
    _lexicographic_rule(ctx, prog)
    _cut_rule(ctx, prog)
    _complete_rule(ctx, prog)
    _distinct_rule(ctx, prog)
    _null_direction_rule(ctx, prog)
    _position_rule(ctx, prog)


def _setop_rule(ctx, prog):
    ctx.rule('C08.R3', 'execute_with_ctes: after execute_set_operations and before apply_limit_offset the ORDER BY of the statement is tested and, when present, '
             'a function receives the ORDER BY items together with the combined rows')
    fs = [f for f in prog.fns.values() if f.unit == 'vibesql_executor' and not f.is_closure() and not shared.is_test(f)
          and any((callee_name(t) or '').endswith('::execute_set_operations') for _i, t in f.calls())
          and any((callee_name(t) or '').endswith('apply_limit_offset') for _i, t in f.calls())]
    ctx.floor('C08.R3 functions that execute a set operation and then cut it with LIMIT/OFFSET', len(fs), 1)
    for f in fs:
        g = cfg(f)
        s = Sym(f)
        E = [i for i, t in f.calls() if (callee_name(t) or '').endswith('::execute_set_operations')]
        L = [i for i, t in f.calls() if (callee_name(t) or '').endswith('apply_limit_offset')]
        sorters = []
        for i, t in f.calls():
            args = [s.op(a) for a in t['args']]
            # receives the ORDER BY items and the variable that holds the combined rows (the first argument of apply_limit_offset)
            rows_var = {s.op(f.blocks[l]['t']['args'][0]) for l in L}
            if any('stmt.order_by' in a for a in args) and any(a in rows_var for a in args) and any(g.dominates(e, i) for e in E):
                sorters.append(i)
        ok = bool(sorters) and all(any(g.dominates(e, c) for e in E) for c in sorters)
        # every path from the set operation to the LIMIT passes the test of stmt.order_by
        tests = [b for b in g.reachable() if f.blocks[b]['t']['k'] == 'switch' and 'stmt.order_by' in shared.switch_condition(f, b, s)
                 and any(g.dominates(e, b) for e in E)]
        passes = bool(tests) and all(any(g.dominates(tb, l) for tb in tests) for l in L if any(g.dominates(e, l) for e in E))
        ctx.instance(f'R3/{f.nice.rsplit("::", 1)[1]}', {'rule': 'C08.R3', 'fn': f.nice, 'sorting_calls_after_the_set_operation': len(sorters),
                                                         'order_by_tested_between_set_operation_and_limit': passes})
        if not (ok and passes):
            ctx.finding(f'R3/{f.nice.rsplit("::", 1)[1]}', f'{f.nice} cuts the result of a set operation with LIMIT/OFFSET without ordering it by the statement\'s ORDER BY: '
                        'only the left operand was sorted, the rows of the right operand follow unsorted (SELECT v FROM p UNION SELECT v FROM q ORDER BY v)', f.loc)


def _lexicographic_rule(ctx, prog):
    from ..engine.paths import loop_headers
    ctx.rule('C08.R4', 'comparators that loop over the sort keys: inside the loop body _0 receives only the constants Less / Greater or a value that a dominating '
             'ne(value, Equal) test found unequal; Equal is assigned only behind the None edge of the key iterator')
    n = 0
    for f in prog.fns.values():
        if f.unit != 'vibesql_executor' or shared.is_test(f) or not f.locals or not f.locals[0].endswith('cmp::Ordering'):
            continue
        lh = loop_headers(f)
        if not lh:
            continue
        g = cfg(f)
        s = Sym(f)
        n += 1
        bad = []
        for h, (sb, none_t) in lh.items():
            some_t = [x for x in g.succ[sb] if x != none_t and f.blocks[x]['t']['k'] != 'unreachable']
            body, work = set(), list(some_t)
            while work:
                b = work.pop()
                if b in body or b == h:
                    continue
                body.add(b)
                work.extend(x for x in g.succ[b] if not f.blocks[x]['t'].get('cleanup'))
            for b in sorted(body):
                vals = []
                for st in f.blocks[b]['s']:
                    if 'd' in st and st['d'][0] == 0 and not st['d'][1]:
                        v = st['v']
                        if v['r'] == 'agg':
                            vals.append(('const', v.get('variant'), st['l']))
                        else:
                            vals.append(('value', s.op(v['a']) if 'a' in v else v['r'], st['l']))
                t = f.blocks[b]['t']
                if t['k'] == 'call' and t['d'][0] == 0 and not t['d'][1]:
                    vals.append(('value', s.op(t['args'][0]) if t['args'] else '?', t['l']))
                for kind, val, line in vals:
                    if kind == 'const':
                        if val not in ('Less', 'Greater'):
                            bad.append((line, f'returns the constant {val} from inside the key loop'))
                        continue
                    tested = False
                    for c, vv in shared.deciding_conditions(f, b, s):
                        if c.startswith('ne(') and vv != '0' and _is_equal_const(prog, c) and _same_value(c[3:], val):
                            tested = True
                        if c.startswith('eq(') and vv == '0' and _is_equal_const(prog, c) and _same_value(c[3:], val):
                            tested = True
                    if not tested:
                        bad.append((line, f'returns {val[:50]} from inside the key loop without a dominating test that it differs from Equal'))
        key = 'R4/' + re.sub(r"<impl [^>]*>::", '', f.nice).split('vibesql_executor::', 1)[-1]
        ctx.instance(key, {'rule': 'C08.R4', 'fn': f.nice, 'loc': f.loc, 'lexicographic': not bad})
        for line, why in bad:
            ctx.finding(key, f'{f.nice} {why}: rows that tie on this key (two NULLs, equal values) are reported as equal although later ORDER BY keys differ, so the '
                        'stable sort leaves them in input order', f'{f.file}:{line}')
    ctx.floor('C08.R4 looping comparators', n, 10)


def _same_value(cond_rest, val):
    """ne(<a>, const(..)) tests the value that is returned: <a> is val, a reference to it, or val is reverse(<a>) / a phi over <a>"""
    a = cond_rest.split(', const(', 1)[0]
    return a == val or a in val or val in a


def _is_equal_const(prog, cond):
    m = re.search(r'const\(([^()]*promoted\[\d+\])\)', cond)
    if not m:
        return False
    for pf in prog.by_nice.get(m.group(1), []):
        for b in pf.blocks:
            for st in b['s']:
                if 'd' in st and st['v']['r'] == 'agg' and str(st['v'].get('adt', '')).endswith('cmp::Ordering'):
                    return st['v'].get('variant') == 'Equal'
    return False


CUT = re.compile(r'(::truncate|::drain|::split_off|Iterator::take|Iterator::skip|select::helpers::apply_limit_offset)(<.*)?$')


# reviewed: cuts for which one of the two conditions is vacuous (one named function each, with the reason)
R5_REVIEWED = {
    ('execute_select_without_from', 'not_distinct'): 'SELECT without FROM yields at most one row: DISTINCT is the identity on it',
}


def _cut_rule(ctx, prog):
    ctx.rule('C08.R5', 'every shortening of a row sequence by stmt.limit / stmt.offset is decided by "no set operation" and by "not DISTINCT" (or follows apply_distinct), '
             'in its function or at every call site of it; the cut behind execute_set_operations is the combined result\'s own')
    cg = None
    sites = []
    for f in prog.fns.values():
        if f.unit != 'vibesql_executor' or shared.is_test(f) or '::select::' not in f.nice:
            continue
        s = None
        for i, t in f.calls():
            cn = callee_name(t) or ''
            if not CUT.search(cn) or f.nice.endswith('helpers::apply_limit_offset'):
                continue
            s = s or Sym(f)
            amounts = [s.op(a) for a in t['args'][1:]]
            if any(re.search(r'\bstmt\.(limit|offset)\b|\.(limit|offset)@Some', a) for a in amounts):
                sites.append((f, i, t, s))
    ctx.floor('C08.R5 cuts by the statement\'s LIMIT / OFFSET', len(sites), 5)

    def established(f, i, s, depth=0, seen=()):
        at = shared.stmt_atoms(prog, f, i, s)
        rows = s.op(f.blocks[i]['t']['args'][0]) if f.blocks[i]['t']['args'] else ''
        if 'apply_distinct(' in rows:
            at.add('not_distinct')
        g = cfg(f)
        if any((callee_name(t2) or '').endswith('::execute_set_operations') and g.dominates(j, i) for j, t2 in f.calls()):
            at |= {'set_operation_none', 'not_distinct'}   # the combined result: DISTINCT belongs to the operands
        if {'set_operation_none', 'not_distinct'} <= at or depth >= 3:
            return at
        callers = []
        for h in prog.fns.values():
            if h.unit != f.unit or shared.is_test(h) or h.nice in seen:
                continue
            for j, t2 in h.calls():
                if (callee_name(t2) or '') == f.nice:
                    callers.append((h, j))
        if not callers:
            return at
        inherited = None
        for h, j in callers:
            a2 = established(h, j, Sym(h), depth + 1, seen + (f.nice,))
            inherited = a2 if inherited is None else inherited & a2
        return at | (inherited or set())

    for f, i, t, s in sites:
        at = established(f, i, s)
        short = re.sub(r"<impl [^>]*>::", '', f.nice).rsplit('::', 1)[-1]
        op = (callee_name(t) or '').rsplit('::', 1)[-1].split('<')[0]
        key = f'R5/{short}/{op}'
        ctx.instance(key + f'@{t["l"]}', {'rule': 'C08.R5', 'fn': f.nice, 'loc': f'{f.file}:{t["l"]}', 'established': sorted(at)})
        missing = {m for m in {'set_operation_none', 'not_distinct'} - at if (short, m) not in R5_REVIEWED}
        if missing:
            what = ' and '.join({'set_operation_none': 'the statement having no set operation', 'not_distinct': 'DISTINCT being absent or already applied'}[m] for m in sorted(missing))
            ctx.finding(key, f'{f.nice} shortens the rows by the statement\'s LIMIT / OFFSET ({op}) without {what} being decided on the way: the operand of '
                        'UNION / EXCEPT / INTERSECT (or the input of DISTINCT) is cut before the operation, so `t EXCEPT u LIMIT 1` loses its row and OFFSET is applied twice',
                        f'{f.file}:{t["l"]}')


def _complete_rule(ctx, prog):
    ctx.rule('C08.R6', 'execute_with_ctes and, recursively, every select-executor callee that receives the same stmt and whose rows are returned: no successful return '
             'is reachable without passing (per clause) a cut by LIMIT / OFFSET, a complete callee, a branch where the clause is absent or the statement has a set '
             'operation; empty and declining (Ok(None)) returns excepted')

    def clause(cl):
        def sat(f, s, g, atoms):
            out = set()
            for i, t in f.calls():
                if CUT.search(callee_name(t) or '') and any(re.search(r'\bstmt\.%s\b' % cl, s.op(a)) for a in t['args'][1:]):
                    out.add(i)
            for b, at in atoms.items():
                if cl + '_none' in at or 'set_operation_some' in at:
                    out.add(b)
            return out
        return sat

    def describe(cl, f, lines):
        return (f'{f.nice} has a path to a successful return that never cuts the rows by the statement\'s {cl.upper()} (through lines {lines}): the result ignores '
                f'{cl.upper()} (SELECT COUNT(*) FROM t LIMIT 0 and SELECT 1 OFFSET 1 return a row)')
    shared.result_path_rule(ctx, prog, 'C08.R6', {'limit': clause('limit'), 'offset': clause('offset')}, describe)


QUERY_COMPARATORS = re.compile(r'(select::order::apply_order_by|apply_order_by_to_aggregates|order_set_operation_result)::\{closure#\d+\}$')


def _null_direction_rule(ctx, prog):
    ctx.rule('C08.R7', 'comparators of a query\'s ORDER BY: Ordering::reverse of a compare_sql_values result is reached only under is_null(a) == false and is_null(b) == false')
    n = 0
    for f in prog.fns.values():
        if f.unit != 'vibesql_executor' or shared.is_test(f) or not QUERY_COMPARATORS.search(f.nice) or not f.locals or not f.locals[0].endswith('cmp::Ordering'):
            continue
        s = Sym(f)
        revs = [(i, t) for i, t in f.calls() if (callee_name(t) or '').endswith('cmp::Ordering::reverse')]
        if not revs:
            continue
        n += 1
        bad = []
        for i, t in revs:
            arg = s.op(t['args'][0])
            if 'compare_sql_values(' not in arg:
                continue
            nonnull = [c for c, v in shared.deciding_conditions(f, i, s) if c.startswith('is_null(') and v == '0']
            # tuple-matched form: (a.is_null(), b.is_null()) => (false, false): conditions are the tuple fields, traced to is_null calls by Sym
            if len(nonnull) < 2:
                bad.append(t['l'])
        key = 'R7/' + re.sub(r"<impl [^>]*>::", '', f.nice).split('vibesql_executor::', 1)[-1]
        ctx.instance(key, {'rule': 'C08.R7', 'fn': f.nice, 'loc': f.loc, 'reverse_calls': len(revs), 'reverse_only_for_non_null_operands': not bad})
        if bad:
            ctx.finding(key, f'{f.nice} reverses compare_sql_values for DESC without first separating NULL operands: compare_sql_values ranks NULL highest, so ORDER BY k DESC '
                        'returns the NULL rows first on this path while the other ORDER BY paths return them last', f'{f.file}:{bad[0]}')
    ctx.floor('C08.R7 query comparators that reverse for DESC', n, 3)


def _position_rule(ctx, prog):
    from ..engine.tables import enum_switches
    ctx.rule('C08.R8', 'select-executor functions that read OrderByItem.direction while walking the ORDER BY list: the function, or a callee that receives the item\'s expr, '
             'switches on the Expression discriminant with an arm for Literal')
    EXPR = 'vibesql_ast::expression::Expression'

    def tests_literal(f):
        try:
            return any('Literal' in sw['arms'] for sw in enum_switches(prog, f, EXPR))
        except KeyError:
            return False
    n = 0
    for f in prog.fns.values():
        if f.unit != 'vibesql_executor' or shared.is_test(f) or '::select::' not in f.nice or f.is_closure():
            continue
        reads_dir = False
        for b in f.blocks:
            for st in b['s']:
                if 'd' in st and st['v']['r'] in ('ref', 'use') and 'p' in st['v'] and any(e == '.direction' for e in st['v']['p'][1] if isinstance(e, str)):
                    reads_dir = True
                if 'd' in st and 'a' in st['v'] and isinstance(st['v']['a'], dict) and any(e == '.direction' for e in (st['v']['a'].get('p') or [0, []])[1] if isinstance(e, str)):
                    reads_dir = True
        if not reads_dir:
            continue
        s = Sym(f)
        # builds sort keys: pushes (value, direction) pairs or (index, direction) pairs
        if not any(re.search(r'Vec<.*>::push$|Vec::<.*>::push$', callee_name(t) or '') and '.direction' in s.op(t['args'][1]) for _i, t in f.calls() if len(t['args']) > 1):
            continue
        n += 1
        ok = tests_literal(f)
        via = None
        if not ok:
            for i, t in f.calls():
                if any(re.search(r'\.expr\b', s.op(a)) for a in t['args']):
                    for h in prog.by_nice.get(callee_name(t) or '', []):
                        if h.unit == 'vibesql_executor' and tests_literal(h):
                            ok, via = True, h.nice.rsplit('::', 1)[1]
        key = 'R8/' + re.sub(r"<impl [^>]*>::", '', f.nice).rsplit('::', 1)[-1]
        ctx.instance(key, {'rule': 'C08.R8', 'fn': f.nice, 'loc': f.loc, 'position_form_decided': ok, 'via': via})
        if not ok:
            ctx.finding(key, f'{f.nice} builds ORDER BY sort keys without deciding whether an item is an integer literal (a position in the select list): ORDER BY 1 is '
                        'evaluated as the constant 1 and the rows of this path come back unsorted', f.loc)
    ctx.floor('C08.R8 ORDER BY key builders', n, 3)


def _distinct_rule(ctx, prog):
    ctx.rule('C08.R9', 'execute_with_ctes and, recursively, every select-executor callee that receives the same stmt and whose rows are returned: no successful return is reachable '
             'without helpers::apply_distinct, a complete callee, or a branch on which stmt.distinct is false')

    def sat(f, s, g, atoms):
        out = {i for i, t in f.calls() if (callee_name(t) or '').endswith('select::helpers::apply_distinct')}
        for b, at in atoms.items():
            if 'not_distinct' in at:
                out.add(b)
        return out

    def describe(cl, f, lines):
        return (f'{f.nice} has a path to a successful return that serves DISTINCT without helpers::apply_distinct (through lines {lines}): duplicates that are not neighbours '
                'in the returned order survive (SELECT DISTINCT b FROM t ORDER BY id returns x, y, x)')
    shared.result_path_rule(ctx, prog, 'C08.R9', {'distinct': sat}, describe,
                            reviewed={'execute_select_without_from': 'SELECT without FROM yields at most one row: DISTINCT is the identity on it'})
