"""C08 ORDER BY from an index agrees with ORDER BY from sorting — the NULL-placement clause (T8, sibling agreement).

Sortedness, slicing and distinctness of result sequences are run-time properties and stay undecided.  Decided is the one
clause of the property that has a structural necessary condition, "this holds whether the order comes from sorting or
from an index":
 (R1) the sorting path places NULLs last (compare_sql_values: NULL is greater than every value; observed with the
      triage harness for ASC and for DESC), while an index keeps NULL keys first.  Every FromResult that
      claims "already sorted" (from_rows_sorted / from_rows_where_filtered with a Some claim) must therefore be built
      on a path where the claim was re-decided by a test that no ordering column of the fetched rows is NULL:
      the claim is not the caller's `sorted_columns` value passed through, and the `Some(..)` alternative is
      constructed only where an `any(..)` over the fetched rows, whose closure reads the discriminant of a SqlValue,
      is false;
 (R3) ORDER BY of a set operation orders the combined result: in the function that executes set operations
      (execute_with_ctes) the call of execute_set_operations is followed, before apply_limit_offset, by a test of
      stmt.order_by whose Some branch hands the ORDER BY items and the combined rows to a sorting function;
 (R2) the reference the rule relies on: compare_sql_values orders (NULL, x) as Greater and (x, NULL) as Less.
Does NOT decide that the index order equals the sort order for non-NULL keys (C02 decides the key pipeline), LIMIT /
OFFSET arithmetic, or DISTINCT."""
import re
from ..engine.facts import callee_name
from ..engine.cfg import cfg
from ..engine.symexpr import Sym
from . import shared

UNITS = {'vibesql_executor', 'vibesql_types'}
EX = 'vibesql_executor::'
SV = 'vibesql_types::sql_value::SqlValue'


def _reads_sqlvalue_discr(prog, f, depth=0):
    for b in f.blocks:
        for st in b['s']:
            if 'd' in st and st['v']['r'] == 'discr' and SV in str(st['v'].get('t')):
                return True
    if depth < 2:
        for c in prog.children(f):
            if c.is_closure() and _reads_sqlvalue_discr(prog, c, depth + 1):
                return True
    return False


def run(ctx):
    prog = ctx.prog
    ctx.rule('C08.R1', 'every "already sorted" claim handed to FromResult is re-decided in the producing function: its Some(..) alternative is built only '
             'where an any(..) test over the fetched rows (closure reading a SqlValue discriminant: the NULL test) is false')
    producers = []
    for f in prog.fns.values():
        if f.unit != 'vibesql_executor' or shared.is_test(f):
            continue
        for i, t in f.calls():
            cn = callee_name(t) or ''
            if re.search(r'FromResult::(from_rows_sorted|from_rows_where_filtered)$', cn):
                producers.append((f, i, t))
    ctx.floor('C08.R1 producers of a sorted claim', len(producers), 2)
    for f, i, t in producers:
        s = Sym(f)
        claim = s.op(t['args'][2]) if len(t['args']) > 2 else '?'
        params = {f.names.get(k) for k in range(1, f.argc + 1)}
        raw = re.sub(r'@Some\.0$', '', claim) in params
        # blocks that build the Some(..) alternative of the claim
        some_blocks = []
        for bi, b in enumerate(f.blocks):
            for st in b['s']:
                if 'd' in st and st['v']['r'] == 'agg' and str(st['v'].get('adt', '')).endswith('option::Option') and st['v'].get('variant') == 'Some':
                    e = s.op(st['v']['ops'][0])
                    if any(p and re.search(r'\b' + re.escape(p) + r'\b', e) for p in params if p and 'sorted' in p):
                        some_blocks.append(bi)
        null_tested = False
        for bi in some_blocks:
            for c, v in shared.deciding_conditions(f, bi, s):
                if c.startswith('any(') and v == '0':
                    k = re.search(r'closure#(\d+)', c[::-1][:0] or c)
                    # the closure handed to any(): take the last closure mentioned in the condition
                    ks = re.findall(r'closure#(\d+)', c)
                    for kk in ks[-1:]:
                        for ch in prog.children(f):
                            if ch.nice.endswith('{closure#%s}' % kk) and _reads_sqlvalue_discr(prog, ch):
                                null_tested = True
        ok = (not raw) and null_tested
        key = f'R1/{f.nice.rsplit("::", 1)[1]}/{(callee_name(t) or "").rsplit("::", 1)[1]}'
        ctx.instance(key, {'rule': 'C08.R1', 'fn': f.nice, 'loc': f'{f.file}:{t["l"]}', 'claim': claim[:80], 'claim_is_the_callers_value': raw,
                           'some_alternative_guarded_by_null_test': null_tested})
        if not ok:
            ctx.finding(key, f'{f.nice} hands rows in index order to the executor with the claim "sorted by {claim[:40]}" without testing the ordering columns for '
                        'NULL: the index keeps NULL keys first, ORDER BY places them last, so ORDER BY k (and ORDER BY k LIMIT n) returns the NULL rows first '
                        'once an index on k exists', f'{f.file}:{t["l"]}')

    ctx.rule('C08.R2', 'compare_sql_values (the sorting path): (NULL, non-NULL) is Greater and (non-NULL, NULL) is Less')
    cmpf = ctx.fn(EX + 'select::grouping::aggregates::compare_sql_values')
    sc = Sym(cmpf)
    verdicts = {}
    for bi, b in enumerate(cmpf.blocks):
        for st in b['s']:
            if 'd' in st and st['d'][0] == 0 and st['v']['r'] == 'agg' and str(st['v'].get('adt', '')).endswith('cmp::Ordering'):
                conds = sorted((c, v) for c, v in shared.deciding_conditions(cmpf, bi, sc) if c.startswith('is_null('))
                verdicts[tuple(conds)] = st['v'].get('variant')
    want = {(('is_null(a)', 'else:0'), ('is_null(b)', '0')): 'Greater', (('is_null(a)', '0'), ('is_null(b)', 'else:0')): 'Less'}
    got = {k: v for k, v in verdicts.items()}
    ok2 = all(got.get(k) == v for k, v in want.items())
    ctx.instance('R2/compare_sql_values', {'rule': 'C08.R2', 'null_cases': {str(k): v for k, v in got.items()}, 'nulls_last': ok2})
    if not ok2:
        ctx.finding('R2/compare_sql_values', 'compare_sql_values no longer orders NULL after every value: rule R1 (and the index path) assume NULLS LAST on the sorting path',
                    cmpf.loc)
    _setop_rule(ctx, prog)


def _setop_rule(ctx, prog):
    ctx.rule('C08.R3', 'execute_with_ctes: after execute_set_operations and before apply_limit_offset the ORDER BY of the statement is tested and, when present, '
             'a function receives the ORDER BY items together with the combined rows')
    fs = [f for f in prog.fns.values() if f.unit == 'vibesql_executor' and not f.is_closure() and not shared.is_test(f)
          and any((callee_name(t) or '').endswith('::execute_set_operations') for _i, t in f.calls())
          and any((callee_name(t) or '').endswith('apply_limit_offset') for _i, t in f.calls())]
    ctx.floor('C08.R3 functions that execute a set operation and then cut it with LIMIT/OFFSET', len(fs), 1)
    for f in fs:
        g = cfg(f)
        s = Sym(f)
        E = [i for i, t in f.calls() if (callee_name(t) or '').endswith('::execute_set_operations')]
        L = [i for i, t in f.calls() if (callee_name(t) or '').endswith('apply_limit_offset')]
        sorters = []
        for i, t in f.calls():
            args = [s.op(a) for a in t['args']]
            # receives the ORDER BY items and the variable that holds the combined rows (the first argument of apply_limit_offset)
            rows_var = {s.op(f.blocks[l]['t']['args'][0]) for l in L}
            if any('stmt.order_by' in a for a in args) and any(a in rows_var for a in args) and any(g.dominates(e, i) for e in E):
                sorters.append(i)
        ok = bool(sorters) and all(any(g.dominates(e, c) for e in E) for c in sorters)
        # every path from the set operation to the LIMIT passes the test of stmt.order_by
        tests = [b for b in g.reachable() if f.blocks[b]['t']['k'] == 'switch' and 'stmt.order_by' in shared.switch_condition(f, b, s)
                 and any(g.dominates(e, b) for e in E)]
        passes = bool(tests) and all(any(g.dominates(tb, l) for tb in tests) for l in L if any(g.dominates(e, l) for e in E))
        ctx.instance(f'R3/{f.nice.rsplit("::", 1)[1]}', {'rule': 'C08.R3', 'fn': f.nice, 'sorting_calls_after_the_set_operation': len(sorters),
                                                         'order_by_tested_between_set_operation_and_limit': passes})
        if not (ok and passes):
            ctx.finding(f'R3/{f.nice.rsplit("::", 1)[1]}', f'{f.nice} cuts the result of a set operation with LIMIT/OFFSET without ordering it by the statement\'s ORDER BY: '
                        'only the left operand was sorted, the rows of the right operand follow unsorted (SELECT v FROM p UNION SELECT v FROM q ORDER BY v)', f.loc)
