"""C14 ROLLBACK TO SAVEPOINT restores the state at the savepoint — structural clauses.

Decides (a) every row mutation reachable from an INSERT/UPDATE/DELETE statement is followed on
every Ok path by Database::record_change with the TransactionChange variant of the same kind;
(b) Database::undo_change applies the inverse of each variant (which row image reaches
remove_row / insert); (c) rollback_to_savepoint drains the change log from the savepoint's index,
undoes newest-first, keeps the savepoint and truncates later ones; release_savepoint reaches no
table mutator.  Does NOT decide position-preserving undo or index effects (C15)."""
from ..engine.callgraph import CallGraph
from ..engine.paths import Follow, none_edges
from ..engine.facts import callee_name
from ..engine.cfg import cfg, defs_of, op_place, op_local
from ..engine.run import AnalysisError
from . import matrix as M

UNITS = M.EXECUTOR_UNITS
TC = 'vibesql_storage::database::transactions::TransactionChange'
REC = {M.D + 'record_change', 'vibesql_storage::database::transactions::TransactionManager::record_change'}


def recorded_variant(fn, t, defs):
    """variant of the TransactionChange aggregate passed to record_change, or None"""
    if not t['args']:
        return None
    l = op_local(t['args'][-1])
    for _ in range(8):
        if l is None:
            return None
        ds = defs.get(l, [])
        if len(ds) != 1 or ds[0][1] != 'assign':
            return None
        v = ds[0][2]
        if v['r'] == 'agg' and v.get('kind') == 'adt' and v['adt'] == TC:
            return v['variant']
        if v['r'] in ('use', 'cast'):
            l = op_local(v['a'])
        else:
            return None
    return None


def arm_regions(fn, scrut_local):
    """{variant_value: (target_block, dominated_blocks)} for the switch on discriminant(scrut_local)"""
    g = cfg(fn)
    for i, b in enumerate(fn.blocks):
        dl = None
        for s in b['s']:
            if 'd' in s and s['v']['r'] == 'discr' and s['v']['p'][0] == scrut_local and not s['v']['p'][1]:
                dl = s['d'][0]
        t = b['t']
        if dl is not None and t['k'] == 'switch':
            p = op_place(t['on'])
            if p and p[0] == dl:
                out = {}
                for v, tb in t['targets']:
                    out[v] = (tb, {x for x in g.reachable() if g.dominates(tb, x)})
                return out
    return None


def source_field(fn, l, defs, depth=0):
    """field of the matched enum value a local was moved/borrowed from, e.g. '@Update.old_row'"""
    if depth > 8 or l is None:
        return None
    ds = defs.get(l, [])
    if len(ds) != 1 or ds[0][1] != 'assign':
        return None
    v = ds[0][2]
    if v['r'] in ('use', 'cast'):
        p = op_place(v['a'])
    elif v['r'] == 'ref':
        p = v['p']
    else:
        return None
    if p is None:
        return None
    proj = [e for e in p[1] if e != '*']
    if len(proj) >= 2 and proj[0].startswith('@'):
        return proj[0] + proj[1]
    return source_field(fn, p[0], defs, depth + 1)


def run(ctx):
    prog = ctx.prog
    M.check_api_closed(ctx)
    cg = CallGraph(prog)

    # ------------------------------------------------------------------ (a) change recording
    ctx.rule('C14.a', 'every Table row mutation reachable from InsertExecutor/UpdateExecutor/DeleteExecutor entry '
             'points is followed on every Ok path by Database::record_change(TransactionChange::<same kind>) '
             '(Database::insert_row|insert_rows_batch are summarised from their bodies)')
    entries = M.dml_entries(ctx)
    epaths = [f.path for fs in entries.values() for f in fs]
    reach = cg.reach(epaths)
    ctx.extra['dml_reachable_functions'] = len(reach)
    scope = [f for f in prog.fns.values() if f.unit in ('vibesql_executor', 'vibesql_storage') and not M.in_impl_table(f)]
    CAT_GET = {'vibesql_catalog::store::tables::<impl vibesql_catalog::store::Catalog>::get_table'}
    dead = lambda f: none_edges(f, CAT_GET) if f.unit == 'vibesql_storage' else frozenset()
    defs_cache = {}

    def is_rec(kind):
        def pred(t, fn):
            if callee_name(t) not in REC:
                return False
            d = defs_cache.get(fn.path)
            if d is None:
                d = defs_cache[fn.path] = defs_of(fn)
            v = recorded_variant(fn, t, d)
            return v == kind
        return pred

    kinds = (('Insert', M.ROW_INSERT), ('Update', M.ROW_UPDATE), ('Delete', M.ROW_DELETE | M.ROW_RAW))
    nsites = 0
    UNDO = M.D + 'undo_change'
    for kind, muts in kinds:
        fo = Follow(prog, cg, lambda t, fn, muts=muts: callee_name(t) in muts, is_rec(kind), scope, dead=dead)
        for f in scope:
            if f.path not in reach:
                continue
            for i, t in f.calls():
                if callee_name(t) in muts:
                    nsites += 1
                    ctx.instance(f'a/{f.nice}/{callee_name(t)}', {'rule': 'C14.a', 'fn': f.nice, 'loc': f'{f.file}:{t["l"]}',
                                                                     'mutation': callee_name(t), 'kind': kind})
        esc = M.shortest_escapes(fo, M.roots_pred(cg))
        for (ofn, ocal), chain in sorted(esc.items()):
            of = prog.by_nice[ofn][0]
            if of.path not in reach:
                continue          # not part of an INSERT/UPDATE/DELETE statement (DDL, loaders, undo itself)
            if ofn == UNDO:
                continue
            ctx.finding(f'a/{ofn}/{ocal}', f'{ofn}: {ocal.rsplit("::",1)[1]} is not followed by '
                        f'record_change(TransactionChange::{kind}) on every successful path, so ROLLBACK TO SAVEPOINT cannot '
                        f'undo it ({M.chain_str(chain)})', of.loc, {'chain': chain})
    ctx.floor('C14.a row-mutation call sites reachable from DML entry points', nsites, 9)

    recorded = set()
    for f in prog.fns.values():
        d = None
        for i, t in f.calls():
            if callee_name(t) in REC:
                d = d or defs_of(f)
                v = recorded_variant(f, t, d)
                if v:
                    recorded.add(v)
    ctx.extra['recorded_change_variants'] = sorted(recorded)
    ctx.require('Insert' in recorded, 'no record_change(TransactionChange::Insert) found: the recording idiom is no longer recognised')

    # ------------------------------------------------------------------ (b) undo is the inverse table
    ctx.rule('C14.b', 'Database::undo_change: Insert{row}→remove_row(row); Update{old_row,new_row}→remove_row(new_row), '
             'insert(old_row); Delete{row}→insert(row) — decided from which matched field reaches each call')
    undo = ctx.fn(UNDO)
    adt = prog.adt(TC)
    vnames = [v['name'] for v in adt['variants']]
    ctx.require(vnames == ['Insert', 'Update', 'Delete'],
                f'TransactionChange variants changed: {vnames} (inverse table must be re-derived)')
    arms = arm_regions(undo, 2)
    ctx.require(arms is not None and len(arms) == 3, 'undo_change: match on the change not found')
    defs = defs_of(undo)
    EXPECT = {'Insert': {('remove_row', '@Insert.row')},
              'Update': {('remove_row', '@Update.new_row'), ('insert', '@Update.old_row')},
              'Delete': {('insert', '@Delete.row')}}
    for vi, vn in enumerate(vnames):
        ctx.require(vi in arms, f'undo_change: no arm for TransactionChange::{vn}')
        tb, region = arms[vi]
        got = set()
        for i, t in undo.calls():
            if i not in region:
                continue
            cn = callee_name(t)
            if cn in (M.T + 'remove_row', M.T + 'insert'):
                src = source_field(undo, op_local(t['args'][1]), defs)
                got.add((cn.rsplit('::', 1)[1], src))
        ctx.instance(f'b/{vn}', {'rule': 'C14.b', 'variant': vn, 'calls': sorted(map(str, got))})
        if got != EXPECT[vn] and vn not in recorded:
            ctx.exempt(f'b/undo_change/{vn}', f'undo arm {vn} performs {sorted(map(str, got))} (not the inverse) but no code records '
                       f'TransactionChange::{vn} today (finding C14.a), so the arm is unreachable; the exemption lapses as soon as '
                       f'such a change is recorded anywhere')
        elif got != EXPECT[vn]:
            ctx.finding(f'b/undo_change/{vn}', f'undo_change arm {vn} performs {sorted(map(str,got))}, the inverse is '
                        f'{sorted(map(str,EXPECT[vn]))}', undo.loc, {'got': sorted(map(str, got))})

    # ------------------------------------------------------------------ (c) savepoint bookkeeping
    ctx.rule('C14.c', 'TransactionManager::rollback_to_savepoint drains the change log and truncates (not removes) the '
             'savepoint stack; Database::rollback_to_savepoint undoes newest-first (Iterator::rev) through undo_change; '
             'release_savepoint reaches no table mutator and does not touch the change log')
    TM = 'vibesql_storage::database::transactions::TransactionManager::'
    rts = ctx.fn(TM + 'rollback_to_savepoint')
    names = {callee_name(t) for _, t in rts.calls()}
    ctx.instance('c/rollback_to_savepoint')
    if 'alloc::vec::Vec::<T, A>::drain' not in names:
        ctx.finding('c/rollback_to_savepoint/drain', 'rollback_to_savepoint no longer drains the change log from the savepoint index', rts.loc)
    if 'alloc::vec::Vec::<T, A>::truncate' not in names:
        ctx.finding('c/rollback_to_savepoint/truncate', 'rollback_to_savepoint no longer truncates later savepoints', rts.loc)
    if 'alloc::vec::Vec::<T, A>::remove' in names or 'alloc::vec::Vec::<T, A>::clear' in names:
        ctx.finding('c/rollback_to_savepoint/destroys', 'rollback_to_savepoint removes/clears savepoints (the target savepoint must stay alive)', rts.loc)
    # drain and truncate must lie on every successful path (an early `Ok(..)` before them keeps later savepoints alive)
    from ..engine.paths import ok_exit_reachable
    for callee, what in (('alloc::vec::Vec::<T, A>::truncate', 'truncating the later savepoints'), ('alloc::vec::Vec::<T, A>::drain', 'draining the change log')):
        blocks = {i for i, t in rts.calls() if callee_name(t) == callee}
        if blocks and ok_exit_reachable(rts, [0], blocks, loop_model=False) is not None:
            ctx.finding(f'c/rollback_to_savepoint/bypass/{callee.rsplit("::",1)[1]}', f'rollback_to_savepoint can return Ok without {what}', rts.loc)
    # the undo primitive removes exactly one row (rows are a multiset: equal rows may exist)
    rr = ctx.fn(M.T + 'remove_row')
    from .C15 import rows_mut_sites
    kinds = {(k, c.rsplit('::', 1)[-1]) for (_, k, c, _) in rows_mut_sites(rr)}
    ctx.instance('c/Table::remove_row', {'row_vector_operations': sorted(map(str, kinds))})
    bad = [c for (k, c) in kinds if c in ('retain', 'drain', 'clear', 'truncate', 'dedup', 'retain_mut')]
    if bad or not any(c in ('remove', 'swap_remove') for (_, c) in kinds):
        ctx.finding('c/Table::remove_row/not-single', f'Table::remove_row (the undo primitive) edits the row vector with {sorted(c for _, c in kinds)}: '
                    f'it must remove exactly one row even when equal rows exist', rr.loc)
    drts = ctx.fn(M.D + 'rollback_to_savepoint')
    dn = [callee_name(t) for _, t in drts.calls()]
    ctx.instance('c/Database::rollback_to_savepoint')
    if 'core::iter::traits::iterator::Iterator::rev' not in [t['f'].get('n') for _, t in drts.calls() if 'ptr' not in t['f']]:
        ctx.finding('c/Database::rollback_to_savepoint/order', 'changes are no longer undone newest-first (Iterator::rev missing)', drts.loc)
    if UNDO not in dn:
        ctx.finding('c/Database::rollback_to_savepoint/undo', 'rollback_to_savepoint no longer calls undo_change', drts.loc)
    for nm in (TM + 'release_savepoint', M.D + 'release_savepoint', 'vibesql_executor::transaction::ReleaseSavepointExecutor::execute'):
        f = ctx.fn(nm)
        r = cg.reach([f.path])
        bad = sorted({callee_name(t) for p in r for _, t in prog.fns[p].calls()
                      if callee_name(t) in (M.ROW_MUTATORS | {UNDO, 'alloc::vec::Vec::<T, A>::drain'})})
        ctx.instance(f'c/{nm}')
        if bad:
            ctx.finding(f'c/{nm}/mutates', f'RELEASE SAVEPOINT path reaches {bad}', f.loc)
    ctx.assumptions.append('record_change with the right variant also carries the right row images (value-level; not decided)')
