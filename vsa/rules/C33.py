"""C33 Schema changes keep catalog, storage and indexes consistent — structural clauses.

Decides: (a) every change of a stored table's schema through Table::schema_mut is followed on
every Ok path by the catalog re-registration (Catalog::create_table after drop_table) — the
executors read the catalog copy, so an unsynchronised change leaves two different schemas;
(b) DROP TABLE passes through the purge of the table's indexes in catalog and storage; DROP INDEX
removes the entry from catalog and storage; (c) CREATE INDEX registers the index in the catalog
and in storage on every Ok path, and a failure of the storage step does not leave the catalog
entry behind.  Does NOT decide identifier case handling."""
from ..engine.callgraph import CallGraph
from ..engine.paths import Follow, ok_exit_reachable, err_exits_reachable, success_starts, err_origin
from ..engine.facts import callee_name
from . import matrix as M

UNITS = M.EXECUTOR_UNITS
EX = 'vibesql_executor::'
CAT_T = 'vibesql_catalog::store::tables::<impl vibesql_catalog::store::Catalog>::'
CAT_I = 'vibesql_catalog::store::indexes::<impl vibesql_catalog::store::Catalog>::'


CREATE_INDEX_EXC = {
    M.D + 'create_spatial_index': 'not demonstrable: duplicate names are rejected before add_index (spatial_index_exists); no other failure mode',
}


def must_pass(ctx, fn, callees, key, what):
    """every Ok path of fn passes a call to one of `callees`"""
    blocks = {i for i, t in fn.calls() if callee_name(t) in callees}
    ctx.instance(key, {'fn': fn.nice, 'must_pass': sorted(c.rsplit('::', 1)[1] for c in callees)})
    if not blocks or ok_exit_reachable(fn, [0], blocks) is not None:
        return False
    return True


def run(ctx):
    prog = ctx.prog
    cg = CallGraph(prog)
    scope = [f for f in prog.fns.values() if f.unit == 'vibesql_executor']

    # ---------------------------------------------------------------- (a) dual-schema coherence
    ctx.rule('C33.a', 'after Table::schema_mut() in the executor, Catalog::create_table (re-registration of the changed schema) is '
             'called on every path to an Ok return; helpers pass the obligation to their callers')
    fo = Follow(prog, cg, lambda t, fn: callee_name(t) == M.T + 'schema_mut',
                lambda t, fn: callee_name(t) in (CAT_T + 'create_table', M.D + 'create_table'), scope)
    n = 0
    for f in scope:
        for i, t in f.calls():
            if callee_name(t) == M.T + 'schema_mut':
                n += 1
                ctx.instance(f'a/{f.nice}/schema_mut@{n}', {'rule': 'C33.a', 'fn': f.nice, 'loc': f'{f.file}:{t["l"]}'})
    ctx.floor('C33.a Table::schema_mut call sites in the executor', n, 18)
    for (ofn, ocal), chain in sorted(M.shortest_escapes(fo, M.roots_pred(cg)).items()):
        f = prog.by_nice[ofn][0]
        ctx.finding(f'a/{ofn}/schema_mut', f'{ofn} changes the stored table schema but does not re-register it in the catalog on every '
                    f'successful path ({M.chain_str(chain)})', f.loc, {'chain': chain})

    # ---------------------------------------------------------------- (b) purge on DROP
    ctx.rule('C33.b', 'DropTableExecutor::execute passes Catalog::drop_table_indexes and Database::drop_table on every Ok path that '
             'drops; Operations::drop_table passes IndexManager::drop_indexes_for_table, drop_spatial_indexes_for_table and '
             'Catalog::drop_table; DropIndexExecutor::execute passes Catalog::drop_index')
    dte = ctx.fn(EX + 'drop_table::DropTableExecutor::execute')
    # IF EXISTS on a missing table returns Ok without dropping: start from the privilege check (table exists)
    chk = [i for i, t in dte.calls() if callee_name(t) == EX + 'privilege_checker::PrivilegeChecker::check_drop']
    ctx.require(len(chk) == 1, 'DropTableExecutor::execute: check_drop anchor not found')
    for callee, nm in ((CAT_I + 'drop_table_indexes', 'catalog index purge'), (M.D + 'drop_table', 'storage drop_table')):
        blocks = {i for i, t in dte.calls() if callee_name(t) == callee}
        ctx.instance(f'b/DropTableExecutor/{callee}')
        if not blocks or ok_exit_reachable(dte, success_starts(dte, chk[0]), blocks) is not None:
            ctx.finding(f'b/DropTableExecutor/{callee}', f'DROP TABLE can succeed without the {nm} ({callee.rsplit("::",1)[1]})', dte.loc)
    # the storage-side index removal for each catalog index dropped
    di = {i for i, t in dte.calls() if callee_name(t) in (M.D + 'drop_index',)}
    ctx.instance('b/DropTableExecutor/storage-index-drop')
    if not di:
        ctx.finding('b/DropTableExecutor/storage-index-drop', 'DROP TABLE no longer removes the table\'s indexes from storage', dte.loc)
    ops = ctx.fn(M.OPS + 'drop_table')
    IMD = 'vibesql_storage::database::indexes::index_maintenance::<impl vibesql_storage::database::indexes::index_manager::IndexManager>::drop_indexes_for_table'
    for callee in (IMD, M.OPS + 'drop_spatial_indexes_for_table', CAT_T + 'drop_table'):
        if not must_pass(ctx, ops, {callee}, f'b/Operations::drop_table/{callee}', ''):
            ctx.finding(f'b/Operations::drop_table/{callee}', f'Operations::drop_table can return Ok without {callee.rsplit("::",1)[1]}', ops.loc)
    # the table itself leaves the storage map
    rm = [t for _, t in ops.calls() if (callee_name(t) or '').startswith('std::collections::hash::map::HashMap::<K, V, S, A>::remove')]
    ctx.instance('b/Operations::drop_table/tables.remove')
    if not rm:
        ctx.finding('b/Operations::drop_table/tables.remove', 'Operations::drop_table no longer removes the table from the storage map', ops.loc)
    die = ctx.fn(EX + 'index_ddl::drop_index::DropIndexExecutor::execute')
    ctx.instance('b/DropIndexExecutor')
    names = {callee_name(t) for _, t in die.calls()}
    if CAT_I + 'drop_index' not in names or M.D + 'drop_index' not in names:
        ctx.finding('b/DropIndexExecutor/both-sides', 'DROP INDEX no longer removes the index from both catalog and storage', die.loc)

    # ---------------------------------------------------------------- (c) CREATE INDEX two-step registration
    ctx.rule('C33.c', 'CreateIndexExecutor::execute: after Catalog::add_index succeeded, Database::create_index|create_spatial_index is '
             'passed on every Ok path, and no Err return is reachable after add_index without Catalog::drop_index (undo)')
    cie = ctx.fn(EX + 'index_ddl::create_index::CreateIndexExecutor::execute')
    adds = [i for i, t in cie.calls() if callee_name(t) == CAT_I + 'add_index']
    ctx.floor('Catalog::add_index call sites in CreateIndexExecutor::execute', len(adds), 2)
    store = {i for i, t in cie.calls() if callee_name(t) in (M.D + 'create_index', M.D + 'create_spatial_index')}
    undo = {i for i, t in cie.calls() if callee_name(t) == CAT_I + 'drop_index'}
    for k, a in enumerate(adds):
        ctx.instance(f'c/CreateIndexExecutor/add_index#{k}')
        if ok_exit_reachable(cie, success_starts(cie, a), store) is not None:
            ctx.finding(f'c/CreateIndexExecutor/storage-step#{k}', 'CREATE INDEX can succeed with the index registered in the catalog only', cie.loc)
        errs, _ = err_exits_reachable(cie, success_starts(cie, a), undo, loop_model=True)
        for e in errs:
            org = err_origin(cie, e)
            if org in CREATE_INDEX_EXC:
                ctx.exempt(f'c/CreateIndexExecutor/err-after-add_index/{org}', CREATE_INDEX_EXC[org])
                continue
            ctx.finding(f'c/CreateIndexExecutor/err-after-add_index/{org}', f'CREATE INDEX: {org} can fail after Catalog::add_index '
                        f'succeeded and the catalog entry is not removed', f'{cie.file}:{cie.blocks[e]["t"]["l"]}')
    # CREATE TABLE registers in catalog (through Operations::create_table) and storage map
    oc = ctx.fn(M.OPS + 'create_table')
    ctx.instance('c/Operations::create_table')
    if not must_pass(ctx, oc, {CAT_T + 'create_table'}, 'c/Operations::create_table/catalog', ''):
        ctx.finding('c/Operations::create_table/catalog', 'Operations::create_table can return Ok without registering the table in the catalog', oc.loc)
    dct = ctx.fn(M.D + 'create_table')
    ins = [t for _, t in dct.calls() if (callee_name(t) or '').startswith('std::collections::hash::map::HashMap::<K, V, S, A>::insert')]
    if not ins or not any(callee_name(t) == M.T + 'new' for _, t in dct.calls()):
        ctx.finding('c/Database::create_table/storage', 'Database::create_table no longer inserts a fresh Table::new into the storage map', dct.loc)
