"""C33 Schema changes keep catalog, storage and indexes consistent — structural clauses.

Decides: (a) every change of a stored table's schema through Table::schema_mut is followed on
every Ok path by the catalog re-registration (Catalog::replace_table, or create_table for a new name) — the
executors read the catalog copy, so an unsynchronised change leaves two different schemas;
(a') the re-registration of a table that stays is in place: outside DROP TABLE / RENAME TABLE no executor function calls
Catalog::drop_table and then Catalog::create_table (drop_table also drops the table's triggers);
(b) DROP TABLE passes through the purge of the table's indexes in catalog and storage; DROP INDEX
removes the entry from catalog and storage; (c) CREATE INDEX registers the index in the catalog
and in storage on every Ok path, and a failure of the storage step does not leave the catalog
entry behind.  (d) functions that look a table or index up in
the same registry derive their keys the same way (sibling probe sequences agree; the writer's key
form is one the readers probe; index registries are touched only through normalize_index_name or
through keys read from the registry itself); (e) CREATE INDEX tests the storage registry (the one
whose insertion fails on duplicates) for the name before it touches the catalog; (f) no
order-changing operation is applied to Row.values (columns are positional); (g) the name-to-position cache of a
table definition follows its column list: inside TableSchema every structural change of `columns` (push / remove / insert
/ retain ..) is followed on every successful path by the matching maintenance of column_index_cache (insert, or clear /
remove of the name), and outside vibesql_catalog nothing assigns ColumnSchema.name in place (the cache cannot see it).
Does NOT decide which case rule is right, only that all parties use the same one."""
from ..engine.callgraph import CallGraph
from ..engine.paths import Follow, ok_exit_reachable, err_exits_reachable, success_starts, err_origin
from ..engine.facts import callee_name
from . import matrix as M

UNITS = M.EXECUTOR_UNITS
import re
from ..engine.symexpr import Sym
from ..engine.cfg import cfg, op_local
EX = 'vibesql_executor::'
CAT_T = 'vibesql_catalog::store::tables::<impl vibesql_catalog::store::Catalog>::'
CAT_I = 'vibesql_catalog::store::indexes::<impl vibesql_catalog::store::Catalog>::'


CREATE_INDEX_EXC = {
    M.D + 'create_spatial_index': 'not demonstrable: duplicate names are rejected before add_index (spatial_index_exists); no other failure mode',
}


def must_pass(ctx, fn, callees, key, what):
    """every Ok path of fn passes a call to one of `callees`"""
    blocks = {i for i, t in fn.calls() if callee_name(t) in callees}
    ctx.instance(key, {'fn': fn.nice, 'must_pass': sorted(c.rsplit('::', 1)[1] for c in callees)})
    if not blocks or ok_exit_reachable(fn, [0], blocks) is not None:
        return False
    return True


def run(ctx):
    prog = ctx.prog
    cg = CallGraph(prog)
    scope = [f for f in prog.fns.values() if f.unit == 'vibesql_executor']

    # ---------------------------------------------------------------- (a) dual-schema coherence
    ctx.rule('C33.a', 'after Table::schema_mut() in the executor, Catalog::replace_table / create_table (re-registration of the changed schema) is '
             'called on every path to an Ok return; helpers pass the obligation to their callers')
    fo = Follow(prog, cg, lambda t, fn: callee_name(t) == M.T + 'schema_mut',
                lambda t, fn: callee_name(t) in (CAT_T + 'create_table', CAT_T + 'replace_table', M.D + 'create_table'), scope)
    n = 0
    for f in scope:
        for i, t in f.calls():
            if callee_name(t) == M.T + 'schema_mut':
                n += 1
                ctx.instance(f'a/{f.nice}/schema_mut@{n}', {'rule': 'C33.a', 'fn': f.nice, 'loc': f'{f.file}:{t["l"]}'})
    ctx.floor('C33.a Table::schema_mut call sites in the executor', n, 18)
    for (ofn, ocal), chain in sorted(M.shortest_escapes(fo, M.roots_pred(cg)).items()):
        f = prog.by_nice[ofn][0]
        ctx.finding(f'a/{ofn}/schema_mut', f'{ofn} changes the stored table schema but does not re-register it in the catalog on every '
                    f'successful path ({M.chain_str(chain)})', f.loc, {'chain': chain})

    # ---------------------------------------------------------------- (a') in-place re-registration
    ctx.rule("C33.a'", 'no executor function other than the DROP TABLE / RENAME TABLE executors calls Catalog::drop_table and, on a path behind it, Catalog::create_table '
             '(drop_table removes the triggers of the table)')
    REREG_OK = re.compile(r'(drop_table::DropTableExecutor::execute|alter::table_options::execute_rename_table)$')
    nre = 0
    for f in scope:
        drops = [i for i, t in f.calls() if callee_name(t) == CAT_T + 'drop_table']
        creates = [i for i, t in f.calls() if callee_name(t) in (CAT_T + 'create_table', M.D + 'create_table')]
        if drops:
            nre += 1
        if not drops or not creates or REREG_OK.search(f.nice):
            continue
        g = cfg(f)
        from .shared import _forward_reach
        for d_ in drops:
            if any(c_ in _forward_reach(g, d_) for c_ in creates):
                short = f.nice.rsplit('::', 1)[1]
                ctx.finding(f"a'/{short}", f'{f.nice} re-registers a table by Catalog::drop_table + create_table: drop_table also drops every trigger of the table, so the '
                            'statement silently removes them (ALTER TABLE t ADD CONSTRAINT .. on a table with triggers)', f'{f.file}:{f.blocks[d_]["t"]["l"]}')
                break
    anchor = sum(1 for f in prog.fns.values() if any(callee_name(t) == CAT_T + 'drop_table' for _i, t in f.calls()))
    ctx.instance("a'/callers", {'rule': "C33.a'", 'executor_functions_calling_catalog_drop_table': nre, 'callers_anywhere': anchor})
    ctx.floor("C33.a' callers of Catalog::drop_table anywhere (the callee name still resolves)", anchor, 1)

    # ---------------------------------------------------------------- (b) purge on DROP
    ctx.rule('C33.b', 'DropTableExecutor::execute passes Catalog::drop_table_indexes and Database::drop_table on every Ok path that '
             'drops; Operations::drop_table passes IndexManager::drop_indexes_for_table, drop_spatial_indexes_for_table and '
             'Catalog::drop_table; DropIndexExecutor::execute passes Catalog::drop_index')
    dte = ctx.fn(EX + 'drop_table::DropTableExecutor::execute')
    # IF EXISTS on a missing table returns Ok without dropping: start from the privilege check (table exists)
    chk = [i for i, t in dte.calls() if callee_name(t) == EX + 'privilege_checker::PrivilegeChecker::check_drop']
    ctx.require(len(chk) == 1, 'DropTableExecutor::execute: check_drop anchor not found')
    for callee, nm in ((CAT_I + 'drop_table_indexes', 'catalog index purge'), (M.D + 'drop_table', 'storage drop_table')):
        blocks = {i for i, t in dte.calls() if callee_name(t) == callee}
        ctx.instance(f'b/DropTableExecutor/{callee}')
        if not blocks or ok_exit_reachable(dte, success_starts(dte, chk[0]), blocks) is not None:
            ctx.finding(f'b/DropTableExecutor/{callee}', f'DROP TABLE can succeed without the {nm} ({callee.rsplit("::",1)[1]})', dte.loc)
    # the storage-side index removal for each catalog index dropped
    di = {i for i, t in dte.calls() if callee_name(t) in (M.D + 'drop_index',)}
    ctx.instance('b/DropTableExecutor/storage-index-drop')
    if not di:
        ctx.finding('b/DropTableExecutor/storage-index-drop', 'DROP TABLE no longer removes the table\'s indexes from storage', dte.loc)
    ops = ctx.fn(M.OPS + 'drop_table')
    IMD = 'vibesql_storage::database::indexes::index_maintenance::<impl vibesql_storage::database::indexes::index_manager::IndexManager>::drop_indexes_for_table'
    for callee in (IMD, M.OPS + 'drop_spatial_indexes_for_table', CAT_T + 'drop_table'):
        if not must_pass(ctx, ops, {callee}, f'b/Operations::drop_table/{callee}', ''):
            ctx.finding(f'b/Operations::drop_table/{callee}', f'Operations::drop_table can return Ok without {callee.rsplit("::",1)[1]}', ops.loc)
    # the table itself leaves the storage map
    rm = [t for _, t in ops.calls() if (callee_name(t) or '').startswith('std::collections::hash::map::HashMap::<K, V, S, A>::remove')]
    ctx.instance('b/Operations::drop_table/tables.remove')
    if not rm:
        ctx.finding('b/Operations::drop_table/tables.remove', 'Operations::drop_table no longer removes the table from the storage map', ops.loc)
    die = ctx.fn(EX + 'index_ddl::drop_index::DropIndexExecutor::execute')
    ctx.instance('b/DropIndexExecutor')
    names = {callee_name(t) for _, t in die.calls()}
    if CAT_I + 'drop_index' not in names or M.D + 'drop_index' not in names:
        ctx.finding('b/DropIndexExecutor/both-sides', 'DROP INDEX no longer removes the index from both catalog and storage', die.loc)

    # ---------------------------------------------------------------- (c) CREATE INDEX two-step registration
    ctx.rule('C33.c', 'CreateIndexExecutor::execute: after Catalog::add_index succeeded, Database::create_index|create_spatial_index is '
             'passed on every Ok path, and no Err return is reachable after add_index without Catalog::drop_index (undo)')
    cie = ctx.fn(EX + 'index_ddl::create_index::CreateIndexExecutor::execute')
    adds = [i for i, t in cie.calls() if callee_name(t) == CAT_I + 'add_index']
    ctx.floor('Catalog::add_index call sites in CreateIndexExecutor::execute', len(adds), 2)
    store = {i for i, t in cie.calls() if callee_name(t) in (M.D + 'create_index', M.D + 'create_spatial_index')}
    undo = {i for i, t in cie.calls() if callee_name(t) == CAT_I + 'drop_index'}
    for k, a in enumerate(adds):
        ctx.instance(f'c/CreateIndexExecutor/add_index#{k}')
        if ok_exit_reachable(cie, success_starts(cie, a), store) is not None:
            ctx.finding(f'c/CreateIndexExecutor/storage-step#{k}', 'CREATE INDEX can succeed with the index registered in the catalog only', cie.loc)
        errs, _ = err_exits_reachable(cie, success_starts(cie, a), undo, loop_model=True)
        for e in errs:
            org = err_origin(cie, e)
            if org in CREATE_INDEX_EXC:
                ctx.exempt(f'c/CreateIndexExecutor/err-after-add_index/{org}', CREATE_INDEX_EXC[org])
                continue
            ctx.finding(f'c/CreateIndexExecutor/err-after-add_index/{org}', f'CREATE INDEX: {org} can fail after Catalog::add_index '
                        f'succeeded and the catalog entry is not removed', f'{cie.file}:{cie.blocks[e]["t"]["l"]}')
    # CREATE TABLE registers in catalog (through Operations::create_table) and storage map
    oc = ctx.fn(M.OPS + 'create_table')
    ctx.instance('c/Operations::create_table')
    if not must_pass(ctx, oc, {CAT_T + 'create_table'}, 'c/Operations::create_table/catalog', ''):
        ctx.finding('c/Operations::create_table/catalog', 'Operations::create_table can return Ok without registering the table in the catalog', oc.loc)
    dct = ctx.fn(M.D + 'create_table')
    ins = [t for _, t in dct.calls() if (callee_name(t) or '').startswith('std::collections::hash::map::HashMap::<K, V, S, A>::insert')]
    if not ins or not any(callee_name(t) == M.T + 'new' for _, t in dct.calls()):
        ctx.finding('c/Database::create_table/storage', 'Database::create_table no longer inserts a fresh Table::new into the storage map', dct.loc)


    key_agreement(ctx)
    create_index_precheck(ctx)
    positional_rows(ctx)
    storage_registration_order(ctx)


# --------------------------------------------------------------------------- (d) registry key agreement
MAP_OPS = ('get', 'get_mut', 'contains_key', 'remove', 'insert', 'entry')


def probes(f):
    """[(block, op, map_sym, key_sym)] for hash-map accesses of f, arguments renamed to $1.. in order of appearance"""
    s = Sym(f)
    out = []
    for i, t in f.calls():
        cn = callee_name(t) or ''
        op = cn.rsplit('::', 1)[-1].split('<')[0]
        if ('HashMap' in cn or 'BTreeMap' in cn) and op in MAP_OPS and len(t['args']) >= 2:
            out.append((i, op, s.op(t['args'][0]), s.op(t['args'][1])))
    return out


def rename_args(f, exprs):
    names = [f.names.get(l) for l in range(1, f.argc + 1) if f.names.get(l) and f.names.get(l) != 'self'
             and ('str' in f.locals[l] or 'String' in f.locals[l] or 'Schema' in f.locals[l] or 'Metadata' in f.locals[l])]
    order = []
    for e in exprs:
        for m in re.finditer(r'[A-Za-z_][A-Za-z_0-9]*', e):
            if m.group(0) in names and m.group(0) not in order:
                order.append(m.group(0))
    out = []
    for e in exprs:
        for k, n in enumerate(order):
            e = re.sub(r'(?<![A-Za-z_0-9.])' + re.escape(n) + r'(?![A-Za-z_0-9])', f'${k+1}', e)
        out.append(e.replace('self.', ''))
    return out


def expand(e):
    """phi-free alternatives of an expression"""
    k = e.find('phi(')
    if k < 0:
        return {e}
    depth = 0; j = k + 4; parts = []; start = j
    while j < len(e):
        c = e[j]
        if c == '(':
            depth += 1
        elif c == ')':
            if depth == 0:
                break
            depth -= 1
        elif depth == 0 and e.startswith(' | ', j):
            parts.append(e[start:j]); start = j + 3; j += 2
        j += 1
    parts.append(e[start:j])
    out = set()
    for alt in parts:
        out |= expand(e[:k] + alt + e[j + 1:])
    return out


def ordered_keys(f, rows):
    """distinct keys in probe order (dominance depth of the first probe)"""
    g = cfg(f)
    first = {}
    for (b, op, mp, key) in rows:
        first.setdefault(key, b)
    blocks = list(first.values())
    return [k for k, b in sorted(first.items(), key=lambda kv: sum(1 for x in blocks if g.dominates(x, kv[1])))]


INDEX_KEY_EXC = {
    'vibesql_storage::database::indexes::index_manager::IndexManager::spill_index_to_disk':
        'private helper; both callers pass a key just read from the registry itself (coldest index)',
}


def key_agreement(ctx):
    prog = ctx.prog
    ctx.rule('C33.d', 'sibling lookups of one registry derive their keys identically: Database::get_table / get_table_mut probe the same '
             'key forms in the same order; the Operations functions that resolve a table in the `tables` map agree with each other; '
             'the key form written by Database::create_table is probed by every one of them and removed by Operations::drop_table; '
             'IndexManager.indexes/index_data and Operations.spatial_indexes are accessed only through normalize_index_name(arg) or '
             'through keys read from the registry itself; Catalog.indexes keys are "{table}.{index}" on every access')
    D = 'vibesql_storage::database::core::Database::'

    def sig(f, pred):
        rows = [r for r in probes(f) if pred(r)]
        keys = ordered_keys(f, rows)
        return rename_args(f, keys)

    # d1 Database::get_table vs get_table_mut
    g1 = {n: sig(ctx.fn(D + n), lambda r: r[2].endswith('tables')) for n in ('get_table', 'get_table_mut')}
    ctx.instance('d/Database::get_table~get_table_mut', {'rule': 'C33.d', 'probe_sequences': g1})
    ctx.require(len(g1['get_table']) >= 2, 'Database::get_table: probe sequence not recognised')
    if g1['get_table'] != g1['get_table_mut']:
        ctx.finding('d/Database/get_table-vs-get_table_mut', 'Database::get_table and Database::get_table_mut resolve a table name through '
                    f'different probe sequences ({g1["get_table"]} vs {g1["get_table_mut"]}): with two tables whose names differ only '
                    'in case, reads and writes of the same statement hit different tables', ctx.fn(D + 'get_table_mut').loc)
    # d2 Operations resolvers
    ops = [f for f in prog.fns.values() if f.nice.startswith(M.OPS) and not f.is_closure() and f.unit == 'vibesql_storage']
    g2 = {}
    for f in ops:
        sg = sig(f, lambda r: r[2] == 'tables' and r[1] in ('get', 'get_mut', 'contains_key'))
        if sg:
            g2[f.nice.rsplit('::', 1)[1]] = sg
    ctx.instance('d/Operations-table-resolvers', {'rule': 'C33.d', 'probe_sequences': g2})
    ctx.floor('C33.d Operations functions resolving a table in the tables map', len(g2), 4)
    ref = g2.get('insert_row')
    ctx.require(ref is not None, 'Operations::insert_row: table lookup not recognised')
    for n, sg in sorted(g2.items()):
        if sg != ref:
            ctx.finding(f'd/Operations/{n}', f'Operations::{n} resolves the table name as {sg}, Operations::insert_row as {ref}: the two '
                        'can address different entries (or none) of the table map for the same name', prog.fn(M.OPS + n).loc)
    # d3 writer key form
    ct = ctx.fn(D + 'create_table')
    wk = [r for r in probes(ct) if r[1] == 'insert' and r[2].endswith('tables')]
    ctx.require(len(wk) == 1, 'Database::create_table: insertion into the table map not recognised')
    wform = wk[0][3].replace('schema.name', '$1').replace('self.', '')
    walts = expand(wform)
    ctx.instance('d/writer-key', {'rule': 'C33.d', 'writer_key_alternatives': sorted(walts)})
    readers = dict(g1); readers.update(g2)
    dt = ctx.fn(M.OPS + 'drop_table')
    readers['drop_table'] = rename_args(dt, [r[3] for r in probes(dt) if r[2] == 'tables' and r[1] == 'remove'])
    for n, sg in sorted(readers.items()):
        have = set()
        for k in sg:
            have |= expand(k)
        # `normalized_name*`-style leftovers: a local with many definitions, cannot be compared
        if any('*' in k for k in have):
            have |= {re.sub(r'[a-z_]+\*', 'phi', k) for k in have}
        missing = [w for w in walts if w not in have and not any(_unify(w, h) for h in have)]
        if missing:
            ctx.finding(f'd/writer-key/{n}', f'{n} never probes the key form {missing} under which Database::create_table stores a table', None)
    # d4 index registries
    n_idx = 0
    for f in prog.fns.values():
        if f.unit != 'vibesql_storage' or f.is_closure() or '/tests' in f.file or '::tests::' in f.nice:
            continue
        for (b, op, mp, key) in probes(f):
            if not re.search(r'(^|\.)(indexes|index_data|spatial_indexes)$', mp) or 'IndexManager' not in f.nice and 'Operations' not in f.nice:
                continue
            if f.nice.startswith('vibesql_storage::table::'):
                continue
            n_idx += 1
            self_key = bool(re.search(r'iter\((self\.)?(indexes|index_data|spatial_indexes)\)', key))
            norm = bool(re.match(r'^normalize_index_name\([A-Za-z_][A-Za-z_0-9.]*\)$', key))
            if self_key or norm:
                continue
            if f.nice in INDEX_KEY_EXC:
                ctx.exempt(f'd/index-key/{f.nice}', INDEX_KEY_EXC[f.nice])
                continue
            ctx.finding(f'd/index-key/{f.nice}/{op}', f'{f.nice}: {mp}.{op} is keyed by `{key}`, not by normalize_index_name(..) like the '
                        'other accesses of this registry', f'{f.file}:{f.blocks[b]["t"]["l"]}')
    ctx.floor('C33.d keyed accesses of the storage index registries', n_idx, 25)
    # d5 catalog index keys
    qn = ctx.fn('vibesql_catalog::index::IndexMetadata::qualified_name')
    from ..engine.fmt import format_sites
    qt = [s_['text'] for s_ in format_sites(prog, qn)]
    ctx.instance('d/catalog-index-key', {'rule': 'C33.d', 'IndexMetadata::qualified_name': qt})
    if qt != ['{}.{}']:
        ctx.finding('d/catalog-index-key/qualified_name', f'IndexMetadata::qualified_name builds {qt}; Catalog::get_index/drop_index look up "{{}}.{{}}"', qn.loc)
    sq = Sym(qn)
    for n in ('get_index', 'drop_index'):
        f = ctx.fn(CAT_I + n)
        ks = rename_args(f, [r[3] for r in probes(f) if r[2].endswith('indexes')])
        if ks != ["fmt('{}.{}'; $1, $2)"]:
            ctx.finding(f'd/catalog-index-key/{n}', f'Catalog::{n} keys the index map by {ks}; add_index stores under "{{table}}.{{index}}"', f.loc)


def _unify(w, h):
    """writer form w matches reader form h up to the name of the catalog handle (self.catalog / catalog)"""
    return w.replace('catalog', 'C') == h.replace('catalog', 'C')


# --------------------------------------------------------------------------- (e) CREATE INDEX pre-check
def create_index_precheck(ctx):
    ctx.rule('C33.e', 'CreateIndexExecutor::execute: Database::index_exists and spatial_index_exists (the storage registry, global by '
             'index name) are consulted, with an error exit on the true branch, before Catalog::add_index on every path')
    from ..engine.paths import search
    cie = ctx.fn(EX + 'index_ddl::create_index::CreateIndexExecutor::execute')
    adds = {i for i, t in cie.calls() if callee_name(t) == CAT_I + 'add_index'}
    from ..engine.paths import switch_target
    short_circuit = set()
    for chk in ('index_exists', 'spatial_index_exists'):
        cb = {i for i, t in cie.calls() if callee_name(t) == M.D + chk}
        ctx.instance(f'e/CreateIndexExecutor/{chk}')
        # `a || b`: the second test is skipped on the true edge of the first (which already decides "exists")
        reached, _ = search(cie, [0], cb | short_circuit, loop_model=False)
        for b in cb:
            nxt = cie.blocks[cie.blocks[b]['t']['to']]['t']
            if nxt['k'] == 'switch':
                short_circuit.add(switch_target(nxt, 1))
        if not cb or (reached & adds):
            ctx.finding(f'e/CreateIndexExecutor/{chk}', f'CREATE INDEX registers the index in the catalog without first asking the storage '
                        f'registry ({chk}) whether the name is taken: the later storage step fails on a name used by another table and '
                        'the catalog keeps an entry for an index that does not exist', cie.loc)


# --------------------------------------------------------------------------- (f) positional rows
ORDER_CHANGING = ('swap_remove', 'swap', 'reverse', 'sort', 'sort_by', 'sort_by_key', 'sort_unstable', 'sort_unstable_by',
                  'sort_unstable_by_key', 'rotate_left', 'rotate_right', 'dedup', 'dedup_by', 'dedup_by_key')


def positional_rows(ctx):
    prog = ctx.prog
    ctx.rule('C33.f', 'Row.values is positional (index = column position in the schema): no order-changing Vec/slice operation is '
             'applied to it anywhere in the storage and executor crates; the matcher is kept live by the Vec::remove in Row::remove_value')
    live = 0
    for f in prog.fns.values():
        if f.unit not in ('vibesql_storage', 'vibesql_executor') or '/tests' in f.file or '::tests::' in f.nice:
            continue
        s = None
        for i, t in f.calls():
            cn = callee_name(t) or ''
            op = cn.rsplit('::', 1)[-1].split('<')[0]
            if not (cn.startswith('alloc::vec::Vec') or cn.startswith('core::slice::')) or not t['args']:
                continue
            if op not in ORDER_CHANGING and op != 'remove':
                continue
            s = s or Sym(f)
            recv = s.op(t['args'][0])
            base = recv.split('.')[0]
            is_row = recv.endswith('.values') and ((f.self_adt or '').endswith('row::Row') and base == 'self' or
                                                   any(n == base and 'vibesql_storage::row::Row' in f.locals[l] for l, n in f.names.items()))
            if not is_row:
                continue
            live += 1
            if op == 'remove':
                continue
            ctx.finding(f'f/{f.nice}/{op}', f'{f.nice}: {op} on Row.values changes the order of the remaining columns; the values no longer '
                        'line up with the schema', f'{f.file}:{t["l"]}')
    ctx.instance('f/Row.values', {'rule': 'C33.f', 'positional_remove_sites_seen_by_matcher': live})
    ctx.floor('C33.f matcher control: Vec::remove on Row.values', live, 1)


def storage_registration_order(ctx):
    """(h) IndexManager::create_index registers the metadata of an index together with its data"""
    from ..engine.symexpr import Sym
    prog = ctx.prog
    ctx.rule('C33.h', 'IndexManager::create_index: no error return is reachable between the registration of the index metadata (self.indexes.insert) and '
             'the registration of its data (self.index_data.insert): a failing build must not leave an index that is listed but has no data')
    fs = [f for f in prog.fns.values() if f.unit == 'vibesql_storage' and not f.is_closure() and re.search(r'IndexManager>::create_index$', f.nice)]
    ctx.require(len(fs) == 1, 'IndexManager::create_index not found')
    f = fs[0]
    s = Sym(f)
    meta = [i for i, t in f.calls() if re.search(r'HashMap.*::insert', callee_name(t) or '') and s.op(t['args'][0]).endswith('self.indexes')]
    data = [i for i, t in f.calls() if re.search(r'HashMap.*::insert', callee_name(t) or '') and s.op(t['args'][0]).endswith('self.index_data')]
    ctx.require(meta and data, 'IndexManager::create_index: registrations not found')
    errs, _ = err_exits_reachable(f, [x for m in meta for x in success_starts(f, m)], set(data), loop_model=True)
    ctx.instance('h/IndexManager::create_index', {'rule': 'C33.h', 'metadata_registrations': len(meta), 'data_registrations': len(data),
                                                  'error_exits_between_them': len(errs)})
    if errs:
        ctx.finding('h/IndexManager::create_index/metadata-before-data', 'IndexManager::create_index registers the metadata of the index before the fallible build of its '
                    'data: when the build fails (bulk load of a disk-backed index) the index stays listed without data and queries planned on it fail with '
                    '"Index not found"', f'{f.file}:{f.blocks[errs[0]]["t"].get("l", f.line)}')


_run_main = run


def run(ctx):
    _run_main(ctx)
    column_cache_rule(ctx)


def column_cache_rule(ctx):
    from ..engine.paths import ok_exit_reachable
    prog = ctx.prog
    ctx.rule('C33.g', 'TableSchema methods: a Vec operation that adds/removes an element of self.columns is followed on every Ok path by HashMap insert (additions) or clear/remove '
             '(removals) on self.column_index_cache; executor/storage functions do not assign ColumnSchema.name')
    ADD = ('push', 'insert', 'extend', 'append')
    DEL = ('remove', 'swap_remove', 'retain', 'truncate', 'clear', 'drain', 'pop')
    n = 0
    for f in prog.fns.values():
        if not f.nice.startswith('vibesql_catalog::table::TableSchema::') or f.is_closure():
            continue
        s = Sym(f)
        for i, t in f.calls():
            cn = callee_name(t) or ''
            op = cn.rsplit('::', 1)[-1].split('<')[0]
            if 'Vec' not in cn or not t['args'] or s.op(t['args'][0]) != 'self.columns' or op not in ADD + DEL:
                continue
            n += 1
            want = ('insert',) if op in ADD else ('clear', 'remove', 'retain')
            maint = {j for j, t2 in f.calls() if 'HashMap' in (callee_name(t2) or '') and t2['args'] and s.op(t2['args'][0]) == 'self.column_index_cache'
                     and (callee_name(t2) or '').rsplit('::', 1)[-1].split('<')[0] in want}
            nxt = t.get('to')
            ok = bool(maint) and nxt is not None and ok_exit_reachable(f, [nxt], maint, loop_model=False) is None
            short = f.nice.rsplit('::', 1)[1]
            ctx.instance(f'g/{short}/{op}', {'rule': 'C33.g', 'fn': f.nice, 'loc': f'{f.file}:{t["l"]}', 'cache_maintained': ok})
            if not ok:
                ctx.finding(f'g/{short}/{op}', f'{f.nice} changes self.columns ({op}) without the matching maintenance of column_index_cache on every successful path: a dropped '
                            'column\'s name keeps resolving to a position (UPDATE t SET b = 99 after DROP COLUMN b overwrites the column that moved into its place)', f'{f.file}:{t["l"]}')
    ctx.floor('C33.g structural changes of TableSchema.columns', n, 2)
    m = 0
    for f in prog.fns.values():
        if f.unit not in ('vibesql_executor', 'vibesql_storage') or '/tests' in f.file or '::tests::' in f.nice:
            continue
        for b in f.blocks:
            for st in b['s']:
                if 'd' in st and st['d'][1] and st['d'][1][-1] == '.name' and 'ColumnSchema' in str(f.locals[st['d'][0]] if st['d'][0] < len(f.locals) else ''):
                    m += 1
                    short = f.nice.rsplit('::', 1)[1]
                    ctx.finding(f'g/rename-in-place/{short}', f'{f.nice} renames a column by assigning ColumnSchema.name in place: TableSchema.column_index_cache (private to the '
                                'catalog) keeps the old name, which goes on resolving to the column (after ALTER TABLE c CHANGE COLUMN a a2 INT, INSERT INTO c (id, a) .. and '
                                'SELECT a FROM c still work)', f'{f.file}:{st["l"]}')
    ctx.instance('g/rename-in-place', {'rule': 'C33.g', 'assignments_of_ColumnSchema.name_outside_the_catalog': m})
