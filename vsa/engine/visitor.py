"""T9 visitor completeness: for a walker function that matches on an AST enum, decide per variant whether
the arm visits the variant's children (calls a walker, directly or in a closure it creates), answers a
constant, or does neither."""
from .facts import callee_path
from .tables import enum_switches, switch_arm_regions
from .cfg import op_const


def child_fields(prog, adt_path, child_suffixes):
    adt = prog.adt(adt_path)
    out = {}
    for v in adt['variants']:
        out[v['name']] = [f['name'] for f in v['fields'] if any(a.endswith(sfx) for a in f['adts'] for sfx in child_suffixes)]
    return out


def closure_calls(prog, fn, region, targets):
    """does a closure created in `region` (transitively) call one of `targets` (fn paths)?"""
    for b in region:
        for s in fn.blocks[b]['s']:
            if 'd' in s and s['v']['r'] == 'agg' and s['v'].get('kind') == 'closure':
                cf = prog.fns.get(s['v']['def'])
                stack = [cf] if cf else []
                seen = set()
                while stack:
                    c = stack.pop()
                    if c.path in seen:
                        continue
                    seen.add(c.path)
                    for _, t in c.calls():
                        if callee_path(t) in targets:
                            return True
                    for b2 in c.blocks:
                        for s2 in b2['s']:
                            if 'd' in s2 and s2['v']['r'] == 'agg' and s2['v'].get('kind') == 'closure' and s2['v']['def'] in prog.fns:
                                stack.append(prog.fns[s2['v']['def']])
    return False


def arm_table(prog, walker, adt_path, walker_paths):
    """{variant: {'explicit': bool, 'recurses': bool, 'consts': set}} for the widest match on adt_path in walker"""
    sws = enum_switches(prog, walker, adt_path)
    if not sws:
        return None, None
    sw = max(sws, key=lambda s: len(s['arms']))
    regs = switch_arm_regions(walker, sw)
    adt = prog.adt(adt_path)
    out = {}
    for v in adt['variants']:
        name = v['name']
        explicit = name in sw['arms']
        reg = regs.get(name, set()) if explicit else regs.get('_', set())
        rec = any(i in reg and callee_path(t) in walker_paths for i, t in walker.calls()) or closure_calls(prog, walker, reg, walker_paths)
        consts = set()
        for b in reg:
            for s in walker.blocks[b]['s']:
                if 'd' in s and s['d'][0] == 0 and not s['d'][1] and s['v']['r'] == 'use':
                    c = op_const(s['v']['a'])
                    if c in (0, 1):
                        consts.add(c)
        out[name] = {'explicit': explicit, 'recurses': rec, 'consts': consts, 'has_wildcard': sw['otherwise'] is not None}
    return sw, out
