"""Decision lists over string literals (`match s { "A" | "B" => .., s if s.starts_with("C(") => .. }`):
extraction of the tests and abstract evaluation of the list on a sample text."""
from .facts import callee_name
from .cfg import cfg, str_const, op_place
from .paths import switch_target, _uses_local

STR_TESTS = {
    'core::str::traits::<impl core::cmp::PartialEq for str>::eq': 'eq',
    'core::str::<impl str>::starts_with': 'prefix',
    'core::str::<impl str>::ends_with': 'suffix',
    'core::str::<impl str>::contains': 'contains',
    'core::str::<impl str>::eq_ignore_ascii_case': 'eq_nocase',
    '<alloc::string::String as core::cmp::PartialEq<&str>>::eq': 'eq',
    '<alloc::string::String as core::cmp::PartialEq<str>>::eq': 'eq',
    'core::cmp::impls::<impl core::cmp::PartialEq<&B> for &A>::eq': 'eq',
}


def str_tests(fn):
    """[(block, kind, literal, true_target, false_target)] for tests of a string against a literal"""
    out = []
    for i, t in fn.calls():
        kind = STR_TESTS.get(callee_name(t)) or STR_TESTS.get(t['f'].get('n') if 'ptr' not in t['f'] else None)
        if not kind or t.get('to') is None:
            continue
        lit = None
        for a in t['args']:
            s = str_const(a)
            if s is not None:
                lit = s
        if lit is None:
            continue
        nb = fn.blocks[t['to']]
        tt = nb['t']
        d = t['d'][0]
        neg = None
        for s in nb['s']:
            if 'd' in s and s['v']['r'] == 'un' and s['v']['op'] == 'Not' and _uses_local(s['v']['a'], d):
                neg = s['d'][0]
        if tt['k'] != 'switch':
            continue
        if _uses_local(tt['on'], d):
            out.append((i, kind, lit, switch_target(tt, 1), switch_target(tt, 0)))
        elif neg is not None and _uses_local(tt['on'], neg):
            out.append((i, kind, lit, switch_target(tt, 0), switch_target(tt, 1)))
    return out


def _holds(kind, text, lit):
    if kind == 'eq':
        return text == lit
    if kind == 'eq_nocase':
        return text.lower() == lit.lower()
    if kind == 'prefix':
        return text.startswith(lit)
    if kind == 'suffix':
        return text.endswith(lit)
    if kind == 'contains':
        return lit in text
    return False


def decide(fn, text, start=0, limit=400):
    """Follow the function's string tests with `text` as the tested value.
    Returns ('arm', target_block, (kind, literal)) for the first test that holds,
    ('fallthrough', block, None) when all fail and control reaches something that is not a test,
    ('unknown', block, None) when a branch cannot be decided."""
    tests = {b: (k, l, tt, ft) for b, k, l, tt, ft in str_tests(fn)}
    cur = start
    for _ in range(limit):
        blk = fn.blocks[cur]
        t = blk['t']
        if cur in tests:
            k, l, tt, ft = tests[cur]
            if _holds(k, text, l):
                return ('arm', tt, (k, l))
            cur = ft
            continue
        if t['k'] == 'goto':
            cur = t['to']; continue
        if t['k'] in ('call', 'drop', 'assert') and t.get('to') is not None:
            # calls that are not tests: only follow when no test has been passed yet or the call is trivial
            if any(True for _ in [0]) and t['k'] == 'call' and cur not in tests:
                # stop when we left the decision list: a block that constructs something or returns
                pass
            cur = t['to']
            # if no further test is reachable from here, this is the fall-through arm
            continue
        if t['k'] == 'switch':
            return ('unknown', cur, None)
        return ('fallthrough', cur, None)
    return ('unknown', cur, None)


def first_non_test_fallthrough(fn, text, start=0):
    """Like decide(), but reports the block where the chain of failed tests ends (the `_ =>` arm)."""
    tests = {b: (k, l, tt, ft) for b, k, l, tt, ft in str_tests(fn)}
    g = cfg(fn)
    cur = start
    last_ft = None
    for _ in range(400):
        blk = fn.blocks[cur]
        t = blk['t']
        if cur in tests:
            k, l, tt, ft = tests[cur]
            if _holds(k, text, l):
                return ('arm', tt, (k, l))
            cur = ft; last_ft = ft
            continue
        # does any test remain reachable?  if not, we are in the fall-through arm
        reach = g.reach_from([cur])
        if not (reach & set(tests)):
            return ('fallthrough', cur if last_ft is None else last_ft, None)
        if t['k'] == 'goto' or (t['k'] in ('call', 'drop', 'assert') and t.get('to') is not None):
            cur = t['to']; continue
        return ('unknown', cur, None)
    return ('unknown', cur, None)
