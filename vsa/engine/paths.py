"""Path rules over MIR-lite CFGs: must-follow (T3), must-precede (T2), no-err-exit-after (T4),
with the collect-then-apply loop model and inter-procedural summaries."""
import re
from .cfg import cfg, ret_assign_class, returns_result, defs_of, trace_local
from .facts import callee_name, callee_path


# ---------------------------------------------------------------------------------------------
# loop headers: blocks that call Iterator::next and are followed by a switch on the Option

def switch_target(t, value, nvariants=2):
    """target block of a switch terminator for discriminant `value` (falls to `else` when unlisted)"""
    for v, tb in t['targets']:
        if v == value:
            return tb
    return t['else']


def loop_headers(fn):
    """{header_block: (switch_block, none_target)} for `for`/`while let` loops over iterators."""
    c = getattr(fn, '_lh', None) if False else None
    out = {}
    for i, b in enumerate(fn.blocks):
        t = b['t']
        if t['k'] != 'call' or t['to'] is None:
            continue
        n = t['f'].get('n') if 'ptr' not in t['f'] else None
        if n != 'core::iter::traits::iterator::Iterator::next':
            continue
        sb = fn.blocks[t['to']]
        st = sb['t']
        if st['k'] != 'switch':
            continue
        # discriminant of the call destination
        dst = t['d'][0]
        ok = False
        for s in sb['s']:
            if 'd' in s and s['v']['r'] == 'discr' and s['v']['p'][0] == dst:
                ok = True
        if not ok:
            continue
        none_t = switch_target(st, 0)
        out[i] = (t['to'], none_t)
    return out


def exit_classes(fn):
    """(err_blocks, okish_blocks): blocks assigning the return place an Err / a possibly-Ok value."""
    cls = ret_assign_class(fn)
    defs = None
    err = set(); ok = set()
    for b, c in cls.items():
        if c in ('err', 'residual'):
            err.add(b)
        elif c == 'other' and returns_result(fn):
            # `_0 = move _x` where _x was built as Result::Err(..) in a single definition
            if defs is None:
                defs = defs_of(fn)
            kind = None
            for s in fn.blocks[b]['s']:
                if 'd' in s and s['d'][0] == 0 and not s['d'][1] and s['v']['r'] == 'use':
                    from .cfg import op_local
                    l = op_local(s['v']['a'])
                    if l is not None:
                        steps = trace_local(fn, l, defs)
                        last = steps[-1]
                        if last[0] == 'agg' and last[1].get('kind') == 'adt' and last[1]['adt'].endswith('result::Result'):
                            kind = 'ok' if last[1]['variant'] == 'Ok' else 'err'
            if kind == 'err':
                err.add(b)
            else:
                ok.add(b)
        else:
            ok.add(b)
    return err, ok


def search(fn, starts, removed=frozenset(), loop_model=True, targets=None, dead_edges=frozenset()):
    """Forward search from `starts` (blocks) avoiding `removed` blocks, with the
    at-least-one-iteration loop model.  Returns (reached_blocks, prev_map).  If `targets` is
    given, stops at the first target reached and returns (target, prev_map)."""
    g = cfg(fn)
    lh = loop_headers(fn) if loop_model else {}
    sw_of = {sw: (h, none_t) for h, (sw, none_t) in lh.items()}
    prev = {}
    st = []
    for s in starts:
        if s in removed:
            continue
        state = (s, s if s in lh else None)
        # a start that is itself a loop header counts as entered from outside
        if state not in prev:
            prev[state] = None
            st.append(state)
    reached = set()
    while st:
        state = st.pop()
        b, fresh = state
        reached.add(b)
        if targets is not None and b in targets:
            return state, prev
        for s in g.succ[b]:
            if s in removed or (b, s) in dead_edges:
                continue
            nfresh = None
            if fresh is not None:
                if b == fresh:
                    nfresh = fresh            # header -> its switch block
                elif b in sw_of and sw_of[b][0] == fresh:
                    if s == sw_of[b][1]:
                        continue              # zero-iteration exit forbidden on first arrival
                    nfresh = None
            if s in lh and not g.dominates(s, b):
                nfresh = s                    # entering a loop from outside
            ns = (s, nfresh)
            if ns not in prev:
                prev[ns] = state
                st.append(ns)
    if targets is not None:
        return None, prev
    return reached, prev


def witness(prev, state):
    path = []
    while state is not None:
        path.append(state[0])
        state = prev[state]
    return path[::-1]


def return_blocks(fn):
    return {i for i, b in enumerate(fn.blocks) if b['t']['k'] in ('return', 'tailcall') and not b['t'].get('cleanup')}


def ok_exit_reachable(fn, starts, removed, loop_model=True, dead_edges=frozenset()):
    """Is a successful return reachable from `starts` avoiding `removed`?  Returns witness path or None."""
    err, _ = exit_classes(fn)
    rem = set(removed) | (err if returns_result(fn) else set())
    hit, prev = search(fn, starts, rem, loop_model, targets=return_blocks(fn), dead_edges=dead_edges)
    if hit is None:
        return None
    return witness(prev, hit)


def err_exits_reachable(fn, starts, removed, dead_edges=frozenset(), loop_model=False):
    """Err-exit blocks reachable from starts avoiding `removed`.  With loop_model a loop entered from
    outside iterates at least once (so an obligation loop is not skipped); back edges stay allowed, so
    a later iteration of the mutation loop may still fail."""
    err, _ = exit_classes(fn)
    reached, prev = search(fn, starts, removed, loop_model=loop_model, dead_edges=dead_edges)
    return sorted(err & reached), prev


RESULT_ADAPTERS = ('core::result::Result::<T, E>::map_err', 'core::result::Result::<T, E>::map',
                   'core::result::Result::<T, E>::or_else', 'core::result::Result::<T, E>::and_then',
                   'core::option::Option::<T>::ok_or_else', 'core::option::Option::<T>::ok_or',
                   '<core::result::Result<T, E> as core::ops::try_trait::Try>::branch')


def _uses_local(op, l):
    from .cfg import op_place
    p = op_place(op)
    return p is not None and p[0] == l


def success_starts(fn, b):
    """Blocks where execution continues when the call in block b *succeeded*: follows the call's
    result through map_err / `?` (Try::branch) / `match` and takes the Continue/Ok edge, so that the
    call's own failure is not mistaken for an error after it."""
    t = fn.blocks[b]['t']
    if t['k'] != 'call' or t.get('to') is None:
        return []
    r = t['d'][0] if not t['d'][1] else None
    cur = t['to']
    if r is None:
        return [cur]
    for _ in range(6):
        blk = fn.blocks[cur]
        # discriminant of r followed by a switch?
        dl = None
        for s in blk['s']:
            if 'd' in s and s['v']['r'] == 'discr' and s['v']['p'][0] == r and not s['d'][1]:
                dl = s['d'][0]
            elif 'd' in s and s['v']['r'] == 'use' and _uses_local(s['v']['a'], r) and not s['d'][1]:
                r = s['d'][0]
        tt = blk['t']
        if dl is not None and tt['k'] == 'switch' and _uses_local(tt['on'], dl):
            ty = fn.locals[r]
            if not (ty.startswith('core::result::Result<') or ty.startswith('core::ops::control_flow::ControlFlow<')):
                break
            return [switch_target(tt, 0)]   # ControlFlow::Continue / Result::Ok have discriminant 0
        if tt['k'] == 'call' and tt.get('to') is not None and any(_uses_local(a, r) for a in tt['args']):
            n = callee_name(tt)
            if n in RESULT_ADAPTERS and not tt['d'][1]:
                r = tt['d'][0]
                cur = tt['to']
                continue
        break
    return [t['to']]


def err_origin(fn, eb, defs=None):
    """A stable description of what produces the error returned in Err-exit block eb:
    the fallible callee whose `?` it is, or the error variant constructed explicitly."""
    from .cfg import op_local
    if defs is None:
        defs = defs_of(fn)
    blk = fn.blocks[eb]
    t = blk['t']

    def origin_of_local(l, depth=0):
        if depth > 10 or l is None:
            return '?'
        ds = defs.get(l, [])
        # projections like `_8@Break.0` are assigned from a place with projection: find assignment statements
        if len(ds) != 1:
            return '?'
        _, kind, pl = ds[0]
        if kind == 'call':
            n = callee_name(pl) or 'fn-pointer'
            gn = n
            if gn in RESULT_ADAPTERS and pl['args']:
                inner = origin_of_local(op_local(pl['args'][0]), depth + 1)
                if gn.endswith('ok_or_else') or gn.endswith('ok_or'):
                    return 'none:' + inner
                return inner
            return n
        r = pl['r']
        if r in ('use', 'cast'):
            return origin_of_local(op_local(pl['a']), depth + 1)
        if r == 'agg' and pl.get('kind') == 'adt':
            if pl['adt'].endswith('result::Result') and pl['ops']:
                return 'Err:' + origin_of_local(op_local(pl['ops'][0]), depth + 1)
            return pl['adt'].rsplit('::', 1)[-1] + '::' + pl['variant']
        return '?'

    if t['k'] == 'call' and t['d'][0] == 0 and not t['d'][1]:
        n = callee_name(t) or ''
        if n.endswith('from_residual') and t['args']:
            return origin_of_local(op_local(t['args'][0]))
        return n
    for s in blk['s']:
        if 'd' in s and s['d'][0] == 0 and not s['d'][1]:
            v = s['v']
            if v['r'] == 'agg' and v.get('kind') == 'adt' and v['ops']:
                return 'Err:' + origin_of_local(op_local(v['ops'][0]))
            if v['r'] == 'use':
                return origin_of_local(op_local(v['a']))
    return '?'


def none_edges(fn, callee_names):
    """Edges (switch_block, none_target) taken when the Option returned by one of `callee_names`
    is None — used for the 'object known to the catalog' assumption."""
    out = set()
    locs = set()
    for i, t in fn.calls():
        if callee_name(t) in callee_names and not t['d'][1]:
            locs.add(t['d'][0])
    if not locs:
        return out
    # copies
    changed = True
    while changed:
        changed = False
        for b in fn.blocks:
            for s in b['s']:
                if 'd' in s and s['v']['r'] == 'use' and not s['d'][1]:
                    from .cfg import op_place
                    p = op_place(s['v']['a'])
                    if p and not p[1] and p[0] in locs and s['d'][0] not in locs:
                        locs.add(s['d'][0]); changed = True
    for i, b in enumerate(fn.blocks):
        dl = None
        for s in b['s']:
            if 'd' in s and s['v']['r'] == 'discr' and s['v']['p'][0] in locs and not s['v']['p'][1]:
                dl = s['d'][0]
        t = b['t']
        if dl is not None and t['k'] == 'switch' and _uses_local(t['on'], dl):
            out.add((i, switch_target(t, 0)))
    return out


def call_blocks(fn, pred):
    """blocks whose terminator is a call satisfying pred(term)"""
    return [i for i, t in fn.calls() if pred(t)]


def closure_creations(fn):
    """[(block, closure_def_path)]"""
    out = []
    for i, b in enumerate(fn.blocks):
        for s in b['s']:
            if 'd' in s and s['v']['r'] == 'agg' and s['v']['kind'] in ('closure', 'coroutine', 'coroutine_closure'):
                out.append((i, s['v']['def']))
    return out


def succ_of_call(fn, b):
    t = fn.blocks[b]['t']
    return [t['to']] if t.get('to') is not None else []


# ---------------------------------------------------------------------------------------------
# Inter-procedural must-follow

class Follow:
    """T3: after a trigger M succeeds, obligation O happens on every path to an Ok exit.

    is_m(t, fn) / is_o(t, fn): predicates on call terminators.  Summaries:
      performs_o: functions whose every Ok path passes an O block (callers may use them as O)
      leaks:      functions that may return Ok after an M with no O (callers see them as M)
    """

    def __init__(self, prog, cg, is_m, is_o, scope, loop_model=True, o_summaries=True, dead=None):
        self.prog = prog; self.cg = cg; self.is_m = is_m; self.is_o = is_o
        self.dead = dead or (lambda fn: frozenset())
        self.scope = [f for f in scope]
        self.loop_model = loop_model
        self.performs_o = set()
        self.leaks = {}     # fn path -> list of (origin_fn, origin_callee, witness chain)
        self.direct_sites = []   # (fn, block, callee) for base M sites
        if o_summaries:
            self._o_summaries()
        self._leaks()

    def _o_blocks(self, fn):
        out = set()
        for i, t in fn.calls():
            if self.is_o(t, fn):
                out.add(i)
            else:
                p = callee_path(t)
                if p in self.performs_o:
                    out.add(i)
        for i, d in closure_creations(fn):
            if d in self.performs_o_closure:
                out.add(i)
        return out

    performs_o_closure = frozenset()

    def _o_summaries(self):
        changed = True
        while changed:
            changed = False
            for f in self.scope:
                if f.path in self.performs_o or f.is_closure():
                    continue
                ob = self._o_blocks(f)
                if not ob:
                    continue
                if ok_exit_reachable(f, [0], ob, self.loop_model, self.dead(f)) is None:
                    self.performs_o.add(f.path)
                    changed = True

    def _m_blocks(self, fn):
        """[(block, origin)] origin = (origin_fn_nice, origin_callee, chain)"""
        out = []
        for i, t in fn.calls():
            if self.is_m(t, fn):
                out.append((i, (fn.nice, callee_name(t), [fn.nice])))
            else:
                p = callee_path(t)
                if p in self.leaks and p != fn.path:
                    for (ofn, ocal, chain) in self.leaks[p]:
                        out.append((i, (ofn, ocal, chain + [fn.nice])))
        for i, d in closure_creations(fn):
            if d in self.leaks:
                for (ofn, ocal, chain) in self.leaks[d]:
                    out.append((i, (ofn, ocal, chain + [fn.nice])))
        return out

    def _leaks(self):
        changed = True
        rounds = 0
        while changed and rounds < 12:
            changed = False
            rounds += 1
            for f in self.scope:
                mb = self._m_blocks(f)
                if not mb:
                    continue
                ob = self._o_blocks(f)
                cur = self.leaks.get(f.path, [])
                have = {(a, b) for a, b, _ in cur}
                for b, (ofn, ocal, chain) in mb:
                    if (ofn, ocal) in have:
                        continue
                    t = f.blocks[b]['t']
                    # closure-creation site: start from the creating block itself
                    starts = success_starts(f, b) if t['k'] == 'call' and callee_path(t) is not None and self._is_call_site(f, b) else [b]
                    w = ok_exit_reachable(f, starts, ob - {b}, self.loop_model, self.dead(f))
                    if w is not None:
                        cur.append((ofn, ocal, chain))
                        have.add((ofn, ocal))
                        changed = True
                if cur:
                    self.leaks[f.path] = cur

    def _is_call_site(self, f, b):
        t = f.blocks[b]['t']
        if self.is_m(t, f):
            return True
        p = callee_path(t)
        return p in self.leaks

    def escaped(self, is_entry):
        """[(entry_fn, origin_fn_nice, origin_callee, chain)] leaks that reach an entry function"""
        out = []
        for p, ls in self.leaks.items():
            f = self.prog.fns[p]
            if is_entry(f):
                for (ofn, ocal, chain) in ls:
                    out.append((f, ofn, ocal, chain))
        return out


# ---------------------------------------------------------------------------------------------
# Inter-procedural must-precede

class Precede:
    """T2: every site S is preceded by a guard G on every path from every entry point.

    Intra: S is unreachable from the function entry once guard blocks are removed.
    Inter: a function with a locally unguarded site is demanding; its call sites become sites."""

    def __init__(self, prog, cg, is_s, is_g, scope, g_summaries=True, dead=None):
        self.prog = prog; self.cg = cg; self.is_s = is_s; self.is_g = is_g
        self.dead = dead or (lambda fn: frozenset())
        self.scope = list(scope)
        self.guarding = set()     # functions that always pass G before returning Ok
        self.demands = {}         # fn path -> list of (origin_fn, origin_callee, chain)
        if g_summaries:
            self._g_summaries()
        self._demands()

    def _g_blocks(self, fn):
        out = set()
        for i, t in fn.calls():
            if self.is_g(t, fn) or callee_path(t) in self.guarding:
                out.add(i)
        return out

    def _g_summaries(self):
        changed = True
        while changed:
            changed = False
            for f in self.scope:
                if f.path in self.guarding or f.is_closure():
                    continue
                gb = self._g_blocks(f)
                if not gb:
                    continue
                if ok_exit_reachable(f, [0], gb, loop_model=False) is None:
                    self.guarding.add(f.path)
                    changed = True

    def _s_blocks(self, fn):
        out = []
        for i, t in fn.calls():
            if self.is_s(t, fn):
                out.append((i, (fn.nice, callee_name(t), [fn.nice])))
            else:
                p = callee_path(t)
                if p in self.demands and p != fn.path:
                    for (ofn, ocal, chain) in self.demands[p]:
                        out.append((i, (ofn, ocal, chain + [fn.nice])))
        for i, d in closure_creations(fn):
            if d in self.demands:
                for (ofn, ocal, chain) in self.demands[d]:
                    out.append((i, (ofn, ocal, chain + [fn.nice])))
        return out

    def _demands(self):
        changed = True
        rounds = 0
        while changed and rounds < 16:
            changed = False
            rounds += 1
            for f in self.scope:
                sb = self._s_blocks(f)
                if not sb:
                    continue
                gb = self._g_blocks(f)
                reach = None
                cur = self.demands.get(f.path, [])
                have = {(a, b) for a, b, _ in cur}
                for b, (ofn, ocal, chain) in sb:
                    if (ofn, ocal) in have:
                        continue
                    if reach is None:
                        # blocks reachable from entry without completing a guard call
                        # loop model: a loop entered from outside iterates at least once, so a guard
                        # applied per element of a collection covers a later loop over the same collection
                        reach, _ = search(f, [0], gb, loop_model=True, dead_edges=self.dead(f))
                        # a guard block itself is "reached" but its successors only via other paths
                    # the site block is unguarded if reachable avoiding guards; a block that is both
                    # guard and site cannot happen (different callees)
                    if b in reach or self._reachable_into(f, b, gb, reach):
                        cur.append((ofn, ocal, chain))
                        have.add((ofn, ocal))
                        changed = True
                if cur:
                    self.demands[f.path] = cur

    @staticmethod
    def _reachable_into(f, b, gb, reach):
        return False

    def escaped(self, is_entry):
        out = []
        for p, ls in self.demands.items():
            f = self.prog.fns[p]
            if is_entry(f):
                for (ofn, ocal, chain) in ls:
                    out.append((f, ofn, ocal, chain))
        return out


def name_pred(names=(), regex=None):
    names = set(names)
    rx = re.compile(regex) if regex else None

    def pred(t, fn=None):
        n = callee_name(t)
        if n is None:
            return False
        if n in names:
            return True
        return bool(rx and rx.search(n))
    return pred


def zero_count_edges(fn, callee_names):
    """Edges taken when the count returned by one of `callee_names` (e.g. Table::delete_where) is zero:
    `if n > 0 {..}` / `if n != 0 {..}` / `if n == 0 {..}` — on them the call changed nothing."""
    from .cfg import op_place, op_const
    out = set()
    counts = set()
    for i, t in fn.calls():
        if callee_name(t) in callee_names and not t['d'][1]:
            counts.add(t['d'][0])
    if not counts:
        return out
    changed = True
    while changed:
        changed = False
        for b in fn.blocks:
            for s_ in b['s']:
                if 'd' in s_ and s_['v']['r'] == 'use' and not s_['d'][1]:
                    p_ = op_place(s_['v']['a'])
                    if p_ and not p_[1] and p_[0] in counts and s_['d'][0] not in counts:
                        counts.add(s_['d'][0]); changed = True
    for i, b in enumerate(fn.blocks):
        t = b['t']
        if t['k'] != 'switch':
            continue
        on = op_place(t['on'])
        if on is None:
            continue
        for s_ in b['s']:
            if 'd' in s_ and s_['d'][0] == on[0] and s_['v']['r'] == 'bin' and s_['v']['op'] in ('Gt', 'Ne', 'Eq', 'Lt', 'Ge'):
                pa, pb = op_place(s_['v']['a']), op_place(s_['v']['b'])
                ca, cb = op_const(s_['v']['a']), op_const(s_['v']['b'])
                op = s_['v']['op']
                if pa and pa[0] in counts and cb == 0:
                    if op in ('Gt', 'Ne'):
                        out.add((i, switch_target(t, 0)))      # n > 0 is false  => n == 0
                    elif op == 'Eq':
                        out.add((i, switch_target(t, 1)))      # n == 0 is true
                elif pb and pb[0] in counts and ca == 0 and op == 'Lt':
                    out.add((i, switch_target(t, 0)))          # 0 < n is false
    return out
