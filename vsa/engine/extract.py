"""Fact extraction from /repo's current working tree, cached by source hash."""
import os, sys, hashlib, subprocess, fcntl, shutil, glob, time

VERIF = os.path.dirname(os.path.dirname(os.path.dirname(os.path.abspath(__file__))))
REPO = os.environ.get('VSA_REPO', '/repo')
CACHE = os.environ.get('VSA_CACHE') or os.path.join(VERIF, '.cache')
DRIVER_DIR = os.path.join(VERIF, 'vsa', 'driver')
DRIVER = os.path.join(DRIVER_DIR, 'target', 'release', 'vsa-driver')
FIXTURES = os.path.join(VERIF, 'vsa', 'fixtures')

EXPECTED_UNITS = ['vibesql_types', 'vibesql_ast', 'vibesql_parser', 'vibesql_catalog', 'vibesql_storage',
                  'vibesql_executor', 'vibesql_server', 'vibesql_wasm', 'vibesql']


def _nightly_sysroot():
    return subprocess.check_output(['rustc', '+nightly', '--print', 'sysroot'], text=True).strip()


def base_env():
    env = dict(os.environ)
    env['RUSTC_WRAPPER'] = ''          # /repo/.cargo/config.toml names sccache, which is not installed
    env['CARGO_NET_OFFLINE'] = 'true'
    env.pop('RUSTC_WORKSPACE_WRAPPER', None)
    return env


def build_driver(log=sys.stderr):
    src_m = max(os.path.getmtime(p) for p in
                [os.path.join(DRIVER_DIR, 'src', 'main.rs'), os.path.join(DRIVER_DIR, 'Cargo.toml')])
    if os.path.exists(DRIVER) and os.path.getmtime(DRIVER) >= src_m:
        return
    print('[vsa] building driver', file=log)
    r = subprocess.run(['cargo', '+nightly', 'build', '--release', '--offline'], cwd=DRIVER_DIR,
                       env=base_env(), stdout=subprocess.PIPE, stderr=subprocess.STDOUT, text=True)
    if r.returncode != 0:
        print(r.stdout, file=log)
        raise RuntimeError('driver build failed')


def source_hash(root=None, extra=()):
    root = root or REPO
    h = hashlib.sha256()
    paths = []
    for top in ('crates', 'src'):
        for dp, dn, fn in os.walk(os.path.join(root, top)):
            dn[:] = [d for d in dn if d not in ('target', '.git', 'node_modules')]
            for f in fn:
                if f.endswith('.rs') or f in ('Cargo.toml', 'build.rs'):
                    paths.append(os.path.join(dp, f))
    for f in ('Cargo.toml', 'Cargo.lock', '.cargo/config.toml'):
        p = os.path.join(root, f)
        if os.path.exists(p):
            paths.append(p)
    paths.sort()
    for p in paths:
        h.update(os.path.relpath(p, root).encode())
        h.update(b'\0')
        with open(p, 'rb') as fh:
            h.update(fh.read())
        h.update(b'\0')
    with open(DRIVER, 'rb') as fh:
        h.update(hashlib.sha256(fh.read()).digest())
    for e in extra:
        h.update(e.encode())
    return h.hexdigest()[:20]


def _run_cargo_check(cwd, out_dir, target_dir, workspace=True, log=sys.stderr):
    env = base_env()
    sysroot = _nightly_sysroot()
    env['LD_LIBRARY_PATH'] = os.path.join(sysroot, 'lib') + ':' + env.get('LD_LIBRARY_PATH', '')
    env['RUSTFLAGS'] = '-Zmir-opt-level=0 -Awarnings'
    env['RUSTC_WORKSPACE_WRAPPER'] = DRIVER
    env['VSA_OUT'] = out_dir
    env['CARGO_TARGET_DIR'] = target_dir
    cmd = ['cargo', '+nightly', 'check', '--offline']
    if workspace:
        cmd.append('--workspace')
    r = subprocess.run(cmd, cwd=cwd, env=env, stdout=subprocess.PIPE, stderr=subprocess.STDOUT, text=True)
    return r


def ensure_facts(log=sys.stderr, force=False):
    """Return the directory holding facts for /repo's current working tree (extracting if needed)."""
    os.makedirs(CACHE, exist_ok=True)
    lock = open(os.path.join(CACHE, 'lock'), 'w')
    fcntl.flock(lock, fcntl.LOCK_EX)
    try:
        build_driver(log)
        h = source_hash()
        out = os.path.join(CACHE, 'facts', h)
        if force and os.environ.get('VSA_FORCED') != h:
            # thorough tier: do not trust the cache, re-run the compiler (once per process tree)
            shutil.rmtree(out, ignore_errors=True)
            os.environ['VSA_FORCED'] = h
        if os.path.exists(os.path.join(out, 'COMPLETE')):
            return out
        t0 = time.time()
        print(f'[vsa] extracting facts for source state {h} (cargo +nightly check through vsa-driver)', file=log)
        # keep at most 3 older fact sets
        fdir = os.path.join(CACHE, 'facts')
        os.makedirs(fdir, exist_ok=True)
        old = sorted((os.path.getmtime(os.path.join(fdir, d)), d) for d in os.listdir(fdir))
        for _, d in old[:-3]:
            shutil.rmtree(os.path.join(fdir, d), ignore_errors=True)
        tmp = out + '.partial'
        shutil.rmtree(tmp, ignore_errors=True)
        os.makedirs(tmp)
        target = os.path.join(CACHE, 'target')
        # cargo's freshness cache would skip the wrapper: forget the workspace members
        for pat in ('vibesql*', 'sqllogictest-*'):
            for p in glob.glob(os.path.join(target, 'debug', '.fingerprint', pat)):
                shutil.rmtree(p, ignore_errors=True)
        r = _run_cargo_check(REPO, tmp, target, workspace=True, log=log)
        if r.returncode != 0:
            tail = '\n'.join(r.stdout.splitlines()[-60:])
            print(tail, file=log)
            raise RuntimeError('cargo check of /repo failed under the driver (see output above)')
        have = {os.path.basename(p).split('-')[0] for p in glob.glob(os.path.join(tmp, '*.json'))}
        missing = [u for u in EXPECTED_UNITS if u not in have]
        if missing:
            raise RuntimeError(f'fact files missing for units: {missing}')
        shutil.rmtree(out, ignore_errors=True)
        os.rename(tmp, out)
        open(os.path.join(out, 'COMPLETE'), 'w').write(h)
        print(f'[vsa] extraction done in {time.time()-t0:.0f}s', file=log)
        return out
    finally:
        fcntl.flock(lock, fcntl.LOCK_UN)
        lock.close()


def ensure_fixture_facts(log=sys.stderr):
    os.makedirs(CACHE, exist_ok=True)
    lock = open(os.path.join(CACHE, 'lock_fx'), 'w')
    fcntl.flock(lock, fcntl.LOCK_EX)
    try:
        build_driver(log)
        h = source_hash(FIXTURES)
        out = os.path.join(CACHE, 'fxfacts', h)
        if os.path.exists(os.path.join(out, 'COMPLETE')):
            return out
        shutil.rmtree(os.path.join(CACHE, 'fxfacts'), ignore_errors=True)
        os.makedirs(out)
        target = os.path.join(CACHE, 'fxtarget')
        for p in glob.glob(os.path.join(target, 'debug', '.fingerprint', 'vsa*')):
            shutil.rmtree(p, ignore_errors=True)
        r = _run_cargo_check(FIXTURES, out, target, workspace=False, log=log)
        if r.returncode != 0:
            print(r.stdout, file=log)
            raise RuntimeError('fixture crate failed to check')
        if not glob.glob(os.path.join(out, 'vsa_fixtures-*.json')):
            raise RuntimeError('fixture facts missing')
        open(os.path.join(out, 'COMPLETE'), 'w').write(h)
        return out
    finally:
        fcntl.flock(lock, fcntl.LOCK_UN)
        lock.close()


if __name__ == '__main__':
    print(ensure_facts())
