"""T13 linear length accounting: abstract interpretation of an encoder in the domain of linear forms
over symbolic lengths.  put_u8→1, put_i16→2, put_i32→4, put_slice(x)→|x|, put_cstring(s)→|s|+1,
a loop over a collection → Σ over its elements, Option matches → case split (paths are enumerated
with one symbolic iteration per loop and consistent guard choices)."""
import collections, re
from .facts import callee_name, callee_generic_name
from .cfg import cfg, op_const, op_place, op_local, defs_of
from .paths import loop_headers, switch_target


class Lin:
    def __init__(self, const=0, terms=None):
        self.c = const
        self.t = collections.Counter(terms or {})

    def __add__(self, o):
        r = Lin(self.c + o.c, self.t)
        r.t.update(o.t)
        return r

    def scaled(self, root):
        """Σ over the elements of collection `root` of this per-element form"""
        r = Lin(0)
        if self.c:
            r.t[f'n[{root}]'] += self.c
        for k, v in self.t.items():
            r.t[f'Σ[{root}]({k})'] += v
        return r

    def key(self):
        return (self.c, tuple(sorted((k, v) for k, v in self.t.items() if v)))

    def __repr__(self):
        parts = [str(self.c)] if self.c or not self.t else []
        parts += [(f'{v}*' if v != 1 else '') + k for k, v in sorted(self.t.items()) if v]
        return ' + '.join(parts) or '0'


PUT_FIXED = {'put_u8': 1, 'put_i8': 1, 'put_i16': 2, 'put_u16': 2, 'put_i32': 4, 'put_u32': 4, 'put_i64': 8, 'put_u64': 8}
LEN_FNS = ('alloc::string::String::len', 'alloc::vec::Vec::<T, A>::len', 'core::str::<impl str>::len', 'core::slice::<impl [T]>::len',
           'bytes::bytes::Bytes::len', 'bytes::bytes_mut::BytesMut::len')


class Encoder:
    def __init__(self, prog, fn, helper_sizes=None):
        self.prog = prog; self.fn = fn
        self.defs = defs_of(fn)
        self.g = cfg(fn)
        self.lh = loop_headers(fn)
        self.helper_sizes = helper_sizes or {}   # callee nice -> lambda(term_of_arg) -> Lin
        self._iter_root = {}

    # ---- canonical names of places
    def canon_local(self, l, depth=0):
        fn = self.fn
        if depth > 12:
            return f'_{l}'
        if 1 <= l <= fn.argc:
            return fn.names.get(l, f'arg{l}')
        ds = self.defs.get(l, [])
        if len(ds) != 1:
            return fn.names.get(l, f'_{l}')
        _, kind, pl = ds[0]
        if kind == 'call':
            n = callee_generic_name(pl) or ''
            if n == 'core::iter::traits::iterator::Iterator::next':
                return 'opt<' + self.iter_root(op_local(pl['args'][0])) + '>'
            if pl['args']:
                inner = self.canon_place(op_place(pl['args'][0]), depth + 1) if op_place(pl['args'][0]) else '?'
                short = (callee_name(pl) or '?').rsplit('::', 1)[-1]
                if short in ('deref', 'as_ref', 'as_str', 'as_bytes', 'as_slice', 'borrow', 'clone', 'iter', 'into_iter', 'as_mut'):
                    return inner
                return f'{short}({inner})'
            return fn.names.get(l, f'_{l}')
        r = pl['r']
        if r in ('use', 'cast'):
            p = op_place(pl['a'])
            if p is None:
                return f'const({op_const(pl["a"])})'
            return self.canon_place(p, depth + 1)
        if r == 'ref':
            return self.canon_place(pl['p'], depth + 1)
        return fn.names.get(l, f'_{l}')

    def canon_place(self, p, depth=0):
        base = self.canon_local(p[0], depth + 1)
        proj = ''.join(e for e in p[1] if e != '*')
        m = re.match(r'^opt<(.*)>@Some\.0(.*)$', base + proj)
        if m:
            return f'elem<{m.group(1)}>' + m.group(2)
        return base + proj

    def iter_root(self, l, depth=0):
        """canonical name of the collection an iterator local ranges over"""
        if l is None or depth > 10:
            return '?'
        ds = self.defs.get(l, [])
        for _, kind, pl in ds:
            if kind == 'call' and pl['args']:
                p = op_place(pl['args'][0])
                n = (callee_name(pl) or '').rsplit('::', 1)[-1]
                if p is not None and n in ('into_iter', 'iter', 'iter_mut'):
                    return self.canon_place(p)
            if kind == 'assign':
                v = pl
                if v['r'] == 'ref':
                    return self.iter_root(v['p'][0], depth + 1)
                if v['r'] in ('use', 'cast') and op_place(v['a']):
                    return self.iter_root(op_place(v['a'])[0], depth + 1)
        return self.canon_local(l)

    # ---- loops
    def loop_of_block(self):
        """{block: header} for blocks inside iterator loops (innermost)"""
        out = {}
        for h in self.lh:
            body = self.g.reach_from([h]) & {b for b in self.g.reachable() if self.g.dominates(h, b) and h in self.g.reach_from([b])}
            for b in body:
                if b not in out or self.g.dominates(out[b], h):
                    out[b] = h
        return out

    def loop_root(self, h):
        t = self.fn.blocks[h]['t']
        return self.iter_root(op_local(t['args'][0]))

    # ---- path enumeration over the arm region: one symbolic iteration per loop
    def paths(self, start, region, limit=64):
        """paths through `region` from `start` with exactly one symbolic iteration of every iterator loop
        (on reaching the back edge the walk continues at the loop's exit) and consistent enum-guard choices"""
        back = set(self.g.back_edges())
        sw_of = {sw: (h, none_t) for h, (sw, none_t) in self.lh.items()}
        out = []

        def rec(b, path, guards, depth=0):
            if len(out) >= limit or depth > 400:
                return
            path = path + [b]
            t = self.fn.blocks[b]['t']
            nxt = []
            for s in self.g.succ[b]:
                if (b, s) in back:
                    if s in self.lh:
                        e = self.lh[s][1]
                        if e in region or True:
                            nxt.append(('exit', e))
                    continue
                if b in sw_of and s == sw_of[b][1]:
                    continue                  # zero-iteration exit: the loop runs once symbolically
                nxt.append(('in', s))
            if not nxt:
                if t['k'] == 'return':
                    out.append((path, guards))
                return                        # otherwise a dead end (pruned by guard consistency): not a complete path
            key = self.switch_key(b) if t['k'] == 'switch' and b not in sw_of else None
            for kind, s in nxt:
                if s not in region:
                    out.append((path, guards))
                    continue
                if key is not None and kind == 'in':
                    val = [v for v, tb in t['targets'] if tb == s]
                    listed = {v for v, _ in t['targets']}
                    choice = val[0] if val else (1 if listed == {0} else 0 if listed == {1} else 'else')
                    if key in guards and guards[key] != choice:
                        continue
                    g2 = dict(guards); g2[key] = choice
                    rec(s, path, g2, depth + 1)
                else:
                    rec(s, path, guards, depth + 1)
        rec(start, [], {})
        return out

    def switch_key(self, b):
        """canonical scrutinee of a switch on an enum discriminant (None for loop-header switches)"""
        blk = self.fn.blocks[b]
        t = blk['t']
        on = op_place(t['on'])
        if on is None:
            return None
        for s in blk['s']:
            if 'd' in s and s['d'][0] == on[0] and s['v']['r'] == 'discr':
                c = self.canon_place(s['v']['p'])
                if c.startswith('opt<'):
                    return None            # loop header: Option returned by Iterator::next
                return c
        return None

    # ---- symbolic evaluation along a path
    def eval_path(self, path, is_length_put):
        """returns (declared Lin or None, written Lin, notes) for one path"""
        fn = self.fn
        env = {}
        loop_of = self.loop_of_block()
        written = Lin(0)
        declared = None
        after_len = False
        notes = []
        visited_header = set()

        def val(op):
            c = op_const(op)
            if c is not None and isinstance(c, int):
                return Lin(c)
            p = op_place(op)
            if p is None:
                return None
            if not p[1] and p[0] in env:
                return env[p[0]]
            if p[1] == ['.0'] and p[0] in env:
                return env[p[0]]
            return None

        for b in path:
            blk = fn.blocks[b]
            L = loop_of.get(b)
            root = self.loop_root(L) if L is not None else None
            for s in blk['s']:
                if 'd' not in s or s['d'][1]:
                    continue
                v = s['v']; d = s['d'][0]
                if v['r'] in ('use', 'cast'):
                    x = val(v['a'])
                    if x is not None:
                        env[d] = x
                elif v['r'] == 'bin' and v['op'] in ('Add', 'AddWithOverflow'):
                    a, bb = val(v['a']), val(v['b'])
                    if a is not None and bb is not None:
                        # accumulation inside a loop: the increment happens once per element
                        pa = op_place(v['a'])
                        if L is not None and pa is not None and pa[0] in self._accs(L):
                            env[d] = a + bb.scaled(root)
                            notes.append(f'accumulator _{pa[0]} += Σ[{root}]')
                        else:
                            env[d] = a + bb
            t = blk['t']
            if t['k'] == 'call':
                n = callee_name(t) or ''
                short = n.rsplit('::', 1)[-1]
                if n in LEN_FNS or (short == 'len' and t['args']):
                    p = op_place(t['args'][0])
                    env[t['d'][0]] = Lin(0, {f'|{self.canon_place(p)}|': 1}) if p else None
                    if env[t['d'][0]] is None:
                        del env[t['d'][0]]
                    continue
                size = None
                if short in PUT_FIXED and 'BufMut' in n:
                    size = Lin(PUT_FIXED[short])
                    if short == 'put_i32' and not after_len and is_length_put(b, t):
                        declared = val(t['args'][1])
                        after_len = True
                        written = Lin(4)            # the length counts itself
                        continue
                elif short == 'put_slice' and 'BufMut' in n:
                    p = op_place(t['args'][1])
                    ty = fn.locals[p[0]] if p else ''
                    m = re.search(r'\[u8; (\d+)\]', self._src_type(p[0]) if p else '')
                    size = Lin(int(m.group(1))) if m else Lin(0, {f'|{self.canon_place(p)}|': 1})
                elif n in self.helper_sizes:
                    p = op_place(t['args'][1]) if len(t['args']) > 1 else None
                    size = self.helper_sizes[n](f'|{self.canon_place(p)}|' if p else '?')
                if size is not None and after_len:
                    written = written + (size.scaled(root) if L is not None else size)
        return declared, written, notes

    def _src_type(self, l):
        ds = self.defs.get(l, [])
        if len(ds) == 1 and ds[0][1] == 'assign' and ds[0][2]['r'] == 'cast':
            return ds[0][2].get('from', '')
        return self.fn.locals[l]

    def _defined_in_loop(self, l, L):
        loop_of = self.loop_of_block()
        for blk, kind, _ in self.defs.get(l, []):
            if loop_of.get(blk) != L:
                return False
        return True

    def _accs(self, L):
        """named locals assigned both outside and inside loop L (accumulators)"""
        loop_of = self.loop_of_block()
        out = set()
        for l, ds in self.defs.items():
            ins = [1 for blk, _, _ in ds if loop_of.get(blk) == L]
            outs = [1 for blk, _, _ in ds if loop_of.get(blk) != L]
            if ins and outs:
                out.add(l)
        return out
