"""Fact loading: one Program object over the JSON fact files written by vsa-driver."""
import json, os, glob, pickle, re

# Three compilation units are called `vibesql`; rename the front-ends so def-paths stay unique.
RENAME = {('vibesql', 'bin'): 'vibesql_cli', ('vibesql', 'cdylib'): 'vibesql_py'}


class Fn:
    __slots__ = ('path', 'nice', 'dk', 'file', 'line', 'vis', 'epub', 'is_async', 'root', 'parent',
                 'coroutine', 'self_ty', 'self_adt', 'trait', 'derived', 'ret', 'argc', 'locals',
                 'names', 'upvars', 'blocks', 'crate', 'unit', '_cfg')

    def __init__(self, d, crate, unit):
        self.path = d['path']; self.nice = d['nice']; self.dk = d['dk']
        self.file = d['file']; self.line = d['line']
        self.vis = d.get('vis'); self.epub = bool(d.get('epub')); self.is_async = bool(d.get('async'))
        self.root = d.get('root'); self.parent = d.get('parent'); self.coroutine = bool(d.get('coroutine'))
        self.self_ty = d.get('self'); self.self_adt = d.get('self_adt'); self.trait = d.get('trait')
        self.derived = bool(d.get('derived')); self.ret = d.get('ret')
        self.argc = d['argc']; self.locals = d['locals']
        self.names = {int(k): v for k, v in d['names'].items()}
        self.upvars = {int(k): v for k, v in d['upvars'].items()}
        self.blocks = d['blocks']; self.crate = crate; self.unit = unit
        self._cfg = None

    def __repr__(self):
        return f'<Fn {self.nice}>'

    @property
    def loc(self):
        return f'{self.file}:{self.line}'

    def is_closure(self):
        return self.dk in ('Closure', 'SyntheticCoroutineBody')

    def local_name(self, l):
        return self.names.get(l, f'_{l}')

    def calls(self):
        """yield (block_index, term) for call terminators"""
        for i, b in enumerate(self.blocks):
            t = b['t']
            if t['k'] in ('call', 'tailcall'):
                yield i, t


def callee_name(t):
    """Resolved readable callee name for a call terminator (or None for fn-pointer calls)."""
    f = t['f']
    if 'ptr' in f:
        return None
    return f.get('rn') or f.get('n')


def callee_path(t):
    f = t['f']
    if 'ptr' in f:
        return None
    return f.get('r') or f.get('p')


def callee_generic_name(t):
    f = t['f']
    if 'ptr' in f:
        return None
    return f.get('n')


class Program:
    def __init__(self, facts_dir, units=None):
        """units: iterable of crate names to load (after renaming); None = all."""
        self.fns = {}          # raw path -> Fn
        self.by_nice = {}      # nice -> [Fn]
        self.adts = {}         # path -> adt dict
        self.impls = []
        self.units = {}
        files = sorted(glob.glob(os.path.join(facts_dir, '*.json')))
        if not files:
            raise RuntimeError(f'no fact files in {facts_dir}')
        for f in files:
            base = os.path.basename(f)
            m = re.match(r'(.+)-(lib|bin|cdylib|procmacro)-([^-]+)\.json$', base)
            if not m:
                continue
            crate, kind = m.group(1), m.group(2)
            unit = RENAME.get((crate, kind), crate)
            if units is not None and unit not in units:
                continue
            pk = f[:-5] + '.pkl'
            d = None
            if os.path.exists(pk) and os.path.getmtime(pk) >= os.path.getmtime(f):
                try:
                    with open(pk, 'rb') as fh:
                        d = pickle.load(fh)
                except Exception:
                    d = None
            if d is None:
                txt = open(f, encoding='utf-8').read()
                if unit != crate:
                    txt = re.sub(r'(?<![A-Za-z0-9_])' + re.escape(crate) + '::', unit + '::', txt)
                d = json.loads(txt)
                try:
                    with open(pk + '.tmp%d' % os.getpid(), 'wb') as fh:
                        pickle.dump(d, fh, protocol=pickle.HIGHEST_PROTOCOL)
                    os.replace(pk + '.tmp%d' % os.getpid(), pk)
                except Exception:
                    pass
            self.units[unit] = {'kind': kind, 'fns': len(d['fns']), 'file': base}
            for a in d['adts']:
                a['unit'] = unit
                self.adts[a['path']] = a
            for im in d['impls']:
                im['unit'] = unit
                self.impls.append(im)
            for fd in d['fns']:
                fn = Fn(fd, crate, unit)
                self.fns[fn.path] = fn
                self.by_nice.setdefault(fn.nice, []).append(fn)
        self._children = None

    # ---- lookup helpers
    def fn(self, nice):
        """Exactly one function with this readable name, else KeyError (fail closed)."""
        l = self.by_nice.get(nice)
        if not l:
            raise KeyError(f'anchor function not found: {nice}')
        if len(l) > 1:
            raise KeyError(f'anchor function ambiguous: {nice} ({len(l)})')
        return l[0]

    def find(self, regex):
        r = re.compile(regex)
        return [f for f in self.fns.values() if r.search(f.nice)]

    def children(self, fn):
        """closures (and coroutine bodies) defined directly or transitively in fn"""
        if self._children is None:
            ch = {}
            for f in self.fns.values():
                if f.root and f.root != f.path:
                    ch.setdefault(f.root, []).append(f)
            self._children = ch
        return self._children.get(fn.path, [])

    def adt(self, path):
        a = self.adts.get(path)
        if a is None:
            raise KeyError(f'anchor ADT not found: {path}')
        return a

    def resolve(self, t):
        """callee Fn object for call terminator t, or None if outside loaded units"""
        p = callee_path(t)
        if p is None:
            return None
        return self.fns.get(p)
