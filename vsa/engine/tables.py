"""Finite tables read out of MIR: per-variant arms of a `match` on an enum (T8 building block)."""
from .cfg import cfg, op_place
from .paths import exit_classes


def enum_switches(prog, fn, adt_path):
    """All `match` switches in fn whose scrutinee has enum type adt_path.
    Returns [ {'block': b, 'arms': {variant_name: target_block}, 'otherwise': target|None, 'place': place} ].
    `otherwise` is None when the fall-through target is an `unreachable` block (exhaustive match)."""
    adt = prog.adts.get(adt_path)
    if adt is None:
        raise KeyError(f'anchor ADT not found: {adt_path}')
    names = {}
    for i, v in enumerate(adt['variants']):
        names[int(v.get('discr', i))] = v['name']
    out = []
    for bi, b in enumerate(fn.blocks):
        if b['t'].get('cleanup'):
            continue
        t = b['t']
        if t['k'] != 'switch':
            continue
        on = op_place(t['on'])
        if on is None:
            continue
        src = None
        for s in b['s']:
            if 'd' in s and s['d'][0] == on[0] and not s['d'][1] and s['v']['r'] == 'discr':
                ty = s['v']['t']
                if ty == adt_path or ty.startswith(adt_path + '<'):
                    src = s['v']['p']
        if src is None:
            continue
        arms = {}
        for v, tb in t['targets']:
            nm = names.get(int(v))
            if nm is not None:
                arms[nm] = tb
        ot = t['else']
        if fn.blocks[ot]['t']['k'] == 'unreachable':
            ot = None
        out.append({'block': bi, 'arms': arms, 'otherwise': ot, 'place': src})
    return out


def arm_region(fn, target):
    g = cfg(fn)
    return {x for x in g.reachable() if g.dominates(target, x)}


def region_calls(fn, region):
    from .facts import callee_name
    return [(i, t) for i, t in fn.calls() if i in region]


def region_is_err_only(fn, region, target):
    """every path from the arm's target ends in an Err exit inside the region (arm is `return Err(..)`)"""
    from .paths import search, return_blocks
    err, _ = exit_classes(fn)
    hit, _ = search(fn, [target], set(err), loop_model=False, targets=return_blocks(fn))
    return hit is None


def switch_arm_regions(fn, sw):
    """{variant|'_': blocks executed only when that arm is taken}: forward reach from each arm target
    without re-entering the switch block, minus what every arm reaches (the join / loop latch)."""
    g = cfg(fn)
    reaches = {v: g.reach_from([t], removed={sw['block']}) for v, t in sw['arms'].items()}
    if sw['otherwise'] is not None:
        reaches['_'] = g.reach_from([sw['otherwise']], removed={sw['block']})
    if len(reaches) > 1:
        common = set.intersection(*reaches.values())
    else:
        common = set()
    return {v: r - common for v, r in reaches.items()}
