"""Whole-program call graph over resolved callees.

Edges: direct calls (resolved by rustc's Instance::try_resolve), closure creation (parent ->
closure body: a closure is analysed where it is created), function items used as values
(`map(Self::f)`), and class-hierarchy expansion for calls that stayed generic/dynamic on a
workspace trait (all workspace impls of the method)."""
from .facts import callee_path, callee_name


class CallGraph:
    def __init__(self, prog):
        self.prog = prog
        self.out = {}      # path -> set(path) (only bodies we have)
        self.ext = {}      # path -> set(nice name) of callees outside the program
        self.unresolved = 0
        self.total_calls = 0
        # trait method index: (trait path, method name) -> [Fn]
        self.trait_impls = {}
        for f in prog.fns.values():
            if f.trait and not f.is_closure():
                name = f.path.rsplit('::', 1)[-1]
                self.trait_impls.setdefault((f.trait, name), []).append(f)
        for f in prog.fns.values():
            self._scan(f)
        self.inn = {}
        for a, bs in self.out.items():
            for b in bs:
                self.inn.setdefault(b, set()).add(a)

    def _add_callee(self, f, cal, o, e):
        if 'ptr' in cal:
            self.unresolved += 1
            return
        p = cal.get('r') or cal.get('p')
        if p in self.prog.fns:
            o.add(p)
            return
        if (cal.get('g') or cal.get('dyn')) and cal.get('tr'):
            name = cal['p'].rsplit('::', 1)[-1]
            impls = self.trait_impls.get((cal['tr'], name))
            if impls:
                for g in impls:
                    o.add(g.path)
                return
            self.unresolved += 1
        e.add(cal.get('rn') or cal.get('n'))

    def _scan_operand(self, f, op, o, e):
        if op.get('k') == 'fn':
            self._add_callee(f, op['f'], o, e)

    def _scan(self, f):
        o = set(); e = set()
        for b in f.blocks:
            for s in b['s']:
                if 'd' not in s:
                    continue
                v = s['v']
                if v['r'] == 'agg':
                    if v['kind'] in ('closure', 'coroutine', 'coroutine_closure'):
                        if v['def'] in self.prog.fns:
                            o.add(v['def'])
                    for x in v['ops']:
                        self._scan_operand(f, x, o, e)
                elif v['r'] in ('use', 'cast'):
                    self._scan_operand(f, v['a'], o, e)
            t = b['t']
            if t['k'] in ('call', 'tailcall'):
                self.total_calls += 1
                self._add_callee(f, t['f'], o, e)
                for a in t['args']:
                    self._scan_operand(f, a, o, e)
        self.out[f.path] = o
        self.ext[f.path] = e

    def reach(self, entries, stop=frozenset()):
        """set of fn paths reachable from entries (paths), not traversing through `stop`"""
        seen = set()
        st = [e for e in entries]
        while st:
            p = st.pop()
            if p in seen or p in stop:
                continue
            seen.add(p)
            for q in self.out.get(p, ()):
                if q not in seen:
                    st.append(q)
        return seen

    def path_to(self, entries, target):
        """one call chain entries -> target (list of paths) or None"""
        from collections import deque
        prev = {}
        dq = deque()
        for e in entries:
            prev[e] = None
            dq.append(e)
        while dq:
            p = dq.popleft()
            if p == target:
                chain = []
                while p is not None:
                    chain.append(p); p = prev[p]
                return chain[::-1]
            for q in self.out.get(p, ()):
                if q not in prev:
                    prev[q] = p
                    dq.append(q)
        return None

    def sccs(self, nodes):
        """Tarjan over the sub-graph induced by `nodes`; returns SCCs that contain a cycle."""
        nodes = set(nodes)
        index = {}; low = {}; onst = set(); st = []; out = []
        cnt = [0]
        for root in sorted(nodes):
            if root in index:
                continue
            work = [(root, iter(sorted(self.out.get(root, ()))))]
            index[root] = low[root] = cnt[0]; cnt[0] += 1
            st.append(root); onst.add(root)
            while work:
                v, it = work[-1]
                adv = False
                for w in it:
                    if w not in nodes:
                        continue
                    if w not in index:
                        index[w] = low[w] = cnt[0]; cnt[0] += 1
                        st.append(w); onst.add(w)
                        work.append((w, iter(sorted(self.out.get(w, ())))))
                        adv = True
                        break
                    elif w in onst:
                        low[v] = min(low[v], index[w])
                if adv:
                    continue
                work.pop()
                if work:
                    u = work[-1][0]
                    low[u] = min(low[u], low[v])
                if low[v] == index[v]:
                    comp = []
                    while True:
                        w = st.pop(); onst.discard(w); comp.append(w)
                        if w == v:
                            break
                    if len(comp) > 1 or v in self.out.get(v, ()):
                        out.append(comp)
        return out
