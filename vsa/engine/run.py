"""Check runner: loads facts for /repo's working tree, runs one property's rule module, matches
findings against known_findings.jsonl, writes evidence and reports, prints the interface lines."""
import os, sys, json, time, hashlib, importlib, traceback

from . import extract
from .facts import Program

VERIF = extract.VERIF
KNOWN = os.path.join(VERIF, 'known_findings.jsonl')
# scratch runs (tools/detect_seeded.py) redirect evidence and reports so that /verif/evidence always describes /repo itself
OUT = os.environ.get('VSA_OUT_DIR') or VERIF


class AnalysisError(Exception):
    """The checker can no longer see what it was built to look at (missing anchor, count below
    floor, arm not reducible).  Fails the check (exit 2) but is not a property violation."""


class Finding:
    def __init__(self, key, what, loc=None, detail=None):
        self.key = key; self.what = what; self.loc = loc; self.detail = detail or {}


class Ctx:
    def __init__(self, pid, tier, prog, fx=None):
        self.pid = pid; self.tier = tier; self.prog = prog; self.fx = fx
        self.findings = []
        self.instances = 0            # rule instances examined
        self.sites = set()            # distinct obligation-carrying sites
        self.samples = []
        self.assumptions = []
        self.exceptions = []          # (key, reason) applied
        self.notes = []
        self.rules = []
        self.extra = {}
        self.fixtures_run = 0

    # -- bookkeeping
    def rule(self, name, text):
        self.rules.append({'rule': name, 'text': text})

    def instance(self, site_key, sample=None):
        self.instances += 1
        self.sites.add(site_key)
        if sample is not None and len(self.samples) < 12:
            self.samples.append(sample)

    def finding(self, key, what, loc=None, detail=None):
        full = f'{self.pid}/{key}'
        for f in self.findings:
            if f.key == full:
                return
        self.findings.append(Finding(full, what, loc, detail))

    def exempt(self, key, reason):
        self.exceptions.append({'key': key, 'reason': reason})

    def floor(self, what, count, minimum):
        if count < minimum:
            raise AnalysisError(f'{what}: found {count}, floor (confirmed by hand) is {minimum} — '
                                f'the rule no longer sees its instances')

    def require(self, cond, msg):
        if not cond:
            raise AnalysisError(msg)

    def fn(self, nice):
        try:
            return self.prog.fn(nice)
        except KeyError as e:
            raise AnalysisError(str(e))

    def fixture(self, name, ok):
        self.fixtures_run += 1
        if not ok:
            raise AnalysisError(f'fixture control failed: {name}')


def load_known():
    known = {}; fixed = []
    if os.path.exists(KNOWN):
        for line in open(KNOWN):
            line = line.strip()
            if not line or line.startswith('#'):
                continue
            d = json.loads(line)
            if 'fixed' in d:
                fixed.append(d)
            else:
                known[d['key']] = d
    return known, fixed


def write_evidence(pid, tier, seed, ctx, t0, nviol, nknown, level='other', error=None):
    os.makedirs(os.path.join(OUT, 'evidence'), exist_ok=True)
    prog = ctx.prog if ctx else None
    cov = {
        'explanation': ('Static analysis of the MIR/ADT facts rustc produced for /repo\'s current working tree '
                        '(cargo +nightly check through vsa-driver). Rules: ' +
                        ' | '.join(f"{r['rule']}: {r['text']}" for r in (ctx.rules if ctx else []))),
        'evaluations': max(1, ctx.instances) if ctx else 1,
        'distinct_nontrivial': len(ctx.sites) if ctx else 0,
        'rule': 'evaluations = rule instances examined (function x construct); distinct_nontrivial = distinct '
                'sites that carried an obligation of the rule (keyed by function def-path + construct)',
        'samples': ctx.samples if ctx and ctx.samples else ['<none>'],
        'rules': ctx.rules if ctx else [],
        'functions_loaded': len(prog.fns) if prog else 0,
        'units': prog.units if prog else {},
        'exceptions_applied': ctx.exceptions if ctx else [],
        'known_findings_matched': nknown,
        'fixture_controls_run': ctx.fixtures_run if ctx else 0,
        'notes': ctx.notes if ctx else [],
        'exhaustive': True,
    }
    if ctx:
        cov.update(ctx.extra)
    if error:
        cov['analysis_error'] = error
    ev = {
        'property_id': pid, 'tier': tier, 'seed': seed, 'level': level, 'coverage': cov,
        'assumptions': (ctx.assumptions if ctx else []) + [
            'rustc nightly MIR (drop-elaborated, mir-opt-level=0) of the non-test targets is a faithful picture of the code',
            'a closure body is analysed where it is created',
            'third-party crates and std are trusted'],
        'wall_s': round(time.time() - t0, 2), 'violations': nviol,
    }
    p = os.path.join(OUT, 'evidence', f'{pid}.json')
    with open(p + '.tmp', 'w') as fh:
        json.dump(ev, fh, indent=1, default=str)
    os.replace(p + '.tmp', p)


def main(argv):
    import argparse
    ap = argparse.ArgumentParser()
    ap.add_argument('pid')
    ap.add_argument('--tier', default=os.environ.get('VERIF_TIER', 'quick'))
    ap.add_argument('--replay')
    a = ap.parse_args(argv)
    pid = a.pid
    tier = a.tier if a.tier in ('quick', 'thorough') else 'quick'
    try:
        seed = int(os.environ.get('VERIF_SEED', '0'))
    except ValueError:
        seed = 0
    t0 = time.time()
    ctx = None
    try:
        mod = importlib.import_module(f'vsa.rules.{pid}')
        # thorough: re-extract the facts from the compiler instead of trusting the cache, and load every crate of the
        # workspace (the rule then sees callers and implementations in all crates, not only in its own units)
        facts = extract.ensure_facts(force=(tier == 'thorough' and not os.environ.get('VSA_NO_FORCE')))
        units = getattr(mod, 'UNITS', None)
        if tier == 'thorough':
            units = getattr(mod, 'UNITS_THOROUGH', None)
        prog = Program(facts, units)
        fx = None
        if getattr(mod, 'USES_FIXTURES', False):
            fx = Program(extract.ensure_fixture_facts(), None)
        ctx = Ctx(pid, tier, prog, fx)
        mod.run(ctx)
    except AnalysisError as e:
        print(f'ANALYSIS-ERROR property={pid} {e}')
        write_evidence(pid, tier, seed, ctx, t0, 0, 0, error=str(e))
        return 2
    except Exception as e:
        traceback.print_exc()
        print(f'ANALYSIS-ERROR property={pid} internal: {e!r}')
        try:
            write_evidence(pid, tier, seed, ctx, t0, 0, 0, error=repr(e))
        except Exception:
            pass
        return 2

    known, fixed = load_known()
    nknown = 0; viol = []
    produced = set()
    for f in ctx.findings:
        produced.add(f.key)
        if f.key in known:
            nknown += 1
            print(f'KNOWN-FINDING: property={pid} {known[f.key].get("what_fails", f.what)} [{f.key}]')
        else:
            viol.append(f)
    for k, d in known.items():
        if d.get('property') == pid and k not in produced:
            print(f'NOTE: listed known finding no longer produced (repaired or moved?): {k}')
    rc = 0
    if viol:
        rdir = os.path.join(OUT, 'reports', pid)
        os.makedirs(rdir, exist_ok=True)
        for f in viol:
            h = hashlib.sha1(f.key.encode()).hexdigest()[:12]
            rp = os.path.join(rdir, f'{h}.json')
            with open(rp, 'w') as fh:
                json.dump({'property': pid, 'key': f.key, 'what': f.what, 'loc': f.loc, 'detail': f.detail},
                          fh, indent=1, default=str)
            print(f'VIOLATION property={pid} replay={rp}')
            print(f'  {f.loc or ""}: {f.what}  [{f.key}]')
        rc = 1
    write_evidence(pid, tier, seed, ctx, t0, len(viol), nknown)
    if rc == 0:
        print(f'OK property={pid} tier={tier} instances={ctx.instances} sites={len(ctx.sites)} '
              f'known_findings={nknown} exceptions={len(ctx.exceptions)} wall={time.time()-t0:.1f}s')
    return rc


if __name__ == '__main__':
    sys.exit(main(sys.argv[1:]))
