"""T5 may-panic inventory and T6 recursion analysis.

may_panic_sites(prog, fns): every construct in the given functions (and their closures) that can panic or abort:
  - MIR assert terminators (BoundsCheck, Overflow(op), DivisionByZero, RemainderByZero, ...),
  - calls to library functions that panic on bad input (unwrap/expect, Index::index, split_at, remove, ...),
  - explicit panics (panic!, unreachable!, todo!, assert!).
auto_discharge(prog, f, site): a reason string when the site is provably safe by one of the local rules
  D1 index guarded by a dominating `i < v.len()` test (directly or through a bool helper such as is_eof),
  D2 division/remainder by a non-zero constant,
  D3 usize addition of a small constant to a sequence position/length,
  D4 subtraction guarded by a dominating comparison of the same operands,
otherwise None.  recursive_components(...) returns the strongly connected components of the call graph.
Sites are keyed without line numbers: (function, kind, detail, ordinal of that kind within the function)."""
import re
from .facts import callee_name
from .cfg import cfg, defs_of, op_const, op_place, op_local
from .symexpr import Sym
from .paths import switch_target

PANIC_CALLEE = re.compile(
    r'(^core::option::Option::<T>::(unwrap|expect)$|^core::result::Result::<T, E>::(unwrap|expect|unwrap_err|expect_err)$|'
    r'^core::panicking::|^std::rt::begin_panic|^core::option::(unwrap|expect)_failed|^core::result::unwrap_failed|'
    r'ops::index::Index<.*::index$|ops::index::IndexMut<.*::index_mut$|'
    r'::split_at$|::split_at_mut$|::copy_from_slice$|::clone_from_slice$|'
    r'^alloc::vec::Vec::<T, A>::(remove|insert|swap_remove|drain|split_off)$|'
    r'^alloc::string::String::(remove|insert|insert_str|drain|split_off|truncate|replace_range)$|'
    r'^alloc::collections::vec_deque::VecDeque::<T, A>::(remove|insert|swap)$|'
    r'^core::cell::RefCell::<T>::(borrow|borrow_mut)$|'
    r'^core::iter::traits::iterator::Iterator::step_by$|^core::slice::<impl \[T\]>::(chunks|chunks_exact|windows|rchunks)$|'
    r'^core::str::<impl str>::(split_at|split_at_mut)$|'
    r'^core::char::methods::<impl char>::from_digit$|'
    r'^core::num::<impl [iu](8|16|32|64|128|size)>::(abs|pow|isqrt|ilog|ilog2|ilog10|div_euclid|rem_euclid|next_power_of_two)$|'
    r'^core::time::Duration::|^std::time::Instant::|^core::slice::<impl \[T\]>::swap$)')
ALLOC_CALLEE = re.compile(r'(^alloc::vec::from_elem$|^alloc::vec::Vec::<T>::with_capacity$|^alloc::vec::Vec::<T, A>::(reserve|reserve_exact|resize)$|'
                          r'^alloc::string::String::with_capacity$|^alloc::string::String::(reserve|reserve_exact)$)')


def short_callee(cn):
    m = re.search(r'ops::index::(Index|IndexMut)<', cn)
    if m:
        recv = re.match(r'^<(.*?) as core::ops::index', cn)
        r2 = re.search(r'> for (\S+?)>::index', cn)
        return f'{m.group(1)}::index on {recv.group(1) if recv else (r2.group(1) if r2 else "?")}'
    return re.sub(r'<.*?>', '', cn).replace('::::', '::')


class Site:
    __slots__ = ('fn', 'block', 'kind', 'detail', 'line', 'ordinal', 'term')

    def __init__(self, fn, block, kind, detail, line, term):
        self.fn, self.block, self.kind, self.detail, self.line, self.term = fn, block, kind, detail, line, term
        self.ordinal = 0

    @property
    def key(self):
        return f'{self.fn.nice}/{self.kind}/{self.detail}#{self.ordinal}'

    @property
    def loc(self):
        return f'{self.fn.file}:{self.line}'


def sites_of(prog, f, with_alloc=False):
    out = []
    for i, b in enumerate(f.blocks):
        t = b['t']
        if t.get('cleanup'):
            continue
        if t['k'] == 'assert':
            out.append(Site(f, i, 'assert', t['kind'], t['l'], t))
        elif t['k'] == 'call':
            cn = callee_name(t) or ''
            if t.get('x') and cn.startswith('core::panicking::') and False:
                continue
            if PANIC_CALLEE.search(cn):
                out.append(Site(f, i, 'call', short_callee(cn), t['l'], t))
            elif with_alloc and ALLOC_CALLEE.search(cn):
                out.append(Site(f, i, 'alloc', short_callee(cn), t['l'], t))
    seen = {}
    for s in out:
        k = (s.kind, s.detail)
        s.ordinal = seen.get(k, 0)
        seen[k] = s.ordinal + 1
    return out


def may_panic_sites(prog, fns, with_alloc=False):
    out = []
    done = set()
    for f in fns:
        for g in [f] + prog.children(f):
            if g.path in done or g.dk == 'Promoted':
                continue
            done.add(g.path)
            out += sites_of(prog, g, with_alloc)
    return out


# ----------------------------------------------------------------------------------------------- discharge rules
def _bool_helper_summary(prog, callee_nice):
    """ret expression of a small bool helper like is_eof: '(self.position Ge len(self.input))'"""
    fs = prog.by_nice.get(callee_nice)
    if not fs or len(fs[0].blocks) > 12:
        return None
    f = fs[0]
    if f.ret != 'bool':
        return None
    return Sym(f).local(0)


def dominating_facts(prog, f, block, sym=None):
    """[(expr, value)] : switch conditions that hold on every path to `block` (condition expression, branch value taken)"""
    g = cfg(f)
    sym = sym or Sym(f)
    facts = []
    for sblk in g.reachable():
        t = f.blocks[sblk]['t']
        if t['k'] != 'switch' or not g.dominates(sblk, block) or sblk == block:
            continue
        on = op_place(t['on'])
        if on is None:
            continue
        # which successors lead (dominate) to block
        taken = None
        succs = [(v, tb) for v, tb in t['targets']] + ([('else', t['else'])] if t.get('else') is not None else [])
        for v, tb in succs:
            if tb == block or g.dominates(tb, block):
                # make sure the edge target is only entered through this switch (single predecessor) – else the fact may not hold
                if len(g.pred[tb]) == 1:
                    taken = v
        if taken is None:
            continue
        if taken == 'else':
            vals = [v for v, _ in t['targets']]
            taken = 1 if vals == [0] else 0 if vals == [1] else None
            if taken is None:
                continue
        cond = None
        for st in f.blocks[sblk]['s']:
            if 'd' in st and st['d'][0] == on[0] and not st['d'][1]:
                cond = sym._one(on[0], (sblk, 'assign', st['v']), 0)
        if cond is None:
            cond = sym.place(on)
        facts.append((cond, int(taken)))
    return facts


def _normalise_fact(prog, f, cond, val):
    """-> list of ('lt', A, B) meaning A < B known true, or ('ge', A, B)"""
    out = []
    m = re.match(r'^\((.*) (Lt|Le|Gt|Ge|Eq|Ne) (.*)\)$', cond)
    if m:
        a, op, b = m.group(1), m.group(2), m.group(3)
        if not val:
            op = {'Lt': 'Ge', 'Le': 'Gt', 'Gt': 'Le', 'Ge': 'Lt', 'Eq': 'Ne', 'Ne': 'Eq'}[op]
        out.append((op, a, b))
        return out
    m = re.match(r'^Not\((.*)\)$', cond)
    if m:
        return _normalise_fact(prog, f, m.group(1), 0 if val else 1)
    m = re.match(r'^(is_ascii|is_char_boundary)\((.*)\)$', cond)
    if m and _balanced(m.group(2)) and val:
        return [('True', cond, '')]
    m = re.match(r'^is_empty\((.*)\)$', cond)
    if m and _balanced(m.group(1)):
        return [('Eq', f'len({m.group(1)})', 'const(0)')] if val else [('Ge', f'len({m.group(1)})', 'const(1)')]
    m = re.match(r'^([A-Za-z_0-9]+)\((self|[A-Za-z_0-9.]+)\)$', cond)
    if m:
        # bool helper on self: look into its body
        for cand in prog.fns.values():
            if cand.nice.endswith('::' + m.group(1)) and cand.ret == 'bool' and cand.unit == f.unit and cand.self_adt == f.self_adt:
                inner = Sym(cand).local(0)
                inner = re.sub(r'\bself\b', m.group(2), inner)
                return _normalise_fact(prog, f, inner, val)
    return out


def auto_discharge(prog, f, site, sym=None):
    sym = sym or Sym(f)
    t = site.term
    if site.kind == 'assert':
        kind = t['kind']
        if kind in ('DivisionByZero', 'RemainderByZero'):
            c = op_const(t['ops'][0]) if t.get('ops') else None
            if isinstance(c, int) and c != 0:
                return 'D2: divisor is the non-zero constant %d' % c
            return None
        if kind.startswith('Overflow(Add)'):
            ops = t.get('ops') or []
            consts = [op_const(o) for o in ops]
            tys = t.get('ty') or ''
            small = [c for c in consts if isinstance(c, int) and 0 <= c <= 65536]
            if len(consts) == 2 and all(isinstance(c, int) and 0 <= c <= 65536 for c in consts):
                return 'D3: sum of two small constants (%d + %d)' % (consts[0], consts[1])
            if small and _is_usize(f, ops, t):
                return 'D3: usize position/length plus the constant %d (sequence lengths are bounded by isize::MAX)' % small[0]
            return None
        if kind.startswith('Overflow(Sub)'):
            ops = t.get('ops') or []
            if len(ops) == 2:
                a, b = sym.op(ops[0]), sym.op(ops[1])
                for cond, val in dominating_facts(prog, f, site.block, sym):
                    for (op, x, y) in _normalise_fact(prog, f, cond, val):
                        if (op in ('Ge', 'Gt') and x == a and y == b) or (op in ('Le', 'Lt') and x == b and y == a):
                            return f'D4: guarded by dominating test {x} {op} {y}'
                        cb = op_const(ops[1])
                        if isinstance(cb, int) and op in ('Gt', 'Ge', 'Ne') and x == a and re.match(r'^const\((\d+)\)$', y):
                            k = int(re.match(r'^const\((\d+)\)$', y).group(1))
                            if (op == 'Gt' and k + 1 >= cb) or (op == 'Ge' and k >= cb) or (op == 'Ne' and k == 0 and cb == 1 and _is_usize(f, ops, t)):
                                return f'D4: guarded by dominating test {x} {op} {k}'
            return None
        if kind == 'BoundsCheck':
            ops = t.get('ops') or []
            if len(ops) == 2:
                ln, ix = sym.op(ops[0]), sym.op(ops[1])
                c = _const_int(f, ops[1]); cl = _const_int(f, ops[0])
                if isinstance(c, int) and isinstance(cl, int) and c < cl:
                    return 'D1: constant index %d into an array of length %d' % (c, cl)
                for cond, val in dominating_facts(prog, f, site.block, sym):
                    for (op, x, y) in _normalise_fact(prog, f, cond, val):
                        if op == 'Lt' and x == ix and (y == ln or _same_len(y, ln)):
                            return f'D1: guarded by dominating test {x} < {y}'
            return None
        return None
    if site.kind == 'call' and site.detail.startswith(('Index::index', 'IndexMut::index')):
        args = t['args']
        if len(args) >= 2:
            recv, ix = sym.op(args[0]), sym.op(args[1])
            facts = []
            for cond, val in dominating_facts(prog, f, site.block, sym):
                facts += _normalise_fact(prog, f, cond, val)
            facts += _parent_facts(prog, f, sym)
            recv = _expand_upvar(prog, f, recv)
            is_str = site.detail.endswith((' on str', ' on alloc::string::String'))
            if re.match(r'^Range', ix):
                if is_str:
                    return _discharge_str_slice(prog, f, sym, recv, ix, facts)
                return _discharge_clamped_slice(recv, ix)
            c = op_const(args[1])
            for (op, x, y) in facts:
                if op == 'Lt' and _strip_ovf(x) == _strip_ovf(ix) and _same_len(y, f'len({recv})'):
                    return f'D1: guarded by dominating test {x} < {y}'
                if op == 'Gt' and _strip_ovf(y) == _strip_ovf(ix) and _same_len(x, f'len({recv})'):
                    return f'D1: guarded by dominating test {x} > {y}'
                if isinstance(c, int) and _same_len(x, f'len({recv})'):
                    m = re.match(r'^const\((\d+)\)$', y)
                    if m:
                        n = int(m.group(1))
                        if (op == 'Eq' and c < n) or (op == 'Ge' and c < n) or (op == 'Gt' and c <= n):
                            return f'D1: constant index {c} with dominating test {x} {op} {n}'
                if isinstance(c, int) and c == 0 and op == 'Eq' and x == f'is_empty({recv})' and y == 'const(0)':
                    return 'D1: index 0 of a collection tested non-empty'
            if isinstance(c, int) and c == 0:
                for (op, x, y) in facts:
                    if x == f'is_empty({recv})' and ((op == 'Eq' and y in ('const(0)',)) or op == 'Not'):
                        return 'D1: index 0 of a collection tested non-empty'
        return None
    return None


def _parent_of(prog, f):
    parent = None
    for cand in prog.fns.values():
        if f.path.startswith(cand.path + '::') and not cand.is_closure() and cand.path != f.path:
            if parent is None or len(cand.path) > len(parent.path):
                parent = cand
    return parent


def _expand_upvar(prog, f, expr):
    """in a closure, a captured variable is printed by name: replace it by the parent's expression for that variable"""
    if not f.is_closure():
        return expr
    m = re.match(r'^([A-Za-z_][A-Za-z_0-9]*)$', expr)
    if not m or m.group(1) not in f.upvars.values():
        return expr
    parent = _parent_of(prog, f)
    if parent is None:
        return expr
    for l, n in parent.names.items():
        if n == m.group(1):
            return Sym(parent).local(l)
    return expr


def _parent_facts(prog, f, sym):
    """facts of the enclosing function that dominate the creation of this closure (captured variables keep their names)"""
    if not f.is_closure():
        return []
    parent = None
    for cand in prog.fns.values():
        if f.path.startswith(cand.path + '::') and not cand.is_closure() and cand.path != f.path:
            if parent is None or len(cand.path) > len(parent.path):
                parent = cand
    if parent is None:
        return []
    out = []
    for bi, b in enumerate(parent.blocks):
        for st in b['s']:
            if 'd' in st and st['v']['r'] == 'agg' and st['v'].get('kind') in ('closure', 'coroutine_closure') and st['v'].get('def') == f.path:
                ps = Sym(parent)
                for cond, val in dominating_facts(prog, parent, bi, ps):
                    out += _normalise_fact(prog, parent, cond, val)
    return out


def _discharge_clamped_slice(recv, ix):
    """slice of a Vec / [T] by a range: a RangeTo / RangeFrom whose bound is 0, len or clamped with min(.., len) cannot be out of range"""
    m = re.match(r'^(RangeTo|RangeFrom)\((.*)\)$', ix)
    if not m:
        m2 = re.match(r'^Range\(const\(0\), (.*)\)$', ix)
        if not m2:
            return None
        b = m2.group(1)
    else:
        b = m.group(2)
    b0 = _strip_ovf(b)
    L = 'len(' + recv + ')'
    if b0 in ('const(0)', L):
        return 'D7: slice bound is 0 / len of the same collection'
    mm = re.match(r'^min\((.*)\)$', b0)
    if mm:
        parts = _split_args(mm.group(1))
        if len(parts) == 2 and any(_same_len(x, L) for x in parts):
            return 'D7: slice bound is clamped with min(.., len) of the same collection'
    return None


def _discharge_str_slice(prog, f, sym, recv, ix, facts):
    """string slicing: bounds must be character boundaries"""
    bounds = re.findall(r'(?:Range|RangeTo|RangeFrom|RangeInclusive)\((.*)\)$', ix)
    inner = bounds[0] if bounds else ''
    parts = _split_args(inner)
    ok = []
    for b in parts:
        b0 = _strip_ovf(b)
        if re.match(r'^const\(0\)$', b0):
            ok.append('0'); continue
        # position returned by find/rfind on the same string (a char boundary), optionally + 1 for a one-byte ASCII pattern
        m = re.match(r'^\(?(r?find)\((.*?), const\((\d+)\)\)@Some\.0(?: Add const\(1\)\))?$', b0)
        if m and _same_len(m.group(2), recv) and int(m.group(3)) < 128:
            ok.append('find'); continue
        if re.match(r'^len\(' + re.escape(recv) + r'\)$', b0):
            ok.append('len'); continue
        ok.append(None)
    if parts and all(ok):
        return 'D5: slice bounds are 0 / len / positions returned by find() of a one-byte pattern on the same string (character boundaries)'
    # constant byte offsets are safe only on ASCII text
    root = re.sub(r'^(?:index\()+', '', recv).split(',')[0]
    for (op, x, y) in facts:
        if op == 'True' and x in (f'is_ascii({recv})', f'is_ascii({root})'):
            return 'D6: byte offsets on a string tested is_ascii()'
    return None


def _split_args(e):
    out = []; depth = 0; cur = ''
    i = 0
    while i < len(e):
        c = e[i]
        if c == '(':
            depth += 1
        elif c == ')':
            depth -= 1
        if c == ',' and depth == 0 and e[i:i + 2] == ', ':
            out.append(cur); cur = ''; i += 2
            continue
        cur += c; i += 1
    if cur:
        out.append(cur)
    return out


def _balanced(e):
    d = 0
    for c in e:
        if c == '(':
            d += 1
        elif c == ')':
            d -= 1
            if d < 0:
                return False
    return d == 0


def _const_int(f, op):
    from .cfg import resolve_const
    c = op_const(op)
    if isinstance(c, int):
        return c
    r = resolve_const(f, defs_of(f), op)
    if r is not None and isinstance(r.get('v'), int):
        return r['v']
    return None


def _strip_ovf(e):
    # (a AddWithOverflow const(1)).0  ==  (a Add const(1))
    e = re.sub(r'\((.*?) (Add|Sub|Mul)WithOverflow (.*?)\)\.0', r'(\1 \2 \3)', e)
    return e


def _same_len(a, b):
    na = re.sub(r'\s+', '', a); nb = re.sub(r'\s+', '', b)
    if na == nb:
        return True
    # len(x) vs len(deref(x)) etc. are already normalised by Sym pass-throughs
    return False


def _is_usize(f, ops, t):
    ty = str(t.get('ty') or '')
    if 'usize' in ty:
        return True
    for o in ops:
        l = op_local(o)
        if l is not None and f.locals[l] == 'usize':
            return True
        if isinstance(o, dict) and o.get('t') == 'usize':
            return True
    return False


# ----------------------------------------------------------------------------------------------- recursion
def recursive_components(prog, cg, reach):
    """SCCs (with at least one cycle) of the call graph restricted to `reach` (set of fn paths)"""
    adj = {p: [q for q in cg.out.get(p, ()) if q in reach] for p in reach}
    index = {}; low = {}; st = []; on = set(); out = []; counter = [0]
    for root in list(adj):
        if root in index:
            continue
        work = [(root, iter(adj[root]))]
        index[root] = low[root] = counter[0]; counter[0] += 1; st.append(root); on.add(root)
        while work:
            v, it = work[-1]
            advanced = False
            for w in it:
                if w not in index:
                    index[w] = low[w] = counter[0]; counter[0] += 1; st.append(w); on.add(w)
                    work.append((w, iter(adj.get(w, ()))))
                    advanced = True
                    break
                elif w in on:
                    low[v] = min(low[v], index[w])
            if advanced:
                continue
            work.pop()
            if work:
                u = work[-1][0]
                low[u] = min(low[u], low[v])
            if low[v] == index[v]:
                comp = []
                while True:
                    w = st.pop(); on.discard(w); comp.append(w)
                    if w == v:
                        break
                if len(comp) > 1 or v in adj.get(v, ()):
                    out.append(comp)
    return out


def cycle_without(adj_comp, comp, removed):
    """a cycle inside `comp` that avoids the `removed` nodes, or None"""
    nodes = [n for n in comp if n not in removed]
    ns = set(nodes)
    color = {}
    for root in nodes:
        if root in color:
            continue
        stack = [(root, iter([w for w in adj_comp.get(root, ()) if w in ns]))]
        color[root] = 1; path = [root]
        while stack:
            v, it = stack[-1]
            nxt = None
            for w in it:
                if color.get(w) == 1:
                    return path[path.index(w):] + [w]
                if w not in color:
                    nxt = w; break
            if nxt is None:
                color[v] = 2; stack.pop(); path.pop()
            else:
                color[nxt] = 1; path.append(nxt)
                stack.append((nxt, iter([w for w in adj_comp.get(nxt, ()) if w in ns])))
    return None
