"""Developer tool: pretty-print MIR-lite of functions.  python3 -m vsa.engine.show <facts_dir> <regex>"""
import sys
from .facts import Program, callee_name


def pl(fn, p):
    l, proj = p
    s = fn.names.get(l) and f'{fn.names[l]}#{l}' or f'_{l}'
    for e in proj:
        if e == '*':
            s = f'(*{s})'
        else:
            s += e
    return s


def op(fn, o):
    if 'c' in o:
        return pl(fn, o['c'])
    if 'm' in o:
        return 'move ' + pl(fn, o['m'])
    if o.get('k') == 'fn':
        return 'fn:' + (o['f'].get('rn') or o['f'].get('n', '?'))
    if o.get('k') in ('i', 'o'):
        return f"const {o['v']!r}:{o.get('t','')}"
    return str(o)


def rv(fn, v):
    r = v['r']
    if r == 'use':
        return op(fn, v['a'])
    if r == 'ref':
        return ('&mut ' if v['mut'] else '&') + pl(fn, v['p'])
    if r == 'bin':
        return f"{v['op']}({op(fn, v['a'])}, {op(fn, v['b'])}) [{v['t']}]"
    if r == 'un':
        return f"{v['op']}({op(fn, v['a'])})"
    if r == 'cast':
        return f"{op(fn, v['a'])} as {v['to']} ({v['kind']}; from {v['from']})"
    if r == 'discr':
        return f"discriminant({pl(fn, v['p'])}) [{v['t']}]"
    if r == 'agg':
        k = v['kind']
        ops = ', '.join(op(fn, o) for o in v['ops'])
        if k == 'adt':
            return f"{v['adt']}::{v['variant']}{{{ops}}}"
        if k in ('closure', 'coroutine', 'coroutine_closure'):
            return f"{k}<{v['def']}>[{ops}]"
        return f"{k}({ops})"
    return str(v)


def show(fn, out=sys.stdout):
    w = out.write
    w(f"fn {fn.nice}  [{fn.path}]  {fn.file}:{fn.line} ret={fn.ret} argc={fn.argc}\n")
    for i, b in enumerate(fn.blocks):
        t = b['t']
        w(f"  bb{i}{' (cleanup)' if t.get('cleanup') else ''}:\n")
        for s in b['s']:
            if 'd' in s:
                w(f"    {pl(fn, s['d'])} = {rv(fn, s['v'])}   @{s['l']}\n")
            else:
                w(f"    setdiscr {pl(fn, s['setdiscr'])} = {s['vi']}\n")
        k = t['k']
        if k in ('call', 'tailcall'):
            n = callee_name(t) or ('ptr ' + str(t['f'].get('ty')))
            ga = t['f'].get('ga')
            args = ', '.join(op(fn, a) for a in t['args'])
            d = pl(fn, t['d']) if 'd' in t else '-'
            w(f"    {d} = {n}{'<'+ga+'>' if ga else ''}({args}) -> bb{t.get('to')} uw {t.get('uw')}  @{t['l']}{' X' if t.get('x') else ''}\n")
        elif k == 'switch':
            w(f"    switch {op(fn, t['on'])} [{t['ty']}] {t['targets']} else bb{t['else']}  @{t['l']}\n")
        elif k == 'assert':
            w(f"    assert {t['kind']} {[op(fn,o) for o in t['ops']]} [{t['opty']}] -> bb{t['to']}  @{t['l']}\n")
        elif k == 'drop':
            w(f"    drop {pl(fn, t['p'])} -> bb{t['to']}\n")
        else:
            w(f"    {k} {t.get('to','')}\n")


if __name__ == '__main__':
    import re
    prog = Program(sys.argv[1])
    for f in prog.find(sys.argv[2]):
        show(f)
