"""Per-function CFG utilities over MIR-lite blocks: successors, dominators, reachability,
Ok/Err exit classification, value provenance helpers."""
from .facts import callee_name


def term_succs(t, unwind=False):
    k = t['k']
    out = []
    if k == 'goto':
        out = [t['to']]
    elif k == 'switch':
        out = [b for _, b in t['targets']] + [t['else']]
    elif k in ('drop', 'assert'):
        out = [t['to']]
    elif k == 'call':
        if t['to'] is not None:
            out = [t['to']]
    elif k == 'yield':
        out = [t['to']]
    elif k == 'asm':
        out = list(t['tos'])
    if unwind and t.get('uw') is not None:
        out = out + [t['uw']]
    return out


class CFG:
    def __init__(self, fn):
        self.fn = fn
        bl = fn.blocks
        n = len(bl)
        self.n = n
        self.succ = [[] for _ in range(n)]
        self.pred = [[] for _ in range(n)]
        # Coroutine bodies arrive after the state-machine transform: block 0 dispatches on the saved state
        # and every suspension point is `discriminant = N; return`.  Re-link each suspension to its resume
        # block so that dominance and reachability follow the source order of the async fn again.
        resume = {}
        if getattr(fn, 'coroutine', False) and bl and bl[0]['t']['k'] == 'switch':
            for v, tb in bl[0]['t']['targets']:
                resume[int(v)] = tb
        for i, b in enumerate(bl):
            if b['t'].get('cleanup'):
                continue
            seen = set()
            succs = term_succs(b['t'])
            if resume:
                if i == 0:
                    succs = [resume[0]] if 0 in resume else succs
                elif b['t']['k'] == 'return':
                    for st in b['s']:
                        if 'setdiscr' in st and st['vi'] >= 3 and st['vi'] in resume:
                            succs = [resume[st['vi']]]
            for s in succs:
                if s in seen:
                    continue
                seen.add(s)
                self.succ[i].append(s)
                self.pred[s].append(i)
        self._dom = None
        self._reach0 = None

    # ---- reachability
    def reach_from(self, starts, removed=frozenset()):
        seen = set()
        st = [s for s in starts if s not in removed]
        while st:
            b = st.pop()
            if b in seen:
                continue
            seen.add(b)
            for s in self.succ[b]:
                if s not in seen and s not in removed:
                    st.append(s)
        return seen

    def reachable(self):
        if self._reach0 is None:
            self._reach0 = self.reach_from([0])
        return self._reach0

    # ---- dominators (simple iterative set algorithm; bodies are small)
    def dominators(self):
        if self._dom is not None:
            return self._dom
        reach = self.reachable()
        order = self.rpo()
        idx = {b: i for i, b in enumerate(order)}
        idom = {0: 0}
        changed = True
        while changed:
            changed = False
            for b in order[1:]:
                preds = [p for p in self.pred[b] if p in idom and p in reach]
                if not preds:
                    continue
                new = preds[0]
                for p in preds[1:]:
                    # intersect
                    a, c = p, new
                    while a != c:
                        while idx[a] > idx[c]:
                            a = idom[a]
                        while idx[c] > idx[a]:
                            c = idom[c]
                    new = a
                if idom.get(b) != new:
                    idom[b] = new
                    changed = True
        self._dom = idom
        return idom

    def rpo(self):
        seen = set(); post = []
        st = [(0, iter(self.succ[0]))]
        seen.add(0)
        while st:
            b, it = st[-1]
            adv = False
            for s in it:
                if s not in seen:
                    seen.add(s)
                    st.append((s, iter(self.succ[s])))
                    adv = True
                    break
            if not adv:
                post.append(b)
                st.pop()
        return post[::-1]

    def dominates(self, a, b):
        """block a dominates block b"""
        idom = self.dominators()
        if b not in idom:
            return False
        while True:
            if a == b:
                return True
            if b == 0:
                return False
            b = idom[b]

    # ---- loops
    def back_edges(self):
        out = []
        for b in self.reachable():
            for s in self.succ[b]:
                if self.dominates(s, b):
                    out.append((b, s))
        return out

    def sccs(self):
        """Tarjan SCCs over reachable blocks; returns list of lists (only non-trivial or self-loop)."""
        index = {}; low = {}; onst = set(); st = []; out = []
        counter = [0]
        import sys
        sys.setrecursionlimit(max(10000, self.n * 4))

        def strong(v):
            index[v] = low[v] = counter[0]; counter[0] += 1
            st.append(v); onst.add(v)
            for w in self.succ[v]:
                if w not in index:
                    strong(w)
                    low[v] = min(low[v], low[w])
                elif w in onst:
                    low[v] = min(low[v], index[w])
            if low[v] == index[v]:
                comp = []
                while True:
                    w = st.pop(); onst.discard(w); comp.append(w)
                    if w == v:
                        break
                if len(comp) > 1 or v in self.succ[v]:
                    out.append(comp)
        for v in sorted(self.reachable()):
            if v not in index:
                strong(v)
        return out


def cfg(fn):
    if fn._cfg is None:
        fn._cfg = CFG(fn)
    return fn._cfg


# ---------------------------------------------------------------------------------------------
# Exit classification

def ret_assign_class(fn):
    """For each block, the class of assignment to the return place _0 made in it:
    'ok' | 'err' | 'residual' | 'call' | 'other' (absent = none)."""
    out = {}
    for i, b in enumerate(fn.blocks):
        for s in b['s']:
            if 'd' in s and s['d'][0] == 0 and not s['d'][1]:
                v = s['v']
                c = 'other'
                if v['r'] == 'agg' and v.get('kind') == 'adt' and v['adt'].endswith('result::Result'):
                    c = 'ok' if v['variant'] == 'Ok' else 'err'
                out[i] = c
        t = b['t']
        if t['k'] == 'call' and t['d'][0] == 0 and not t['d'][1]:
            n = callee_name(t) or ''
            if 'FromResidual' in n and n.endswith('from_residual'):
                out[i] = 'residual'
            else:
                out[i] = 'call'
        elif t['k'] == 'tailcall':
            out[i] = 'call'
    return out


def returns_result(fn):
    r = fn.ret or ''
    return r.startswith('core::result::Result<') or r.startswith('std::result::Result<')


# ---------------------------------------------------------------------------------------------
# Operand / place helpers

def op_place(op):
    """(local, proj) of a copy/move operand, else None"""
    if 'c' in op:
        return op['c']
    if 'm' in op:
        return op['m']
    return None


def op_local(op):
    p = op_place(op)
    return p[0] if p else None


def op_const(op):
    if op.get('k') in ('i', 'o'):
        return op.get('v')
    return None


def is_const(op):
    return 'k' in op


def defs_of(fn):
    """local -> list of (block, kind, payload): assignments whose destination is the bare local.
    kind: 'assign' (payload=rvalue) | 'call' (payload=terminator)."""
    out = {}
    for i, b in enumerate(fn.blocks):
        for s in b['s']:
            if 'd' in s and not s['d'][1]:
                out.setdefault(s['d'][0], []).append((i, 'assign', s['v']))
        t = b['t']
        if t['k'] == 'call' and not t['d'][1]:
            out.setdefault(t['d'][0], []).append((i, 'call', t))
    return out


def trace_local(fn, local, defs=None, depth=12):
    """Follow single-definition copies/moves/refs/derefs back to a 'root':
    returns list of steps [(kind, payload)], ending at an argument, a call, an aggregate, etc."""
    if defs is None:
        defs = defs_of(fn)
    steps = []
    cur = local
    for _ in range(depth):
        if cur <= fn.argc and cur != 0:
            steps.append(('arg', cur))
            return steps
        ds = defs.get(cur, [])
        if len(ds) != 1:
            steps.append(('multi' if ds else 'undef', cur))
            return steps
        _, kind, pl = ds[0]
        if kind == 'call':
            steps.append(('call', pl))
            return steps
        r = pl['r']
        if r == 'use':
            p = op_place(pl['a'])
            if p is None:
                steps.append(('const', pl['a']))
                return steps
            steps.append(('use', p))
            cur = p[0]
        elif r == 'ref':
            steps.append(('ref', pl['p']))
            cur = pl['p'][0]
        elif r == 'cast':
            p = op_place(pl['a'])
            steps.append(('cast', pl))
            if p is None:
                return steps
            cur = p[0]
        else:
            steps.append((r, pl))
            return steps
    return steps


def str_const(op):
    """the text of a `&str` literal operand, else None"""
    if op and op.get('k') == 'o' and op.get('t') in ('&str', "&'static str"):
        v = op.get('v', '')
        if len(v) >= 2 and v[0] == '"' and v[-1] == '"':
            try:
                import ast as _ast
                return _ast.literal_eval(v) if '\\u{' not in v else v[1:-1]
            except Exception:
                return v[1:-1]
    return None


def all_operands(fn):
    """yield every operand appearing in fn (statements, call args, switch discriminants)"""
    for b in fn.blocks:
        for s in b['s']:
            if 'd' not in s:
                continue
            v = s['v']
            for k in ('a', 'b'):
                if isinstance(v.get(k), dict):
                    yield v[k]
            for o in v.get('ops', ()):
                yield o
        t = b['t']
        if t['k'] in ('call', 'tailcall'):
            for a in t['args']:
                yield a
        elif t['k'] == 'switch':
            yield t['on']


def string_literals(prog, fn, with_children=True):
    """set of &str literal texts used in fn (including its promoted constants and closures)"""
    out = set()
    fs = [fn] + (prog.children(fn) if with_children else [])
    for f in fs:
        for o in all_operands(f):
            s = str_const(o)
            if s is not None:
                out.add(s)
    return out


def adt_literals(prog, fn, adt_suffix, with_children=True):
    """set of variant names of aggregates of an ADT (path ending with adt_suffix) built in fn/its promoteds"""
    out = set()
    fs = [fn] + (prog.children(fn) if with_children else [])
    for f in fs:
        for b in f.blocks:
            for s in b['s']:
                if 'd' in s and s['v']['r'] == 'agg' and s['v'].get('kind') == 'adt' and s['v']['adt'].endswith(adt_suffix):
                    out.add(s['v']['variant'])
    return out


def resolve_const(fn, defs, op, depth=8):
    """the constant operand an operand ultimately is (through single-definition moves / reborrows), or None"""
    for _ in range(depth):
        if op is None:
            return None
        if 'k' in op:
            return op
        p = op_place(op)
        if p is None:
            return None
        ds = defs.get(p[0], [])
        if len(ds) != 1 or ds[0][1] != 'assign':
            return None
        v = ds[0][2]
        if v['r'] in ('use', 'cast'):
            op = v['a']
        elif v['r'] == 'ref':
            op = {'c': v['p']}
        else:
            return None
    return None


def resolve_str(fn, defs, op):
    c = resolve_const(fn, defs, op)
    return str_const(c) if c else None


PASS_THROUGH = ('as_bytes', 'as_str', 'as_ref', 'deref', 'borrow', 'as_slice', 'as_mut', 'clone', 'to_owned', 'into', 'from')


def root_of(fn, defs, op, depth=0):
    """Where an operand's value comes from: ('param', n) | ('call', callee_name, term) | ('const', v) | ('local', l).
    Follows moves, reborrows and view conversions (as_bytes, deref, ...)."""
    from .facts import callee_name as _cn
    for _ in range(14):
        if op is None:
            return ('unknown', None)
        if 'k' in op:
            return ('const', op.get('v'))
        p = op_place(op)
        if p is None:
            return ('unknown', None)
        l = p[0]
        if 1 <= l <= fn.argc:
            return ('param', l)
        ds = defs.get(l, [])
        if len(ds) != 1:
            return ('local', l)
        _, kind, pl = ds[0]
        if kind == 'call':
            n = _cn(pl) or ''
            if n.rsplit('::', 1)[-1] in PASS_THROUGH and pl['args']:
                op = pl['args'][0]
                continue
            return ('call', n, pl)
        v = pl
        if v['r'] in ('use', 'cast'):
            op = v['a']
        elif v['r'] == 'ref':
            op = {'c': v['p']}
        else:
            return ('local', l)
    return ('unknown', None)
