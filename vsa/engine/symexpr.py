"""Symbolic value expressions: a canonical string for how an operand was computed inside one function
(arguments, field reads, pass-through conversions, named calls, format! templates with their
arguments).  Used for key-derivation agreement between sibling functions (T10)."""
from .facts import callee_name
from .cfg import defs_of, op_place, op_local, op_const, str_const
from .fmt import parse_rust_bytes, decode_template

PASS = {'deref', 'as_ref', 'as_str', 'as_bytes', 'as_slice', 'borrow', 'clone', 'to_string', 'to_owned', 'into', 'from', 'must_use',
        'as_mut', 'deref_mut', 'new_display', 'to_vec', 'borrow_mut', 'as_deref'}
RENAME = {'to_uppercase': 'upper', 'to_ascii_uppercase': 'upper', 'to_lowercase': 'lower', 'to_ascii_lowercase': 'lower'}


class Sym:
    def __init__(self, fn, pass_through=(), opaque_args=True):
        self.fn = fn
        self.defs = defs_of(fn)
        self.pass_through = PASS | set(pass_through)
        self.closures = set()

    def op(self, o, depth=0):
        c = op_const(o)
        if c is not None:
            s = str_const(o)
            return repr(s) if s is not None else f'const({c})'
        p = op_place(o)
        if p is None:
            return '?'
        return self.place(p, depth)

    def place(self, p, depth=0):
        l, proj = p[0], [e for e in p[1] if e != '*']
        # projection through a tuple/array aggregate built locally
        ds = self.defs.get(l, [])
        if proj and len(ds) == 1 and ds[0][1] == 'assign' and ds[0][2]['r'] == 'agg' and ds[0][2].get('kind') in ('tuple', 'array'):
            e = proj[0]
            idx = None
            if e.startswith('.') and e[1:].isdigit():
                idx = int(e[1:])
            if idx is not None and idx < len(ds[0][2]['ops']):
                base = self.op(ds[0][2]['ops'][idx], depth + 1)
                return base + ''.join(proj[1:])
        # closure environment: _1.k is the k-th captured variable
        if l == 1 and proj and self.fn.is_closure() and proj[0].startswith('.') and proj[0][1:].isdigit():
            nm = self.fn.upvars.get(int(proj[0][1:]))
            if nm:
                return nm + ''.join(proj[1:])
        return self.local(l, depth) + ''.join(proj)

    def local(self, l, depth=0):
        fn = self.fn
        if depth > 48:
            return fn.names.get(l, f'_{l}')
        if 1 <= l <= fn.argc:
            return fn.names.get(l, f'arg{l}')
        ds = self.defs.get(l, [])
        if len(ds) != 1:
            if 1 < len(ds) <= 3 and depth < 36:
                alts = sorted({self._one(l, d, depth + 1) for d in ds})
                return alts[0] if len(alts) == 1 else 'phi(' + ' | '.join(alts) + ')'
            return fn.names.get(l, f'_{l}') + ('*' if len(ds) > 1 else '')
        return self._one(l, ds[0], depth)

    def _one(self, l, d, depth):
        fn = self.fn
        _, kind, pl = d
        if kind == 'call':
            n = callee_name(pl) or '?'
            short = n.rsplit('::', 1)[-1].split('<')[0]
            if n == 'alloc::fmt::format' or short == 'format':
                return self.op(pl['args'][0], depth + 1)
            if n.startswith("core::fmt::Arguments::<'a>::new"):
                tmpl = None
                a0 = self._const_of(pl['args'][0])
                if isinstance(a0, str):
                    b = parse_rust_bytes(a0)
                    pieces = decode_template(b) if b is not None else None
                    if pieces is not None:
                        tmpl = ''.join(x[1] if x[0] == 'lit' else '{}' for x in pieces)
                args = self._array(pl['args'][1], depth + 1) if len(pl['args']) > 1 else []
                return f'fmt({tmpl!r}; ' + ', '.join(args) + ')'
            if n.startswith("core::fmt::Arguments::<'a>::from_str"):
                return 'fmt(' + ', '.join(self.op(a, depth + 1) for a in pl['args']) + ')'
            if short in self.pass_through and pl['args']:
                return self.op(pl['args'][0], depth + 1)
            short = RENAME.get(short, short)
            return f'{short}(' + ', '.join(self.op(a, depth + 1) for a in pl['args']) + ')'
        v = pl
        r = v['r']
        if r in ('use', 'cast'):
            return self.op(v['a'], depth + 1)
        if r == 'ref':
            return self.place(v['p'], depth + 1)
        if r == 'agg' and v.get('kind') in ('closure', 'coroutine_closure'):
            self.closures.add(v.get('def'))
            tag = (v.get('def') or '').rsplit('::', 1)[-1].strip('{}')
            return f"{tag}(" + ', '.join(self.op(o, depth + 1) for o in v['ops']) + ')'
        if r == 'agg':
            return f"{v.get('variant') or v.get('kind')}(" + ', '.join(self.op(o, depth + 1) for o in v['ops']) + ')'
        if r == 'bin':
            return f"({self.op(v['a'], depth + 1)} {v['op']} {self.op(v['b'], depth + 1)})"
        return fn.names.get(l, f'_{l}')

    def _const_of(self, o):
        l = op_local(o)
        for _ in range(6):
            if l is None:
                return None
            ds = self.defs.get(l, [])
            if len(ds) != 1 or ds[0][1] != 'assign':
                return None
            v = ds[0][2]
            if v['r'] in ('use', 'cast'):
                if op_place(v['a']) is None:
                    return v['a'].get('v')
                l = op_local(v['a'])
            elif v['r'] == 'ref':
                l = v['p'][0]
            else:
                return None
        return None

    def _array(self, o, depth):
        l = op_local(o)
        for _ in range(6):
            if l is None:
                return ['?']
            ds = self.defs.get(l, [])
            if len(ds) != 1 or ds[0][1] != 'assign':
                return ['?']
            v = ds[0][2]
            if v['r'] == 'agg' and v.get('kind') == 'array':
                return [self.op(x, depth + 1) for x in v['ops']]
            if v['r'] == 'ref':
                l = v['p'][0]
            elif v['r'] in ('use', 'cast'):
                l = op_local(v['a'])
            else:
                return ['?']
        return ['?']
