"""Reading format!/write! sites out of MIR: the template byte string of core::fmt::Arguments::new
(rustc's compact encoding: literal pieces prefixed by their length, placeholders with the two top
bits set, 0 terminator) and the ordered list of argument constructors (new_display<T> / new_debug<T>)."""
import re
from .facts import callee_name
from .cfg import defs_of, op_local, op_place, op_const


def parse_rust_bytes(lit):
    """b"..." as printed by rustc -> bytes"""
    m = re.match(r'^b"(.*)"$', lit, re.S)
    if not m:
        return None
    s = m.group(1)
    out = bytearray()
    i = 0
    while i < len(s):
        c = s[i]
        if c == '\\':
            n = s[i + 1]
            if n == 'x':
                out.append(int(s[i + 2:i + 4], 16)); i += 4
            elif n == 'n':
                out.append(10); i += 2
            elif n == 't':
                out.append(9); i += 2
            elif n == 'r':
                out.append(13); i += 2
            elif n == '0':
                out.append(0); i += 2
            elif n in '\\"\'':
                out.append(ord(n)); i += 2
            else:
                out.append(ord(n)); i += 2
        else:
            out += c.encode('utf-8'); i += 1
    return bytes(out)


def decode_template(b):
    """[('lit', str) | ('arg', explicit_index_or_None)]"""
    out = []
    i = 0
    while i < len(b):
        n = b[i]; i += 1
        if n == 0:
            break
        if n < 0x80:
            out.append(('lit', b[i:i + n].decode('utf-8', 'replace'))); i += n
        elif n == 0x80:
            ln = b[i] | (b[i + 1] << 8); i += 2
            out.append(('lit', b[i:i + ln].decode('utf-8', 'replace'))); i += ln
        else:
            skip = 0; idx = None
            if n & 1:
                skip += 4
            if n & 2:
                skip += 2
            if n & 4:
                skip += 2
            if n & 8:
                pos = i + skip
                idx = b[pos] | (b[pos + 1] << 8)
                skip += 2
            i += skip
            out.append(('arg', idx))
    return out


def decode_specs(b):
    """per placeholder: {'width': int|None, 'precision': int|None, 'zero': bool, 'fill': chr} (same walk as decode_template)"""
    out = []
    i = 0
    while i < len(b):
        n = b[i]; i += 1
        if n == 0:
            break
        if n < 0x80:
            i += n
        elif n == 0x80:
            ln = b[i] | (b[i + 1] << 8); i += 2 + ln
        else:
            spec = {'width': None, 'precision': None, 'zero': False, 'fill': ' '}
            if n & 1:
                fl = b[i] | (b[i + 1] << 8) | (b[i + 2] << 16) | (b[i + 3] << 24)
                spec['zero'] = bool(fl & (1 << 24))
                spec['fill'] = chr(fl & 0x1FFFFF)
                i += 4
            if n & 2:
                spec['width'] = b[i] | (b[i + 1] << 8); i += 2
            if n & 4:
                spec['precision'] = b[i] | (b[i + 1] << 8); i += 2
            if n & 8:
                i += 2
            out.append(spec)
    return out


def _trace_const(fn, defs, l, depth=0):
    for _ in range(8):
        if l is None:
            return None
        ds = defs.get(l, [])
        if len(ds) != 1 or ds[0][1] != 'assign':
            return None
        v = ds[0][2]
        if v['r'] == 'use' or v['r'] == 'cast':
            c = op_const(v['a'])
            if c is not None:
                return c
            l = op_local(v['a'])
        elif v['r'] == 'ref':
            l = v['p'][0]
        else:
            return None
    return None


def format_sites(prog, fn):
    """[{'block', 'line', 'pieces': [...], 'args': [(kind, type)], 'text': template-with-{} }] for fn"""
    defs = defs_of(fn)
    out = []
    for i, t in fn.calls():
        n = callee_name(t) or ''
        if n == "core::fmt::Arguments::<'a>::new":
            c = _trace_const(fn, defs, op_local(t['args'][0]))
            b = parse_rust_bytes(c) if isinstance(c, str) else None
            pieces = decode_template(b) if b is not None else None
            specs = decode_specs(b) if b is not None else None
            # argument constructors: array aggregate feeding arg1
            args = []
            l = op_local(t['args'][1])
            for _ in range(6):
                ds = defs.get(l, [])
                if len(ds) != 1:
                    break
                if ds[0][1] == 'assign':
                    v = ds[0][2]
                    if v['r'] == 'agg' and v['kind'] == 'array':
                        for o in v['ops']:
                            al = op_local(o)
                            ad = defs.get(al, [])
                            if len(ad) == 1 and ad[0][1] == 'call':
                                an = callee_name(ad[0][2]) or ''
                                kind = 'debug' if 'new_debug' in an else 'display' if 'new_display' in an else an.rsplit('::', 1)[-1]
                                args.append((kind, (ad[0][2]['f'].get('ga') or '').lstrip('&')))
                            else:
                                args.append(('?', ''))
                        break
                    if v['r'] == 'ref':
                        l = v['p'][0]
                    elif v['r'] in ('use', 'cast'):
                        l = op_local(v['a'])
                    else:
                        break
                else:
                    break
            text = None
            if pieces is not None:
                text = ''.join(p[1] if p[0] == 'lit' else '{}' for p in pieces)
            out.append({'block': i, 'line': t['l'], 'pieces': pieces, 'args': args, 'text': text, 'specs': specs})
        elif n in ("core::fmt::Arguments::<'a>::from_str", "core::fmt::Arguments::<'a>::from_str_nonconst"):
            from .cfg import str_const
            s = None
            for a in t['args']:
                s = str_const(a) or s
            if s is None:
                c = _trace_const(fn, defs, op_local(t['args'][0]))
                if isinstance(c, str) and c.startswith('"'):
                    s = c[1:-1]
            out.append({'block': i, 'line': t['l'], 'pieces': [('lit', s)] if s is not None else None, 'args': [], 'text': s})
    return out
