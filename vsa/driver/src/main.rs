//! vsa-driver: rustc_private driver that exports a MIR/ADT fact file (JSON) per workspace crate.
//!
//! Used as RUSTC_WORKSPACE_WRAPPER under `cargo +nightly check`.  argv[1] is the real rustc
//! path (dropped).  Facts are written to $VSA_OUT/<crate>-<kind>-<metadata>.json in a single
//! write.  The driver never changes compilation results.
#![feature(rustc_private)]
#![allow(clippy::all)]

extern crate rustc_abi;
extern crate rustc_driver;
extern crate rustc_hir;
extern crate rustc_interface;
extern crate rustc_middle;
extern crate rustc_session;
extern crate rustc_span;

use rustc_driver::{Callbacks, Compilation};
use rustc_hir::def::DefKind;
use rustc_hir::def_id::{DefId, LOCAL_CRATE};
use rustc_middle::mir::{
    AggregateKind, AssertKind, BasicBlock, Body, BorrowKind, Const, Operand, Place, PlaceElem,
    Rvalue, StatementKind, TerminatorKind, UnwindAction,
};
use rustc_middle::ty::{self, GenericArgsRef, Instance, Ty, TyCtxt, TypingEnv};
use rustc_span::Span;
use std::fmt::Write as _;

struct Cb {
    out_dir: String,
    meta: String,
}

fn esc(s: &str, out: &mut String) {
    out.push('"');
    for c in s.chars() {
        match c {
            '"' => out.push_str("\\\""),
            '\\' => out.push_str("\\\\"),
            '\n' => out.push_str("\\n"),
            '\r' => out.push_str("\\r"),
            '\t' => out.push_str("\\t"),
            c if (c as u32) < 0x20 => {
                let _ = write!(out, "\\u{:04x}", c as u32);
            }
            c => out.push(c),
        }
    }
    out.push('"');
}

struct Cx<'tcx> {
    tcx: TyCtxt<'tcx>,
}

impl<'tcx> Cx<'tcx> {
    fn path(&self, did: DefId) -> String {
        // crate-qualified, no generic args
        let tcx = self.tcx;
        let krate = tcx.crate_name(did.krate).to_string();
        let dp = tcx.def_path(did);
        let mut s = krate;
        for d in dp.data.iter() {
            s.push_str("::");
            let _ = write!(s, "{}", d.as_sym(true));
        }
        s
    }

    /// Readable item path: for impl items `<SelfTy>::name` style via def_path_str.
    fn nice(&self, did: DefId) -> String {
        ty::print::with_no_trimmed_paths!(ty::print::with_no_visible_paths!(
            ty::print::with_resolve_crate_name!(self.tcx.def_path_str(did))
        ))
    }

    fn ty_s(&self, t: Ty<'tcx>) -> String {
        ty::print::with_no_trimmed_paths!(ty::print::with_no_visible_paths!(
            ty::print::with_resolve_crate_name!(format!("{}", t))
        ))
    }

    fn line(&self, sp: Span) -> (u32, bool) {
        let expn = sp.from_expansion();
        let sp2 = if expn { sp.source_callsite() } else { sp };
        let lo = self.tcx.sess.source_map().lookup_char_pos(sp2.lo());
        (lo.line as u32, expn)
    }

    fn file(&self, sp: Span) -> String {
        let sp2 = if sp.from_expansion() { sp.source_callsite() } else { sp };
        let sm = self.tcx.sess.source_map();
        let f = sm.lookup_char_pos(sp2.lo()).file;
        format!("{}", f.name.prefer_local_unconditionally())
    }

    fn place(&self, body: &Body<'tcx>, p: &Place<'tcx>, out: &mut String) {
        // [local, [proj...]]
        let _ = write!(out, "[{},[", p.local.as_u32());
        let mut first = true;
        for (base, elem) in p.iter_projections() {
            if !first {
                out.push(',');
            }
            first = false;
            match elem {
                PlaceElem::Deref => out.push_str("\"*\""),
                PlaceElem::Field(f, _) => {
                    let bty = base.ty(&body.local_decls, self.tcx);
                    let mut name = format!("{}", f.as_u32());
                    if let ty::Adt(adt, _) = bty.ty.kind() {
                        let vi = bty.variant_index.unwrap_or(rustc_abi::FIRST_VARIANT);
                        if adt.is_enum() || adt.is_struct() || adt.is_union() {
                            if let Some(v) = adt.variants().get(vi) {
                                if let Some(fd) = v.fields.get(f) {
                                    name = format!("{}", fd.name);
                                }
                            }
                        }
                    }
                    esc(&format!(".{}", name), out);
                }
                PlaceElem::Index(l) => {
                    let _ = write!(out, "\"[_{}]\"", l.as_u32());
                }
                PlaceElem::ConstantIndex { offset, from_end, .. } => {
                    let _ = write!(out, "\"[c{}{}]\"", if from_end { "-" } else { "" }, offset);
                }
                PlaceElem::Subslice { from, to, from_end } => {
                    let _ = write!(out, "\"[s{}:{}{}]\"", from, if from_end { "-" } else { "" }, to);
                }
                PlaceElem::Downcast(name, vi) => {
                    let n = match name {
                        Some(n) => n.to_string(),
                        None => format!("{}", vi.as_u32()),
                    };
                    esc(&format!("@{}", n), out);
                }
                PlaceElem::OpaqueCast(_) => out.push_str("\"opaque\""),
                PlaceElem::UnwrapUnsafeBinder(_) => out.push_str("\"unbind\""),
                #[allow(unreachable_patterns)]
                _ => out.push_str("\"?\""),
            }
        }
        out.push_str("]]");
    }

    fn callee(&self, body_def: DefId, did: DefId, args: GenericArgsRef<'tcx>, out: &mut String) {
        // {"p": generic path, "r": resolved path or null, "s": self-ty/generic args string, "g": stayed-generic}
        let tcx = self.tcx;
        let tenv = TypingEnv::post_analysis(tcx, body_def);
        let mut resolved: Option<DefId> = None;
        let mut virt = false;
        if let Ok(Some(inst)) = Instance::try_resolve(tcx, tenv, did, args) {
            match inst.def {
                ty::InstanceKind::Virtual(..) => {
                    virt = true;
                }
                _ => {}
            }
            resolved = Some(inst.def_id());
        }
        out.push_str("{\"p\":");
        esc(&self.path(did), out);
        out.push_str(",\"n\":");
        esc(&self.nice(did), out);
        if let Some(r) = resolved {
            if r != did {
                out.push_str(",\"r\":");
                esc(&self.path(r), out);
                out.push_str(",\"rn\":");
                esc(&self.nice(r), out);
            }
        } else {
            out.push_str(",\"g\":1");
        }
        if virt {
            out.push_str(",\"dyn\":1");
        }
        // trait the callee belongs to (if a trait method)
        if let Some(tr) = tcx.trait_of_assoc(did) {
            out.push_str(",\"tr\":");
            esc(&self.path(tr), out);
        }
        if !args.is_empty() {
            let mut s = String::new();
            let mut first = true;
            for a in args.iter() {
                if let Some(t) = a.as_type() {
                    if !first {
                        s.push_str(", ");
                    }
                    first = false;
                    s.push_str(&self.ty_s(t));
                }
            }
            if !s.is_empty() {
                out.push_str(",\"ga\":");
                esc(&s, out);
            }
        }
        out.push('}');
    }

    fn operand(&self, body: &Body<'tcx>, body_def: DefId, op: &Operand<'tcx>, out: &mut String) {
        match op {
            Operand::Copy(p) => {
                out.push_str("{\"c\":");
                self.place(body, p, out);
                out.push('}');
            }
            Operand::Move(p) => {
                out.push_str("{\"m\":");
                self.place(body, p, out);
                out.push('}');
            }
            Operand::Constant(c) => {
                let t = c.const_.ty();
                out.push_str("{\"k\":");
                // function item constant?
                if let ty::FnDef(did, args) = t.kind() {
                    out.push_str("\"fn\",\"f\":");
                    self.callee(body_def, *did, args, out);
                } else {
                    let tenv = TypingEnv::post_analysis(self.tcx, body_def);
                    let mut done = false;
                    if t.is_integral() || t.is_bool() || t.is_char() {
                        if let Some(si) = c.const_.try_eval_scalar_int(self.tcx, tenv) {
                            let size = si.size();
                            let v: i128 = if t.is_signed() {
                                si.to_int(size)
                            } else {
                                si.to_uint(size) as i128
                            };
                            let _ = write!(out, "\"i\",\"v\":{}", if v > i64::MAX as i128 || v < i64::MIN as i128 { format!("\"{}\"", v) } else { format!("{}", v) });
                            done = true;
                        }
                    }
                    if !done {
                        let s = ty::print::with_no_trimmed_paths!(ty::print::with_no_visible_paths!(
                            ty::print::with_resolve_crate_name!(format!("{}", c.const_))
                        ));
                        out.push_str("\"o\",\"v\":");
                        esc(&s, out);
                        if let Const::Unevaluated(u, _) = c.const_ {
                            out.push_str(",\"u\":");
                            esc(&self.path(u.def), out);
                        }
                    }
                    out.push_str(",\"t\":");
                    esc(&self.ty_s(t), out);
                }
                out.push('}');
            }
            #[allow(unreachable_patterns)]
            _ => out.push_str("{\"k\":\"rt\"}"),
        }
    }

    fn rvalue(&self, body: &Body<'tcx>, body_def: DefId, rv: &Rvalue<'tcx>, out: &mut String) {
        match rv {
            Rvalue::Use(op, ..) => {
                out.push_str("{\"r\":\"use\",\"a\":");
                self.operand(body, body_def, op, out);
                out.push('}');
            }
            Rvalue::Repeat(op, _) => {
                out.push_str("{\"r\":\"repeat\",\"a\":");
                self.operand(body, body_def, op, out);
                out.push('}');
            }
            Rvalue::Ref(_, bk, p) => {
                let m = matches!(bk, BorrowKind::Mut { .. });
                let _ = write!(out, "{{\"r\":\"ref\",\"mut\":{},\"p\":", if m { 1 } else { 0 });
                self.place(body, p, out);
                out.push('}');
            }
            Rvalue::RawPtr(k, p) => {
                let m = format!("{:?}", k).contains("Mut");
                let _ = write!(out, "{{\"r\":\"rawptr\",\"mut\":{},\"p\":", if m { 1 } else { 0 });
                self.place(body, p, out);
                out.push('}');
            }
            Rvalue::Cast(kind, op, t) => {
                out.push_str("{\"r\":\"cast\",\"kind\":");
                esc(&format!("{:?}", kind), out);
                out.push_str(",\"a\":");
                self.operand(body, body_def, op, out);
                out.push_str(",\"from\":");
                esc(&self.ty_s(op.ty(&body.local_decls, self.tcx)), out);
                out.push_str(",\"to\":");
                esc(&self.ty_s(*t), out);
                out.push('}');
            }
            Rvalue::BinaryOp(op, ab) => {
                out.push_str("{\"r\":\"bin\",\"op\":");
                esc(&format!("{:?}", op), out);
                out.push_str(",\"a\":");
                self.operand(body, body_def, &ab.0, out);
                out.push_str(",\"b\":");
                self.operand(body, body_def, &ab.1, out);
                out.push_str(",\"t\":");
                esc(&self.ty_s(ab.0.ty(&body.local_decls, self.tcx)), out);
                out.push('}');
            }
            Rvalue::UnaryOp(op, a) => {
                out.push_str("{\"r\":\"un\",\"op\":");
                esc(&format!("{:?}", op), out);
                out.push_str(",\"a\":");
                self.operand(body, body_def, a, out);
                out.push_str(",\"t\":");
                esc(&self.ty_s(a.ty(&body.local_decls, self.tcx)), out);
                out.push('}');
            }
            Rvalue::Discriminant(p) => {
                out.push_str("{\"r\":\"discr\",\"p\":");
                self.place(body, p, out);
                out.push_str(",\"t\":");
                esc(&self.ty_s(p.ty(&body.local_decls, self.tcx).ty), out);
                out.push('}');
            }
            Rvalue::Aggregate(kind, ops) => {
                out.push_str("{\"r\":\"agg\",");
                match &**kind {
                    AggregateKind::Array(_) => out.push_str("\"kind\":\"array\""),
                    AggregateKind::Tuple => out.push_str("\"kind\":\"tuple\""),
                    AggregateKind::Adt(did, vi, _, _, _) => {
                        let adt = self.tcx.adt_def(*did);
                        let v = adt.variant(*vi);
                        out.push_str("\"kind\":\"adt\",\"adt\":");
                        esc(&self.path(*did), out);
                        out.push_str(",\"variant\":");
                        esc(&v.name.to_string(), out);
                        out.push_str(",\"fields\":[");
                        for (i, f) in v.fields.iter().enumerate() {
                            if i > 0 {
                                out.push(',');
                            }
                            esc(&f.name.to_string(), out);
                        }
                        out.push(']');
                    }
                    AggregateKind::Closure(did, _) => {
                        out.push_str("\"kind\":\"closure\",\"def\":");
                        esc(&self.path(*did), out);
                    }
                    AggregateKind::Coroutine(did, _) => {
                        out.push_str("\"kind\":\"coroutine\",\"def\":");
                        esc(&self.path(*did), out);
                    }
                    AggregateKind::CoroutineClosure(did, _) => {
                        out.push_str("\"kind\":\"coroutine_closure\",\"def\":");
                        esc(&self.path(*did), out);
                    }
                    AggregateKind::RawPtr(..) => out.push_str("\"kind\":\"rawptr\""),
                }
                out.push_str(",\"ops\":[");
                for (i, o) in ops.iter().enumerate() {
                    if i > 0 {
                        out.push(',');
                    }
                    self.operand(body, body_def, o, out);
                }
                out.push_str("]}");
            }
            Rvalue::CopyForDeref(p) => {
                out.push_str("{\"r\":\"use\",\"a\":{\"c\":");
                self.place(body, p, out);
                out.push_str("}}");
            }
            Rvalue::ThreadLocalRef(did) => {
                out.push_str("{\"r\":\"tls\",\"def\":");
                esc(&self.path(*did), out);
                out.push('}');
            }
            Rvalue::WrapUnsafeBinder(op, _) => {
                out.push_str("{\"r\":\"use\",\"a\":");
                self.operand(body, body_def, op, out);
                out.push('}');
            }
            #[allow(unreachable_patterns)]
            _ => {
                out.push_str("{\"r\":\"other\",\"dbg\":");
                esc(&format!("{:?}", rv), out);
                out.push('}');
            }
        }
    }

    fn body(&self, did: DefId, body: &Body<'tcx>, out: &mut String) {
        let tcx = self.tcx;
        // locals
        out.push_str("\"argc\":");
        let _ = write!(out, "{}", body.arg_count);
        out.push_str(",\"locals\":[");
        for (i, ld) in body.local_decls.iter().enumerate() {
            if i > 0 {
                out.push(',');
            }
            esc(&self.ty_s(ld.ty), out);
        }
        out.push_str("],\"names\":{");
        let mut first = true;
        for vdi in body.var_debug_info.iter() {
            if let rustc_middle::mir::VarDebugInfoContents::Place(p) = &vdi.value {
                if p.projection.is_empty() {
                    if !first {
                        out.push(',');
                    }
                    first = false;
                    let _ = write!(out, "\"{}\":", p.local.as_u32());
                    esc(&vdi.name.to_string(), out);
                }
            }
        }
        out.push_str("},\"upvars\":{");
        // closure upvar names (debug info with projection on _1)
        let mut first = true;
        for vdi in body.var_debug_info.iter() {
            if let rustc_middle::mir::VarDebugInfoContents::Place(p) = &vdi.value {
                if !p.projection.is_empty() && p.local.as_u32() == 1 {
                    // find first Field projection
                    for e in p.projection.iter() {
                        if let PlaceElem::Field(f, _) = e {
                            if !first {
                                out.push(',');
                            }
                            first = false;
                            let _ = write!(out, "\"{}\":", f.as_u32());
                            esc(&vdi.name.to_string(), out);
                            break;
                        }
                    }
                }
            }
        }
        out.push_str("},\"blocks\":[");
        for (bi, bb) in body.basic_blocks.iter_enumerated() {
            if bi.as_u32() > 0 {
                out.push(',');
            }
            out.push_str("{\"s\":[");
            let mut first = true;
            for st in bb.statements.iter() {
                let mut piece = String::new();
                match &st.kind {
                    StatementKind::Assign(b) => {
                        let (p, rv) = &**b;
                        piece.push_str("{\"d\":");
                        self.place(body, p, &mut piece);
                        piece.push_str(",\"v\":");
                        self.rvalue(body, did, rv, &mut piece);
                        let (l, e) = self.line(st.source_info.span);
                        let _ = write!(piece, ",\"l\":{}", l);
                        if e {
                            piece.push_str(",\"x\":1");
                        }
                        piece.push('}');
                    }
                    StatementKind::SetDiscriminant { place, variant_index } => {
                        piece.push_str("{\"setdiscr\":");
                        self.place(body, place, &mut piece);
                        let _ = write!(piece, ",\"vi\":{}}}", variant_index.as_u32());
                    }
                    _ => {}
                }
                if !piece.is_empty() {
                    if !first {
                        out.push(',');
                    }
                    first = false;
                    out.push_str(&piece);
                }
            }
            out.push_str("],\"t\":");
            let term = bb.terminator();
            let (l, e) = self.line(term.source_info.span);
            let bbn = |b: &BasicBlock| b.as_u32();
            let unwind_s = |u: &UnwindAction| match u {
                UnwindAction::Cleanup(b) => format!("{}", b.as_u32()),
                _ => "null".to_string(),
            };
            match &term.kind {
                TerminatorKind::Goto { target } => {
                    let _ = write!(out, "{{\"k\":\"goto\",\"to\":{}", bbn(target));
                }
                TerminatorKind::SwitchInt { discr, targets } => {
                    out.push_str("{\"k\":\"switch\",\"on\":");
                    self.operand(body, did, discr, out);
                    out.push_str(",\"ty\":");
                    esc(&self.ty_s(discr.ty(&body.local_decls, tcx)), out);
                    out.push_str(",\"targets\":[");
                    let mut f = true;
                    for (v, b) in targets.iter() {
                        if !f {
                            out.push(',');
                        }
                        f = false;
                        if v > i64::MAX as u128 {
                            let _ = write!(out, "[\"{}\",{}]", v, bbn(&b));
                        } else {
                            let _ = write!(out, "[{},{}]", v, bbn(&b));
                        }
                    }
                    let _ = write!(out, "],\"else\":{}", bbn(&targets.otherwise()));
                }
                TerminatorKind::UnwindResume => out.push_str("{\"k\":\"resume\""),
                TerminatorKind::UnwindTerminate(_) => out.push_str("{\"k\":\"abort\""),
                TerminatorKind::Return => out.push_str("{\"k\":\"return\""),
                TerminatorKind::Unreachable => out.push_str("{\"k\":\"unreachable\""),
                TerminatorKind::Drop { place, target, unwind, .. } => {
                    out.push_str("{\"k\":\"drop\",\"p\":");
                    self.place(body, place, out);
                    let _ = write!(out, ",\"to\":{},\"uw\":{}", bbn(target), unwind_s(unwind));
                }
                TerminatorKind::Call { func, args, destination, target, unwind, .. } => {
                    out.push_str("{\"k\":\"call\",\"f\":");
                    let fty = func.ty(&body.local_decls, tcx);
                    match fty.kind() {
                        ty::FnDef(cd, ga) => self.callee(did, *cd, ga, out),
                        _ => {
                            out.push_str("{\"ptr\":");
                            self.operand(body, did, func, out);
                            out.push_str(",\"ty\":");
                            esc(&self.ty_s(fty), out);
                            out.push('}');
                        }
                    }
                    out.push_str(",\"args\":[");
                    for (i, a) in args.iter().enumerate() {
                        if i > 0 {
                            out.push(',');
                        }
                        self.operand(body, did, &a.node, out);
                    }
                    out.push_str("],\"d\":");
                    self.place(body, destination, out);
                    let _ = write!(
                        out,
                        ",\"to\":{},\"uw\":{}",
                        match target {
                            Some(t) => format!("{}", bbn(t)),
                            None => "null".into(),
                        },
                        unwind_s(unwind)
                    );
                }
                TerminatorKind::TailCall { func, args, .. } => {
                    out.push_str("{\"k\":\"tailcall\",\"f\":");
                    let fty = func.ty(&body.local_decls, tcx);
                    match fty.kind() {
                        ty::FnDef(cd, ga) => self.callee(did, *cd, ga, out),
                        _ => out.push_str("{}"),
                    }
                    out.push_str(",\"args\":[");
                    for (i, a) in args.iter().enumerate() {
                        if i > 0 {
                            out.push(',');
                        }
                        self.operand(body, did, &a.node, out);
                    }
                    out.push(']');
                }
                TerminatorKind::Assert { cond, expected, msg, target, unwind } => {
                    out.push_str("{\"k\":\"assert\",\"cond\":");
                    self.operand(body, did, cond, out);
                    let _ = write!(out, ",\"exp\":{},\"kind\":", if *expected { 1 } else { 0 });
                    let (kind, ops): (String, Vec<&Operand<'tcx>>) = match &**msg {
                        AssertKind::BoundsCheck { len, index } => ("BoundsCheck".into(), vec![len, index]),
                        AssertKind::Overflow(op, a, b) => (format!("Overflow({:?})", op), vec![a, b]),
                        AssertKind::OverflowNeg(a) => ("OverflowNeg".into(), vec![a]),
                        AssertKind::DivisionByZero(a) => ("DivisionByZero".into(), vec![a]),
                        AssertKind::RemainderByZero(a) => ("RemainderByZero".into(), vec![a]),
                        AssertKind::MisalignedPointerDereference { .. } => ("Misaligned".into(), vec![]),
                        AssertKind::NullPointerDereference => ("NullDeref".into(), vec![]),
                        AssertKind::InvalidEnumConstruction(_) => ("InvalidEnum".into(), vec![]),
                        _ => ("Resumed".into(), vec![]),
                    };
                    esc(&kind, out);
                    out.push_str(",\"ops\":[");
                    for (i, o) in ops.iter().enumerate() {
                        if i > 0 {
                            out.push(',');
                        }
                        self.operand(body, did, o, out);
                    }
                    out.push_str("],\"opty\":");
                    if let Some(o) = ops.first() {
                        esc(&self.ty_s(o.ty(&body.local_decls, tcx)), out);
                    } else {
                        out.push_str("null");
                    }
                    let _ = write!(out, ",\"to\":{},\"uw\":{}", bbn(target), unwind_s(unwind));
                }
                TerminatorKind::Yield { resume, drop, .. } => {
                    let _ = write!(
                        out,
                        "{{\"k\":\"yield\",\"to\":{},\"drop\":{}",
                        bbn(resume),
                        match drop {
                            Some(d) => format!("{}", bbn(d)),
                            None => "null".into(),
                        }
                    );
                }
                TerminatorKind::CoroutineDrop => out.push_str("{\"k\":\"codrop\""),
                TerminatorKind::FalseEdge { real_target, .. } => {
                    let _ = write!(out, "{{\"k\":\"goto\",\"to\":{}", bbn(real_target));
                }
                TerminatorKind::FalseUnwind { real_target, .. } => {
                    let _ = write!(out, "{{\"k\":\"goto\",\"to\":{}", bbn(real_target));
                }
                TerminatorKind::InlineAsm { targets, .. } => {
                    out.push_str("{\"k\":\"asm\",\"tos\":[");
                    for (i, t) in targets.iter().enumerate() {
                        if i > 0 {
                            out.push(',');
                        }
                        let _ = write!(out, "{}", bbn(t));
                    }
                    out.push(']');
                }
            }
            let _ = write!(out, ",\"l\":{}", l);
            if e {
                out.push_str(",\"x\":1");
            }
            if bb.is_cleanup {
                out.push_str(",\"cleanup\":1");
            }
            out.push_str("}}");
        }
        out.push(']');
    }

    fn local_adts_in(&self, t: Ty<'tcx>, acc: &mut Vec<String>) {
        for ga in t.walk() {
            if let Some(t) = ga.as_type() {
                if let ty::Adt(adt, _) = t.kind() {
                    let p = self.path(adt.did());
                    if !acc.contains(&p) {
                        acc.push(p);
                    }
                }
            }
        }
    }
}

impl Callbacks for Cb {
    fn after_analysis<'tcx>(
        &mut self,
        _compiler: &rustc_interface::interface::Compiler,
        tcx: TyCtxt<'tcx>,
    ) -> Compilation {
        let cx = Cx { tcx };
        let crate_name = tcx.crate_name(LOCAL_CRATE).to_string();
        let kind = {
            let cts = tcx.crate_types();
            let mut k = "lib";
            for ct in cts.iter() {
                let s = format!("{:?}", ct);
                if s.contains("Executable") {
                    k = "bin";
                } else if s.contains("ProcMacro") {
                    k = "procmacro";
                } else if s.contains("Cdylib") && k != "bin" {
                    k = "cdylib";
                }
            }
            k
        };
        let mut out = String::with_capacity(1 << 24);
        out.push_str("{\"crate\":");
        esc(&crate_name, &mut out);
        out.push_str(",\"kind\":");
        esc(kind, &mut out);
        out.push_str(",\"meta\":");
        esc(&self.meta, &mut out);

        // ---- ADTs
        out.push_str(",\"adts\":[");
        let mut first = true;
        let ev = tcx.effective_visibilities(());
        for id in tcx.hir_free_items() {
            let did = id.owner_id.to_def_id();
            let dk = tcx.def_kind(did);
            if !matches!(dk, DefKind::Struct | DefKind::Enum | DefKind::Union) {
                continue;
            }
            let adt = tcx.adt_def(did);
            if !first {
                out.push(',');
            }
            first = false;
            out.push_str("{\"path\":");
            esc(&cx.path(did), &mut out);
            out.push_str(",\"kind\":");
            esc(if adt.is_enum() { "enum" } else if adt.is_struct() { "struct" } else { "union" }, &mut out);
            let sp = tcx.def_span(did);
            out.push_str(",\"file\":");
            esc(&cx.file(sp), &mut out);
            let _ = write!(out, ",\"line\":{}", cx.line(sp).0);
            out.push_str(",\"variants\":[");
            let discrs: Vec<String> = if adt.is_enum() {
                adt.discriminants(tcx).map(|(_, d)| format!("{}", d.val)).collect()
            } else {
                vec![]
            };
            for (vi, v) in adt.variants().iter_enumerated() {
                if vi.as_u32() > 0 {
                    out.push(',');
                }
                out.push_str("{\"name\":");
                esc(&v.name.to_string(), &mut out);
                if adt.is_enum() {
                    let _ = write!(out, ",\"discr\":\"{}\"", discrs[vi.as_usize()]);
                }
                out.push_str(",\"fields\":[");
                for (fi, f) in v.fields.iter().enumerate() {
                    if fi > 0 {
                        out.push(',');
                    }
                    let fty = tcx.type_of(f.did).instantiate_identity().skip_norm_wip();
                    out.push_str("{\"name\":");
                    esc(&f.name.to_string(), &mut out);
                    out.push_str(",\"ty\":");
                    esc(&cx.ty_s(fty), &mut out);
                    out.push_str(",\"vis\":");
                    esc(&format!("{:?}", f.vis), &mut out);
                    let mut acc = Vec::new();
                    cx.local_adts_in(fty, &mut acc);
                    out.push_str(",\"adts\":[");
                    for (i, a) in acc.iter().enumerate() {
                        if i > 0 {
                            out.push(',');
                        }
                        esc(a, &mut out);
                    }
                    out.push_str("]}");
                }
                out.push_str("]}");
            }
            out.push_str("]}");
        }
        out.push(']');

        // ---- impls (trait impls of local types): trait, self, derived?
        out.push_str(",\"impls\":[");
        let mut first = true;
        for id in tcx.hir_free_items() {
            let did = id.owner_id.to_def_id();
            if !matches!(tcx.def_kind(did), DefKind::Impl { .. }) {
                continue;
            }
            if !first {
                out.push(',');
            }
            first = false;
            out.push_str("{\"path\":");
            esc(&cx.path(did), &mut out);
            let self_ty = tcx.type_of(did).instantiate_identity().skip_norm_wip();
            out.push_str(",\"self\":");
            esc(&cx.ty_s(self_ty), &mut out);
            if let ty::Adt(a, _) = self_ty.kind() {
                out.push_str(",\"self_adt\":");
                esc(&cx.path(a.did()), &mut out);
            }
            if let Some(tr) = tcx.impl_opt_trait_ref(did) {
                let tr = tr.instantiate_identity().skip_norm_wip();
                out.push_str(",\"trait\":");
                esc(&cx.path(tr.def_id), &mut out);
            }
            let _ = write!(out, ",\"derived\":{}", if tcx.is_automatically_derived(did) { 1 } else { 0 });
            out.push('}');
        }
        out.push(']');

        // ---- functions
        out.push_str(",\"fns\":[");
        let mut first = true;
        for ldid in tcx.hir_body_owners() {
            let did = ldid.to_def_id();
            let dk = tcx.def_kind(did);
            let is_fn = matches!(dk, DefKind::Fn | DefKind::AssocFn | DefKind::Closure | DefKind::SyntheticCoroutineBody);
            if !is_fn {
                continue;
            }
            if !tcx.is_mir_available(did) {
                continue;
            }
            // prefer pre-optimisation MIR (keeps coroutines un-transformed); fall back to optimized
            let steal = tcx.mir_drops_elaborated_and_const_checked(ldid);
            let body_ref;
            let opt_body;
            let body: &Body<'tcx> = if !steal.is_stolen() {
                body_ref = steal.borrow();
                &*body_ref
            } else {
                opt_body = tcx.optimized_mir(did);
                opt_body
            };
            if !first {
                out.push(',');
            }
            first = false;
            out.push_str("{\"path\":");
            esc(&cx.path(did), &mut out);
            out.push_str(",\"nice\":");
            esc(&cx.nice(did), &mut out);
            out.push_str(",\"dk\":");
            esc(&format!("{:?}", dk), &mut out);
            let sp = tcx.def_span(did);
            out.push_str(",\"file\":");
            esc(&cx.file(sp), &mut out);
            let _ = write!(out, ",\"line\":{}", cx.line(sp).0);
            if matches!(dk, DefKind::Fn | DefKind::AssocFn) {
                let vis = tcx.visibility(did);
                out.push_str(",\"vis\":");
                esc(&format!("{:?}", vis), &mut out);
                let _ = write!(out, ",\"epub\":{}", if ev.is_reachable(ldid) { 1 } else { 0 });
                let _ = write!(out, ",\"async\":{}", if tcx.asyncness(did).is_async() { 1 } else { 0 });
            }
            if matches!(dk, DefKind::Closure | DefKind::SyntheticCoroutineBody) {
                let parent = tcx.typeck_root_def_id(did);
                out.push_str(",\"root\":");
                esc(&cx.path(parent), &mut out);
                out.push_str(",\"parent\":");
                esc(&cx.path(tcx.parent(did)), &mut out);
                if tcx.is_coroutine(did) {
                    out.push_str(",\"coroutine\":1");
                }
            }
            if let Some(impl_did) = tcx.impl_of_assoc(did) {
                let self_ty = tcx.type_of(impl_did).instantiate_identity().skip_norm_wip();
                out.push_str(",\"self\":");
                esc(&cx.ty_s(self_ty), &mut out);
                if let ty::Adt(a, _) = self_ty.kind() {
                    out.push_str(",\"self_adt\":");
                    esc(&cx.path(a.did()), &mut out);
                }
                if let Some(tr) = tcx.impl_opt_trait_ref(impl_did) {
                    let tr = tr.instantiate_identity().skip_norm_wip();
                    out.push_str(",\"trait\":");
                    esc(&cx.path(tr.def_id), &mut out);
                }
                let _ = write!(out, ",\"derived\":{}", if tcx.is_automatically_derived(impl_did) { 1 } else { 0 });
            }
            if matches!(dk, DefKind::Fn | DefKind::AssocFn) {
                let sig = tcx.fn_sig(did).instantiate_identity().skip_norm_wip();
                let ret = sig.output().skip_binder();
                out.push_str(",\"ret\":");
                esc(&cx.ty_s(ret), &mut out);
            }
            out.push(',');
            cx.body(did, body, &mut out);
            out.push('}');
            // promoted constants of this body (e.g. `&PrivilegeType::Select(None)`, `&"ADMIN"`)
            let proms = tcx.promoted_mir(did);
            for (pi, pb) in proms.iter_enumerated() {
                out.push_str(",{\"path\":");
                esc(&format!("{}::promoted[{}]", cx.path(did), pi.as_u32()), &mut out);
                out.push_str(",\"nice\":");
                esc(&format!("{}::promoted[{}]", cx.nice(did), pi.as_u32()), &mut out);
                out.push_str(",\"dk\":\"Promoted\",\"file\":");
                esc(&cx.file(sp), &mut out);
                let _ = write!(out, ",\"line\":{}", cx.line(sp).0);
                out.push_str(",\"root\":");
                esc(&cx.path(did), &mut out);
                out.push_str(",\"parent\":");
                esc(&cx.path(did), &mut out);
                out.push(',');
                cx.body(did, pb, &mut out);
                out.push('}');
            }
        }
        out.push_str("]}");

        let fname = format!("{}/{}-{}-{}.json", self.out_dir, crate_name, kind, self.meta);
        let tmp = format!("{}.tmp{}", fname, std::process::id());
        std::fs::write(&tmp, out.as_bytes()).expect("vsa-driver: cannot write fact file");
        std::fs::rename(&tmp, &fname).expect("vsa-driver: cannot rename fact file");
        Compilation::Continue
    }
}

fn main() {
    let mut args: Vec<String> = std::env::args().collect();
    // RUSTC_WORKSPACE_WRAPPER: argv[1] is the path of the real rustc
    if args.len() > 1 && (args[1].ends_with("rustc") || args[1].contains("/rustc")) {
        args.remove(1);
    }
    let out_dir = std::env::var("VSA_OUT").ok();
    let is_build_script = args.iter().any(|a| a == "build_script_build")
        || args.windows(2).any(|w| w[0] == "--crate-name" && w[1].starts_with("build_script"));
    let is_probe = args.iter().any(|a| a == "-vV" || a == "--version" || a.starts_with("--print"))
        || !args.iter().any(|a| a == "--crate-name");
    let mut meta = String::from("nometa");
    for (i, a) in args.iter().enumerate() {
        if a == "-C" {
            if let Some(n) = args.get(i + 1) {
                if let Some(m) = n.strip_prefix("metadata=") {
                    meta = m.to_string();
                }
            }
        } else if let Some(m) = a.strip_prefix("-Cmetadata=") {
            meta = m.to_string();
        }
    }
    match out_dir {
        Some(d) if !is_build_script && !is_probe => {
            let mut cb = Cb { out_dir: d, meta };
            rustc_driver::run_compiler(&args, &mut cb);
        }
        _ => {
            struct Nop;
            impl Callbacks for Nop {}
            rustc_driver::run_compiler(&args, &mut Nop);
        }
    }
}
