"""Generates /verif/MANIFEST.json from the per-property metadata below.  python3 -m vsa.manifest"""
import json, os

VERIF = os.path.dirname(os.path.dirname(os.path.abspath(__file__)))

NOTE_COMMON = ('Trusted base: rustc nightly front end and MIR construction; the vsa-driver fact export; the rule '
               'engine; std and third-party crates. Static only: nothing of vibesql is executed. ')

CHECKS = {
    'C11': dict(
        technique='MIR path analysis: no-error-exit-after-mutation (T4) over all DML executor functions, reviewed inventory keyed by (function, mutating call, failing origin)',
        text='Decides for every call to a row-mutating function in code reachable from the INSERT/UPDATE/DELETE entry points that no '
             'error return is reachable after it succeeded unless the compensating undo is passed first; same-iteration and '
             'later-iteration failures are separated. Covers every row position at which a multi-row statement can fail. Each '
             'triple on today\'s tree is a demonstrated known finding or a reasoned exception; a new triple alarms.',
        note='Over-approximates feasibility (a fallible call may be unable to fail at that point): hence the reviewed inventory. '
             'Not decided: that a compensation restores the exact prior state; failures inside storage after partial work. '
             'Nested statements of trigger bodies count as separate statements.',
        design='§4 C11 (plan) and §10.3 (as built)'),
    'C13': dict(
        technique='state-coverage analysis (T11): Database fields written by statement execution vs fields captured by BEGIN and restored by ROLLBACK, from MIR field borrows over the call graph',
        text='Decides snapshot completeness for all histories: the set of Database fields that any function reachable from the '
             'statement executors writes or mutably borrows must be contained in the fields BEGIN clones and ROLLBACK assigns; '
             'rollback must assign *catalog and *tables from original_* clones; COMMIT must not restore; the transaction '
             'executors must reach the storage calls. Field privacy makes the writer set closed-world. Database.operations is captured and restored through '
         'methods: one level down, every field of Operations that statement execution writes is read under BEGIN and written under ROLLBACK.',
        note='Not decided: that derived Clone is deep; session state (role, security flag, session variables, sql_mode) is '
             'declared non-transactional with reasons.',
        design='§4 C13 (plan) and §10.3 (as built)'),
    'C14': dict(
        technique='MIR path analysis: must-follow (record_change after every DML row mutation) with inter-procedural summaries; match-arm table of undo_change',
        text='Decides, for all histories at once, the structural necessary conditions of savepoint rollback: every row mutation '
             'reachable from INSERT/UPDATE/DELETE entry points is followed on every successful path by record_change with the '
             'matching TransactionChange variant; undo_change applies the inverse row image per variant; rollback_to_savepoint '
             'drains/truncates/undoes newest-first; RELEASE reaches no mutator. A path property of the code, so it covers every '
             'statement sequence, which tests only sample.',
        note='Not decided: that recorded row images are the right values, position-preserving undo, index effects (C15). '
             'Loop model: a for-loop entered after a mutation iterates at least once.',
        design='§4 C14 (plan) and §10.3 (as built)'),
    'C15': dict(
        technique='MIR path analysis over the mutation-site matrix: must-follow (index maintenance after every row mutation), no-error-exit-between, field-borrow typestate inside impl Table',
        text='Decides that every mutation of a table\'s row vector is followed on all successful paths by the maintenance call '
             'that keeps the constraint hash indexes (inside impl Table, by kind of Vec operation) and the user-defined index '
             'registry (every executor/storage call site of Table mutators, summaries to fix-point) in step, and that no error '
             'return separates a mutation from its maintenance. The mutator API is re-derived from the facts and the check fails '
             'closed when it grows. Also: a column that leaves the rows is followed by a rebuild of the per-constraint hash indexes, and '
             'whether the new key of an updated row enters an index does not depend on the NULL-ness of its old key.',
        note='Not decided: that maintenance computes correct keys/positions (value-level); disk I/O errors inside index code. '
             'Assumes catalog knows every stored table inside vibesql-storage (C33 clause).',
        design='§4 C15 (plan) and §10.3 (as built)'),
}

CHECKS['C26'] = dict(
    technique='inter-procedural must-precede (T2) over the call graph: privilege check dominates every row read / mutation; literal table of check_privilege bypasses; who-may-call for privilege mutators',
    text='Decides, for every query shape at once, that each read of table row data in query-side code is preceded on every path from '
         'every call-graph root by check_select, every other read and every row mutation by a privilege check of its statement, that '
         'check_privilege has exactly the documented bypasses (security off, ADMIN, DBA) and that each check_* wrapper tests its own '
         'PrivilegeType, and that only GRANT/REVOKE/role code calls the catalog privilege mutators. Found a reachable unguarded COUNT(*) '
         'path the direct test missed.',
    note='Not decided: has_privilege lookup, column-level privileges; table-name agreement between check and read is not tracked '
         'across calls; reads of the statement\'s own target under its DML privilege count as authorised.',
    design='§4 C26 (plan) and §10.3 (as built)')
CHECKS['C34'] = dict(
    technique='must-precede/must-follow bracketing of mutation sites by trigger firing; argument-shape and literal tables (event, OLD/NEW, timing, granularity); writer/reader format agreement',
    text='Decides that every row-mutation site reachable from the DML executors is bracketed by before/after row-trigger firing with the '
         'event and (OLD,NEW) shape of its kind or is a frozen absence-guarded site whose guard still precedes it; that statement '
         'triggers fire exactly once per executor outside loops; that the four firing entry points select the right timing and '
         'granularity behind the recursion guard; and that the stored trigger text is not Debug-formatted.',
    note='Not decided: WHEN evaluation, OLD/NEW value resolution, triggers of child tables touched by referential actions.',
    design='§4 C34 (plan) and §10.3 (as built)')

CHECKS['C10'] = dict(
    technique='must-pass-through (no shortcut) analysis of uniqueness validators; inter-procedural must-precede of row validation before insert/update mutation sites',
    text='Decides that every PRIMARY KEY/UNIQUE uniqueness validator, once it fetched the table, can answer Ok only after consulting the '
         'table\'s key structures (no shortcut path), and that every insert/update mutation site reachable from INSERT/UPDATE is preceded '
         'on every path by the row validators of its statement. Path properties: they hold for every statement history. Later clauses, each written '
         'from a demonstrated and repaired defect: the rows of one statement are compared with each other where validation and application are '
         'separate loops (batch uniqueness), a row computed from assignments is validated before it is written, ALTER TABLE / CREATE UNIQUE INDEX '
         'install a constraint only over existing rows that satisfy it, per-constraint positions come from unfiltered enumerations.',
    note='Not decided: correctness of the hash indexes themselves (C15), CHECK expression semantics, value-level flags that switch '
         'validators on (bulk transfer: presence of the calls is checked instead).',
    design='§4 C10 (plan) and §10.3 (as built)')
CHECKS['C12'] = dict(
    technique='inter-procedural must-precede of FK child-side / parent-side checks before mutation sites (with the foreign_keys.is_empty idiom); per-variant arm table of the ReferentialAction dispatch',
    text='Decides that insert/update sites are preceded by the child-side foreign-key validation wherever the schema has foreign keys, that '
         'row deletion/truncation sites are preceded by the parent-side check, and that the ReferentialAction match is exhaustive, its '
         'NO ACTION/RESTRICT arms reject and its CASCADE/SET NULL/SET DEFAULT arms call the action of the same name. Also: every syntactic form '
         'that declares a foreign key (table-level FOREIGN KEY, column-level REFERENCES) is matched by an executor arm that registers it.',
    note='Not decided: key comparison semantics, cascade order, whether a SET DEFAULT value has a parent.',
    design='§4 C12 (plan) and §10.3 (as built)')
CHECKS['C33'] = dict(
    technique='must-follow (catalog re-registration after Table::schema_mut), must-pass-through lists for DROP/CREATE paths, no-error-exit after the first of two registration steps',
    text='Decides dual-schema coherence: every executor function that changes a stored table schema re-registers it in the catalog on every '
         'successful path; DROP TABLE / DROP INDEX / CREATE TABLE pass through both the catalog and the storage side; CREATE INDEX performs '
         'both registration steps and is examined for error exits between them. Also: the re-registration of a table that stays is in place '
         '(Catalog::drop_table would drop its triggers), sibling lookups derive registry keys the same way, and the column-name cache of a table '
         'definition follows every structural change of its column list.',
    note='Not decided: identifier case handling (runtime strings); I/O failures of disk-backed index creation.',
    design='§4 C33 (plan) and §10.3 (as built)')

CHECKS['C21'] = dict(
    technique='key-agreement analysis (T10): per-variant key class of eq / partial_cmp / cmp / hash read from MIR match arms, fixed compatibility relation; field-set agreement for the temporal structs',
    text='Because the impls touch payloads only through primitive comparisons, is_nan and to_bits, a finite per-variant case analysis '
         'decides for ALL values whether equal values hash equally, whether eq pairs a variant only with itself, whether partial_cmp uses '
         'the same primitive on the same payload as eq, whether cmp has a NaN fallback per float variant and an injective type-tag table, '
         'and whether the temporal structs compare/hash the same field sets field-wise.',
    note='Assumes std primitive impls (integer/bool/String Eq, Ord, Hash) are mutually consistent. One genuine defect was repaired '
         '(fix: -0.0 hashing), one is test-pinned and listed (Interval).',
    design='§4 C21 (plan) and §10.3 (as built)')

CHECKS['C16'] = dict(
    technique='sibling-arm agreement (T8): operation class of the InMemory vs DiskBacked arm of every match on IndexData, from the BTreeMap / BTreeIndex calls each arm makes',
    text='Decides for every function that dispatches on the index backend that both arms perform the same operation class (add one row id, '
         'remove one row id, remove a key, rebuild, point lookup, range lookup); an unknown index call fails closed. This is the '
         'necessary condition for backend independence that holds for all workloads; it found the delete(key) vs remove-one divergence, '
         'now repaired.',
    note='Not decided: the B+tree\'s own behaviour (C17), spill thresholds, swallowed I/O errors in the disk arm.',
    design='§4 C16 (plan) and §10.3 (as built)')

CHECKS['C18'] = dict(
    technique='writer/reader table agreement (T8): tag bijection, per-variant primitive sequences, abstract evaluation of the reader\'s string decision list on every text the writer can emit, field-consumption of persisted structs',
    text='Decides at the level of kinds, hence for all schemas and values: TypeTag ↔ from_u8 bijection; per SqlValue variant the tag and '
         'primitive sequence written = read and the same variant is rebuilt; for every DataType variant each text the binary/JSON writer '
         'can emit (literals and format templates decoded from the compiled fmt::Arguments) is mapped by the reader\'s ordered '
         'equality/starts_with tests to the same variant, and the writer consumes every field; the catalog writers read every field of the '
         'persisted index definition and the readers do not substitute constants; section order of save mirrors load.',
    note='Not decided: equality of values after Display/FromStr (C22), query results after reload, constraints (not in the property text).',
    design='§4 C18 (plan) and §10.3 (as built)')

CHECKS['C19'] = dict(
    technique='alphabet / literal-form agreement (T8) between the dump writer, the statement splitter (mode-flag and per-character switch structure read from MIR), the parser\'s literal arms and the INSERT VALUES evaluator',
    text='Decides that the quote character is doubled and strings are quoted by the writer; that every character the splitter treats as an '
         'escape introducer inside strings (a per-character arm that sets a one-shot flag) is escaped by the writer; that comment skipping '
         'and line handling are not applied inside string literals; that every literal head keyword the writer emits has a parser arm; and '
         'that the signed numeric form is accepted by the INSERT VALUES evaluator. These are alphabet-level facts, so they cover all values.',
    note='Not decided: that INSERT coercion reproduces the exact value (special floats, precision).',
    design='§4 C19 (plan) and §10.3 (as built)')

CHECKS['C06'] = dict(
    technique='visitor-completeness analysis (T9) of the WHERE-pushdown table-reference walker against the Expression ADT; per-variant truthiness-table agreement (T8) of all SELECT-side keep/drop functions',
    text='Decides that every Expression variant with expression children is visited or answered conservatively by the walker that decides '
         'which table a conjunct may be pushed to (children are read from the ADT, so new variants are covered), and that all SELECT-side '
         'functions turning a predicate value into keep/drop share one per-variant table (bool / non-zero / false / error). Also: constant '
         'folding only over literal children, the columnar predicate extractor accepts only what it emits, and no result path of the select '
         'executor forgets the WHERE clause (it is handed to a function or found absent on every path to a successful return).',
    note='Not decided: Kleene semantics of AND/OR/NOT on every value, LIKE/BETWEEN semantics.',
    design='§4 C06 (plan) and §10.3 (as built)')
CHECKS['C09'] = dict(
    technique='per-variant truthiness-table agreement (T8) between SELECT\'s filter and the DML row selectors; error-arm analysis; coercion-before-index-probe check on the PK fast paths',
    text='Decides that DELETE and UPDATE classify the evaluated WHERE value per SqlValue variant exactly as SELECT does and do not swallow '
         'evaluation errors, and that their primary-key fast paths coerce the literal before probing the hash index. Finite table '
         'comparison, hence valid for all predicates and data.',
    note='Not decided: SET expression evaluation on pre-update values, INSERT coercion (value-level).',
    design='§4 C09 (plan) and §10.3 (as built)')

CHECKS['C28'] = dict(
    technique='linear length accounting (T13): abstract interpretation of each encoder arm in the domain of linear forms over symbolic field lengths, path-wise with one symbolic loop iteration and consistent Option cases; protocol layout table (T8)',
    text='Proves for every BackendMessage variant and all field contents that the declared frame length equals 4 + the bytes written after '
         'it (put_u8/i16/i32 = 1/2/4, put_slice = |x|, put_cstring = |s|+1, loops = Σ over the collection, Option = case split), and that '
         'type byte and authentication sub-code match the PostgreSQL v3 table; a new variant or an encoder call the domain does not know '
         'fails closed.',
    note='Not decided: re-parsing by an independent protocol parser; narrowing casts of counts (usize as i16/i32) are reported in the '
         'evidence, not alarmed. Assumes per-element additivity for mixed NULL/non-NULL rows.',
    design='§4 C28 (plan) and §10.3 (as built)')

CHECKS['C29'] = dict(
    technique='dominance analysis of the authenticate coroutine (suspension points re-linked), return-value provenance of the verifiers, call-sequence table of the digest composition',
    text='Decides that AuthenticationOk is only reachable in the trust arm or under the true edge of verify_cleartext/verify_md5 of the '
         'matching method arm, that the verified salt is the salt sent, that unknown methods cannot reach Ok; that the verifiers can only '
         'return true through Argon2 verification resp. a full equality with compute_md5_password(stored, user, salt) and apply no partial '
         'matcher to the client response (strip_prefix("md5") is test-pinned); and that the MD5 digest is composed in protocol order.',
    note='Not decided: Argon2/MD5 correctness (trusted crates), constant-time comparison, password file parsing.',
    design='§4 C29 (plan) and §10.3 (as built)')

CHECKS['C27'] = dict(
    technique='length-hygiene and byte-budget analysis of the wire decoders: range check before cast (taint-style), guaranteed-minimum-length vs consumed-bytes accounting over dominating checks, frame confinement (payload readers on split_to buffers), may-panic inventory',
    text='Decides for decode/decode_startup/read_cstring and all byte streams: the wire length is range-checked before it is cast or used in '
         'arithmetic; every constant-index read, advance(n) and get_iN is covered by the bytes guaranteed by dominating length checks '
         '(including `buf.len() < K + len` with a lower-bounded len) minus the bytes already consumed; payload readers only see a buffer split '
         'off with the frame length; remaining panic-capable constructs are inventoried. Four concrete defects were found this way and repaired.',
    note='Not decided: decode(encode(m)) = m (value-level); tokio/bytes internals are trusted.',
    design='§4 C27 (plan) and §10.3 (as built)')

CHECKS['C25'] = dict(
    technique='deny rule on lossy text operations reachable from the cache-key function; visitor-completeness analysis (T9) of the invalidation table extractor against the Expression/FromClause/SelectStmt ADTs; reachability of both caches from invalidate_table',
    text='Decides that the text→key function applies no case folding / whitespace collapsing to the whole SQL text, that the table extractor '
         'used for invalidation visits every child position that can hold a table reference (children are read from the ADT definitions, so '
         'new variants are covered), and that invalidate_table reaches both caches and folds case. Necessary conditions for never serving a '
         'foreign or stale entry, for all query texts and write interleavings.',
    note='Not decided: that callers invalidate on every write (the cache is not wired into the executors in this tree), views (need the '
         'catalog), 64-bit hash collisions.',
    design='§4 C25 (plan) and §10.3 (as built)')

CHECKS['C02'] = dict(
    technique='symbolic key-expression agreement (T10) over the index maintenance closures; must-precede (T2) of the normaliser before every index probe; field-awareness rule on index choosers; dominance rule for order restoration',
    text='Decides that every key filed in a user index from row values is normalize_for_comparison(apply_prefix_truncation(v, prefix_length)) '
         'at every maintenance site, that range_scan/multi_lookup normalise probe values before touching either backend, that every function '
         'choosing an index for WHERE / ORDER BY / IN-subquery looks at prefix_length (prefix indexes hold truncated keys), and that '
         'execute_index_scan restores table order / reverses for DESC on the right branches. These are necessary conditions of index '
         'independence for all data and queries.',
    note='Not decided: bound arithmetic (inclusive/exclusive, increments), NULL keys, cost model, 2^53 precision of the Double canonical form '
         '(harmless while the WHERE clause is re-applied by the executor).',
    design='§4 C02 (plan) and §10.3 (as built)')

CHECKS['C04'] = dict(
    technique='typed deny/allow inventory of rayon operations (T12); fork analysis of sequential/parallel sort arms with closure MIR fingerprints (sibling agreement); truthiness-table agreement of parallel filters with their sequential siblings (T8)',
    text='Decides, for the default build (feature parallel on), that no scheduling-dependent rayon operation is used (unstable parallel sorts, '
         'par_bridge, for_each*, find_any, reductions), that every parallel sort is paired with the stable sequential sort on the other arm of '
         'the threshold test over the same collection with an identical comparator, and that parallel predicate filters classify predicate '
         'values like their sequential siblings. Necessary conditions of threshold independence for all data and thread schedules.',
    note='Also decided since the build round: chunk-index base of the parallel hash-join build (R5), coverage of hand-made partitions (R6), context carried '
         'into the per-row evaluators of the parallel filters (R7), order-independent resolution of unqualified column names (R4: the "repeated execution" '
         'clause). Not decided: float associativity in SIMD kernels, the cfg(not(parallel)) arms, the order in which rayon concatenates collected chunks '
         '(documented rayon behaviour).',
    design='§4 C04 (plan) and §10.3 (as built)')

CHECKS['C08'] = dict(
    technique='sibling agreement between the two producers of an ordered result (sort comparator vs index order): guard analysis of the "already sorted" claim '
              '(deciding conditions over MIR, closure discriminant reads) and the NULL arms of the sort comparator',
    text='Decides the clause "the order is the same whether it comes from sorting or from an index" as far as it is structural: the sorting path places NULLs '
         'last (checked on compare_sql_values), an index keeps NULL keys first, so every producer of an "already sorted" claim must re-decide the claim under a '
         'test that no ordering column of the fetched rows is NULL. Written from a demonstrated defect (ORDER BY k and ORDER BY k LIMIT n returned the NULL rows '
         'first once an index on k existed); fires on the pre-repair commit. Seven more sibling-agreement / path clauses, each from a demonstrated and '
         'repaired defect: ORDER BY of a set operation orders the combined result; multi-key comparators are lexicographic; LIMIT/OFFSET cut only the '
         'final sequence (decided by "no set operation" and "not DISTINCT or after apply_distinct") and no result path forgets them; NULLS LAST does not '
         'depend on the direction in any ORDER BY comparator; every ORDER BY key builder decides positions; no result path de-duplicates on its own.',
    note='The property was listed as not applicable in the plan; that stands for sortedness of non-NULL keys, the arithmetic of the slice and the distinctness of the '
         'returned rows, which are properties of run-time sequences: decided is where and by whom ordering, cutting and de-duplication are done. Agreement of index key order with the comparator for non-NULL keys is the C02 key pipeline.',
    design='§10.3 C08 (as built) and §10.4')

CHECKS['C05'] = dict(
    technique='layout agreement of delegating join operators (T14: schema vs row order under swapped delegation), construction analysis of the NOT IN -> anti join '
              'condition on the negated path, guard analysis of the EXISTS -> IN decorrelation (deciding conditions over MIR)',
    text='Decides three structural necessary conditions of "rewrites and join algorithms preserve meaning": every join operator builds its result with a schema '
         'rooted at its first input (rows are laid out left, right); the anti join produced for NOT IN carries the IS NULL alternatives of both '
         'operands; NOT EXISTS is never decorrelated to NOT IN. Each rule was written from a defect demonstrated on the pinned tree (wrong column values under '
         'RIGHT JOIN, NOT IN / NOT EXISTS answers under NULLs), fires on the pre-repair commit and passes after the repairs. Later clauses of the same kind: '
         'the OR-branch hash-join analysis records every branch, the outer WHERE is not pushed into a semi/anti join input, both operands of an IN join '
         'condition are qualified, and the subquery rewrites and subquery-to-join conversions leave a subquery with its own LIMIT/OFFSET alone.',
    note='The property was listed as not applicable in the plan (plan equivalence is semantic); that stands for join-order independence and value agreement of '
         'the join algorithms.',
    design='§10.3 C05 (as built) and §10.4')

CHECKS['C03'] = dict(
    technique='gate/clause coverage table of the fast path (T8: every SelectStmt clause handed over, declined, or exempt), comparator fallback analysis over MIR '
              '(no "unknown pair = Equal"), sibling agreement of the MIN/MAX comparator with the row accumulator, COUNT(*) / COUNT(column) specification rule',
    text='Decides four structural necessary conditions of "the columnar aggregate path answers like the row path": the gate neither ignores a result-changing '
         'clause (HAVING, LIMIT, OFFSET, DISTINCT, GROUP BY, set operations), the empty-input shortcut distinguishes COUNT (never NULL), no comparator of the '
         'columnar module declares an unknown pair of value types equal, MIN/MAX use the row accumulator\'s comparator, and COUNT(*) is computed from rows while '
         'COUNT(column) is computed from non-NULL values. Every rule was written from a defect demonstrated on the pinned tree (7 repairs) and fires on the '
         'pre-repair code.',
    note='The property was listed as not applicable in the plan (value-level agreement). That judgement stands for the numeric clauses (sums, averages, result '
         'types: SUM of integers is a DOUBLE on the fast path, SIMD kernels); the clauses above are decided, not the behaviour. NULL handling of columnar predicates '
         'is decided under C06 (null, exact), wrap-around of columnar SUM under C24.',
    design='§10.3 C03 (as built) and §10.4 (why the plan\'s not-applicable was revised)')

CHECKS['C30'] = dict(
    technique='symbolic key/value agreement of the statement cache (T10); state-machine shape rule for the placeholder scanners (quote flag dominates the ? action); exhaustive match tables (T8); dominance rule for the bool-before-int conversion order',
    text='Decides that the statement cache of Cursor::execute is keyed by exactly the text that was parsed (so calls cannot influence each other '
         'through it), that every scanner looking for ? tracks quoted strings, that substitute_placeholders renders every SqlValue variant and '
         'doubles quotes inside string parameters, and that Python bool is recognised before int. Necessary conditions of faithful binding for '
         'all SQL texts, parameter tuples and call sequences.',
    note='Not decided: pyo3 extraction semantics, NaN/inf rendering, equality of values read back.',
    design='§4 C30 (plan) and §10.3 (as built)')

CHECKS['C31'] = dict(
    technique='dominance of the validators over the importers; loop-shape rule for the JSON key validator; per-arm literal rendering table over serde_json::Value (T8) with quote-doubling/quoting sinks (T7); writer/reader alphabet agreement for CSV; Debug-format and constant-header detection on the export producer',
    text='Decides that file-derived column names are validated for every record before an INSERT is generated, that every file-derived value '
         'enters the statement as a quoted literal with doubled quotes or as a JSON number/boolean/null chosen by JSON type, that the generated '
         'statement is the fixed INSERT template, that the CSV reader understands exactly the quoting the CSV writer produces, and whether the '
         'exported cells are value text. Necessary conditions of safe import and of the export/import round trip for all files.',
    note='Not decided: value equality after INSERT coercion (CSV fields are always text literals), file-system errors.',
    design='§4 C31 (plan) and §10.3 (as built)')

CHECKS['C23'] = dict(
    technique='whole-call-graph may-panic inventory over MIR (assert terminators, panicking library calls, explicit panics) with dominance-based discharge rules and a reviewed table (T5); strongly-connected-component analysis of the call graph with depth-guard detection (T6); per-function control-flow cycle analysis for input consumption (loop progress)',
    text='Decides, for everything reachable from Parser::parse_sql, that no construct can panic except those proved safe by a dominating guard '
         'or individually reviewed, that every recursive cycle enforces a nesting limit (today: it does not - two known findings), and that '
         'every loop consumes input on each cycle - also when re-walked under the assumption that the current token is the end of input, where '
         'Parser::advance no longer moves. These hold for all input strings because the inventory is complete for the compiled code.',
    note='Not decided: time bounds beyond progress; recursion when the produced tree is dropped; allocation size (tokens are proportional to input).',
    design='§4 C23 (plan) and §10.3 (as built)')

CHECKS['C22'] = dict(
    technique='may-panic inventory over MIR of everything reachable from the temporal FromStr implementations, with dominance-based discharge rules (guarded index, find()-position slice bounds, is_ascii-guarded byte offsets) and a reviewed table (T5); Display/FromStr separator and field-count agreement (T8)',
    text='Decides the totality clause: no construct reachable from Date/Time/Timestamp/Interval parsing can panic or overflow for any input '
         'text (each is guarded, saturating, or individually reviewed), and the text shape Display writes is the shape FromStr accepts.',
    note='Not decided: equality of the value after format-then-parse (runtime-value property; e.g. negative years).',
    design='§4 C22 (plan) and §10.3 (as built)')

CHECKS['C20'] = dict(
    technique='may-panic and allocation inventory over MIR of the persistence functions reachable from the loaders (T5); taint rule on allocation sizes and loop bounds decoded from the file (T7) with per-loop read-on-every-iteration analysis; recursion components vs depth guards (T6)',
    text='Decides that no construct in the binary/JSON loaders can panic, that no allocation is sized by a number read from the file, that every '
         'loop bounded by a number read from the file either reads (and so stops at end of file) on each iteration or validates the number, '
         'and that the recursive expression reader is depth-limited. These hold for every byte content of the file.',
    note='Not decided: serde_json / zstd internals; zstd::decode_all output size (reported in the evidence); the SQL-dump loader executes statements (C23/C24).',
    design='§4 C20 (plan) and §10.3 (as built)')

CHECKS['C24'] = dict(
    technique='inventory of MIR overflow / division asserts on non-usize integer operands in the arithmetic operators, aggregates, window, columnar, vectorised, SIMD and procedural modules, filtered by call-graph reachability from the statement executors, with dominance-based discharge and a reviewed table (T12/T5 restricted)',
    text='Decides the no-silent-wrap clause: every integer + - * / % and negation on SQL values in those modules is checked or guarded; an '
         'unchecked operation is exactly an Overflow assert in MIR, so the inventory is complete for the compiled code and holds for all values.',
    note='Not decided: panic-freedom of the whole executor (stated in DESIGN), floating-point rounding, calendar arithmetic beyond year 5.8 million (reviewed, listed in the evidence).',
    design='§4 C24 (plan) and §10.3 (as built)')

NOT_APPLICABLE = {
    'C01': 'Equality of result multisets with a reference engine is a value-level semantic equivalence over all queries and data; no structural necessary condition beyond those claimed under C06/C21/C24 exists and a static rule cannot stand in for an oracle.',
    'C07': 'Aggregate definitions on every multiset are numeric results; the only structural prerequisite (hash/equality coherence of group keys) is C21.',
    'C17': 'Ordered-multimap behaviour and well-formedness of the B+tree depend on fill levels and key sizes at run time (splits, merges, borrows); a static shape rule would not be a necessary condition of any clause.',
    'C32': 'View/CTE expansion equals inlining is a semantic equivalence; the schema-from-first-row behaviour is value dependent.',
}

PENDING_REASON = 'static check for this property is not built yet in this tree (see DESIGN.md §4 for the planned structural clause); not claimed until it exists'


def main():
    props = [json.loads(l)['id'] for l in open(os.path.join(VERIF, 'properties.jsonl'))]
    checks = []
    for pid in props:
        if pid not in CHECKS:
            continue
        c = CHECKS[pid]
        checks.append({
            'property_id': pid,
            'quick_cmd': f'./check {pid} --tier quick',
            'thorough_cmd': f'./check {pid} --tier thorough',
            'evidence_file': f'/verif/evidence/{pid}.json',
            'replay_cmd_template': f'./check {pid} --replay {{path}}',
            'engine': 'vsa',
            'level_claimed': {'category': 'other', 'text': c['text'], 'design_ref': c['design']},
            'level_note': NOTE_COMMON + c['note'],
            'technique': c['technique'],
        })
    na = []
    for pid in props:
        if pid in CHECKS:
            continue
        na.append({'property_id': pid, 'reason': NOT_APPLICABLE.get(pid, PENDING_REASON)})
    m = {
        'version': 1,
        'setup_cmd': './setup.sh',
        'hooks': {
            'guard': 'vibesql_verif',
            'enable': 'none needed: the analysis reads the unmodified crates through a rustc wrapper (RUSTC_WORKSPACE_WRAPPER=vsa-driver under cargo +nightly check); no source hooks exist',
            'baseline_off_cmd': 'cd /repo && RUSTC_WRAPPER= cargo nextest run --workspace --no-fail-fast --test-threads 8 --offline || RUSTC_WRAPPER= cargo test --workspace --no-fail-fast --offline',
            'source_commits': [],
            'add_only': True,
        },
        'engines': [{
            'name': 'vsa', 'path': '/verif/vsa',
            'serves_properties': [c['property_id'] for c in checks],
            'kind_free_text': 'static analysis: rustc_private driver exporting MIR/ADT facts of the real build + Python rule engine '
                              '(CFG, dominators, call graph, must-follow/must-precede/no-err-exit path rules, match-arm tables)',
        }],
        'checks': checks,
        'not_applicable': na,
        'notes': 'Static analysis only. Exit 0 = no unlisted violation (KNOWN-FINDING lines for listed genuine defects); exit 1 + VIOLATION line '
                 '= new violation; exit 2 + ANALYSIS-ERROR = the checker can no longer see its anchors (fails closed). '
                 'known_findings.jsonl lists genuine defects reproduced with /verif/triage/vt.',
    }
    with open(os.path.join(VERIF, 'MANIFEST.json'), 'w') as fh:
        json.dump(m, fh, indent=1)
    print(f'MANIFEST.json: {len(checks)} checks, {len(na)} not_applicable')


if __name__ == '__main__':
    main()
