#!/bin/sh
# usage: tools/try_mutant_clone.sh <patch.diff> <Cxx> [Cyy ...]
# like try_mutant.sh, but works on a private clone of /repo's HEAD (/tmp/tmc/repo) with its own fact cache, so that /repo
# may have uncommitted work and other checks may run meanwhile.  The clone is kept between calls (incremental extraction);
# remove /tmp/tmc when done.
patch="$(readlink -f "$1")"; shift
cd /verif || exit 2
mkdir -p /tmp/tmc
if [ ! -d /tmp/tmc/repo ]; then git clone -q /repo /tmp/tmc/repo || exit 2; fi
git -C /tmp/tmc/repo checkout -q -- . && git -C /tmp/tmc/repo fetch -q origin && git -C /tmp/tmc/repo reset -q --hard origin/HEAD
git -C /tmp/tmc/repo apply "$patch" || { echo "PATCH DOES NOT APPLY"; exit 3; }
for p in "$@"; do
  echo "=== $p"
  VSA_REPO=/tmp/tmc/repo VSA_CACHE=/tmp/tmc/cache VSA_OUT_DIR=/tmp/tmc/out ./check "$p" 2>&1 | grep -E "^(VIOLATION|ANALYSIS-ERROR|OK)|^  " | cut -c1-400
done
git -C /tmp/tmc/repo checkout -q -- .
