import json,sys
pid=sys.argv[1]; n=sys.argv[2] if len(sys.argv)>2 else '3'
t=open('/verif/tools/mutation_agent_prompt.txt').read()
for l in open('/verif/properties.jsonl'):
    p=json.loads(l)
    if p['id']==pid:
        s=t.replace('{WT}','/tmp/mut/'+pid).replace('{ID}',pid).replace('{TITLE}',p['title']).replace('{STATEMENT}',p['statement']).replace('{QUANT}',p['quantifier']['text']).replace('{N}',n)
        print(s)
