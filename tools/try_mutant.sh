#!/bin/sh
# usage: tools/try_mutant.sh <patch.diff> <Cxx> [Cyy ...]
# applies the patch to /repo, runs the given checks, always restores /repo.
patch="$(readlink -f "$1")"; shift
cd /verif || exit 2
if ! git -C /repo diff --quiet; then echo "/repo has uncommitted changes"; exit 2; fi
git -C /repo apply "$patch" || { echo "PATCH DOES NOT APPLY"; exit 3; }
for p in "$@"; do
  echo "=== $p"
  ./check "$p" 2>&1 | grep -E "^(VIOLATION|ANALYSIS-ERROR|OK)|^  " | cut -c1-400
done
git -C /repo checkout -- .
