#!/usr/bin/env python3
"""Validate MANIFEST.json and every evidence file against the task's schemas (run with python3-vt: needs jsonschema)."""
import json, glob, sys
import jsonschema
m = json.load(open('/verif/MANIFEST.json'))
jsonschema.validate(m, json.load(open('/root/.vp/MANIFEST.schema.json')))
es = json.load(open('/root/.vp/EVIDENCE.schema.json'))
bad = 0
for c in m['checks']:
    p = c['evidence_file']
    try:
        jsonschema.validate(json.load(open(p)), es)
    except Exception as e:
        bad += 1; print('INVALID', p, str(e)[:200])
print('manifest ok;', len(m['checks']), 'evidence files,', bad, 'invalid')
sys.exit(1 if bad else 0)
