#!/usr/bin/env python3
"""Independent confirmation of seeded changes (run by the maintainer of /verif, not by the sub-agent that
proposed the change).  For each seeded/<id>/<mN>/ directory given:
  1. in a scratch worktree of /repo (HEAD), the demonstration passes on the unmodified tree;
  2. with patch.diff applied the tree builds and the demonstration FAILS;
  3. with the patch applied (demo removed) the repository's pinned test suite is run
     (cargo test --workspace --no-fail-fast --offline, the BASELINE fallback command) and every test of
     BASELINE.json's stable_pass list still passes.
Writes <dir>/meta.json.  Scratch: /tmp/cm (worktree + target dir), removed with --cleanup.
usage: confirm_mutants.py [--cleanup] [--jobs N] seeded/C11/m1 ..."""
import json, os, re, shutil, subprocess, sys, time

WT = '/tmp/cm/wt'
TARGET = '/tmp/cm/target'
ENV = dict(os.environ, RUSTC_WRAPPER='', CARGO_NET_OFFLINE='true', RUST_MIN_STACK='268435456', CARGO_TARGET_DIR=TARGET)


def sh(cmd, cwd=WT, log=None, timeout=7200):
    p = subprocess.run(cmd, cwd=cwd, env=ENV, stdout=subprocess.PIPE, stderr=subprocess.STDOUT, text=True, errors='replace', timeout=timeout)
    if log:
        open(log, 'w').write(p.stdout)
    return p.returncode, p.stdout


def parse(out):
    cur = None; res = {}
    for line in out.splitlines():
        m = re.search(r'Running (?:unittests )?\S+ \(\S*/deps/([A-Za-z0-9_]+)-[0-9a-f]+\)', line)
        if m:
            cur = m.group(1); continue
        m = re.match(r'\s*Doc-tests (\S+)', line)
        if m:
            cur = 'doctest:' + m.group(1).replace('-', '_'); continue
        m = re.match(r'test (\S.*?) \.\.\. (ok|FAILED|ignored)', line)
        if m and cur:
            res[f'{cur}::{m.group(1)}'] = m.group(2)
    return res


def demo_target(d):
    txt = ''
    for f in ('README.md', 'meta.json', 'agent_meta.json'):
        p = os.path.join(d, f)
        if os.path.exists(p):
            txt += open(p, errors='replace').read()
    c = {}
    for m in re.finditer(r'(crates/[a-z-]+/tests|tests)/([a-z0-9_]*demo[a-z0-9_]*)\.rs', txt):
        c[(m.group(1), m.group(2))] = c.get((m.group(1), m.group(2)), 0) + 1
    if not c:
        return ('crates/vibesql-executor/tests', os.path.basename(os.path.dirname(d)).lower() + '_' + os.path.basename(d) + '_demo')
    return max(c, key=c.get)


def package_of(path):
    if path == 'tests':
        return 'vibesql'
    toml = open(os.path.join(WT, os.path.dirname(path), 'Cargo.toml')).read()
    return re.search(r'name\s*=\s*"([^"]+)"', toml).group(1)


DEPENDENTS = {
    'vibesql-types': None, 'vibesql-ast': None, 'vibesql-parser': None, 'vibesql-catalog': None,      # None = whole workspace
    'vibesql-storage': ['vibesql-storage', 'vibesql-executor', 'vibesql', 'vibesql-cli', 'vibesql-server'],
    'vibesql-executor': ['vibesql-executor', 'vibesql', 'vibesql-cli', 'vibesql-server'],
    'vibesql-server': ['vibesql-server'], 'vibesql-cli': ['vibesql-cli'], 'vibesql-python-bindings': ['vibesql-python-bindings'],
}


def scoped_packages(patch):
    crates = set(re.findall(r'^\+\+\+ b/crates/([a-z-]+)/', open(patch).read(), re.M))
    out = []
    for c in crates:
        dep = DEPENDENTS.get(c, None)
        if dep is None:
            return None
        for x in dep:
            if x not in out:
                out.append(x)
    return out


def main():
    args = [a for a in sys.argv[1:] if not a.startswith('--')]
    jobs = '8'
    if '--jobs' in sys.argv:
        jobs = sys.argv[sys.argv.index('--jobs') + 1]
        args = [a for a in args if a != jobs]
    if '--cleanup' in sys.argv:
        subprocess.run(['git', '-C', '/repo', 'worktree', 'remove', '--force', WT])
        shutil.rmtree('/tmp/cm', ignore_errors=True)
        return
    os.makedirs('/tmp/cm', exist_ok=True)
    head = subprocess.run(['git', '-C', '/repo', 'rev-parse', 'HEAD'], stdout=subprocess.PIPE, text=True).stdout.strip()
    if not os.path.exists(WT):
        subprocess.run(['git', '-C', '/repo', 'worktree', 'add', '--detach', WT, head], check=True)
    stable = set(json.load(open('/root/.vp/BASELINE.json'))['stable_pass'])
    for d in args:
        d = os.path.abspath(d)
        t0 = time.time()
        meta = {'property': os.path.basename(os.path.dirname(d)), 'mutant': os.path.basename(d), 'confirmed_against_repo_commit': head}
        for old in ('meta.json', 'agent_meta.json'):
            p = os.path.join(d, old)
            if os.path.exists(p):
                try:
                    j = json.load(open(p))
                    if 'confirmation' in j or 'proposer' in j or 'detection' in j:
                        j = j.get('proposer', {})
                    meta['proposer'] = j
                except Exception:
                    pass
        sh(['git', 'checkout', '-q', '--detach', head]); sh(['git', 'checkout', '--', '.']); sh(['git', 'clean', '-fdq'])
        tdir, tname = demo_target(d)
        pkg = package_of(tdir)
        demo_dst = os.path.join(WT, tdir, tname + '.rs')
        conf = {'demo_installed_as': f'{tdir}/{tname}.rs', 'demo_package': pkg}
        os.makedirs(os.path.dirname(demo_dst), exist_ok=True)
        shutil.copy(os.path.join(d, 'demo.rs'), demo_dst)
        rc, out = sh(['cargo', 'test', '--offline', '-j', jobs, '-p', pkg, '--test', tname])
        conf['demo_on_unmodified_tree'] = 'passes' if rc == 0 else 'FAILS'
        conf['demo_on_unmodified_tree_summary'] = [l for l in out.splitlines() if l.startswith('test result')][-1:] or out.splitlines()[-3:]
        rc, out = sh(['git', 'apply', os.path.join(d, 'patch.diff')])
        conf['patch_applies'] = rc == 0
        if rc == 0:
            rc, out = sh(['cargo', 'test', '--offline', '-j', jobs, '-p', pkg, '--test', tname])
            built = 'error: could not compile' not in out and 'error[E' not in out
            conf['builds_with_patch'] = built
            conf['demo_with_patch'] = 'fails' if (rc != 0 and built) else ('passes' if rc == 0 else 'build error')
            conf['demo_with_patch_failures'] = [l for l in out.splitlines() if re.match(r'test .* FAILED|.*panicked at', l)][:6]
            os.remove(demo_dst)
            suite_cmd = ['cargo', 'test', '--workspace', '--no-fail-fast', '--offline', '-j', jobs]
            scope_note = 'whole workspace'
            if '--scoped' in sys.argv:
                pk = scoped_packages(os.path.join(d, 'patch.diff'))
                if pk:
                    suite_cmd = ['cargo', 'test', '--no-fail-fast', '--offline', '-j', jobs] + [x for p_ in pk for x in ('-p', p_)]
                    scope_note = 'packages that contain or depend on the changed crates: ' + ' '.join(pk)
            rc, out = sh(suite_cmd, log=os.path.join('/tmp/cm', f'{meta["property"]}_{meta["mutant"]}.log'))
            res = parse(out)
            passed = {k for k, v in res.items() if v == 'ok'}
            if '--scoped' in sys.argv and scope_note != 'whole workspace':
                # only the tests of the packages that were run can be compared
                seen_targets = {k.split('::', 1)[0] for k in res}
                stable_here = {t for t in stable if t.split('::', 1)[0] in seen_targets}
            else:
                stable_here = stable
            miss = sorted(stable_here - passed)
            regress = [t for t in miss if res.get(t) == 'FAILED']
            flaky = []
            for t in list(regress):
                # re-run a failed stable test alone (other jobs on this machine share /tmp file names): a pass clears it
                target, name = t.split('::', 1)
                rc2, out2 = sh(['cargo', 'test', '--workspace', '--offline', '-j', jobs, '--test', target, '--', '--exact', name]) if not target.startswith('doctest:') else (1, '')
                if rc2 != 0 and not target.startswith('doctest:'):
                    rc2, out2 = sh(['cargo', 'test', '--workspace', '--offline', '-j', jobs, '--lib', '--', '--exact', name])
                if rc2 == 0 and re.search(r'test result: ok\. [1-9]', out2):
                    regress.remove(t); flaky.append(t)
            conf['suite'] = {'command': 'RUST_MIN_STACK=268435456 ' + ' '.join(suite_cmd), 'scope': scope_note, 'tests_seen': len(res),
                             'passed': len(passed), 'stable_pass_total': len(stable_here),
                             'stable_pass_regressions': regress, 'failed_once_but_pass_alone': flaky,
                             'stable_pass_not_run': len([t for t in miss if t not in res])}
        conf['kept'] = bool(conf.get('patch_applies') and conf.get('builds_with_patch') and conf.get('demo_on_unmodified_tree') == 'passes'
                            and conf.get('demo_with_patch') == 'fails' and not conf.get('suite', {}).get('stable_pass_regressions')
                            and conf.get('suite', {}).get('tests_seen', 0) > (3000 if '--scoped' not in sys.argv else 10))
        conf['wall_s'] = int(time.time() - t0)
        meta['confirmation'] = conf
        prev = {}
        if os.path.exists(os.path.join(d, 'meta.json')):
            try:
                prev = json.load(open(os.path.join(d, 'meta.json')))
            except Exception:
                prev = {}
        if 'detection' in prev:
            meta['detection'] = prev['detection']
        json.dump(meta, open(os.path.join(d, 'meta.json'), 'w'), indent=1)
        print(d, 'kept' if conf['kept'] else 'NOT CONFIRMED', json.dumps({k: v for k, v in conf.items() if k != 'suite'})[:400], conf.get('suite', {}), flush=True)
        sh(['git', 'checkout', '--', '.']); sh(['git', 'clean', '-fdq'])


main()
