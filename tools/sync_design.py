#!/usr/bin/env python3
"""Rewrites the per-property blocks of DESIGN.md §10.3 from the docstrings of vsa/rules/Cxx.py (the docstring is the
statement of what the rule module decides and what it does not), and the "Known findings listed / defects repaired" line
from known_findings.jsonl."""
import importlib, json, re, sys
sys.path.insert(0, '/verif')
p = '/verif/DESIGN.md'
s = open(p).read()
known = {}; fixed = {}
for l in open('/verif/known_findings.jsonl'):
    l = l.strip()
    if not l or l.startswith('#'):
        continue
    d = json.loads(l)
    if 'fixed' in d:
        m = re.match(r'property=(C\d+) ([0-9a-f]{7,10})', d['fixed'])
        if m:
            fixed.setdefault(m.group(1), []).append(m.group(2))
    else:
        known[d['property']] = known.get(d['property'], 0) + 1
n = 0
for m in list(re.finditer(r'#### (C\d\d)\n\n```\n(.*?)```\n\nKnown findings listed: [^\n]*\n', s, re.S)):
    pid = m.group(1)
    try:
        doc = importlib.import_module(f'vsa.rules.{pid}').__doc__.strip()
    except Exception as e:
        print('skip', pid, e); continue
    fx = fixed.get(pid, [])
    line = f'Known findings listed: {known.get(pid, 0)}; defects repaired in /repo: {len(fx)}' + (f' ({", ".join(fx)})' if fx else '')
    new = f'#### {pid}\n\n```\n{doc}\n```\n\n{line}\n'
    if new != m.group(0):
        s = s.replace(m.group(0), new); n += 1
open(p, 'w').write(s)
print('blocks updated:', n)
