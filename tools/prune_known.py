#!/usr/bin/env python3
"""Developer tool (never run by a registered check): rewrite known_findings.jsonl after repairs.
Keys listed in FIXED below are turned into `fixed` records; stale duplicates are dropped."""
import json, sys
FIXED = json.load(open(sys.argv[1]))   # {key: [commit, note]}
out = []; seen = set()
for line in open('/verif/known_findings.jsonl'):
    line = line.strip()
    if not line:
        continue
    d = json.loads(line)
    if 'fixed' in d:
        out.append(d); continue
    k = d['key']
    if k in seen:
        continue
    seen.add(k)
    if k in FIXED:
        c, note = FIXED[k]
        out.append({'fixed': f"property={d['property']} {c} {d['what_fails']} -- {d['demonstration']}", 'property': d['property'], 'keys': [k], 'repair': note})
    elif k in FIXED.get('__drop__', []):
        continue
    else:
        out.append(d)
with open('/verif/known_findings.jsonl', 'w') as fh:
    for d in out:
        fh.write(json.dumps(d) + '\n')
print(len(out), 'records')
