#!/usr/bin/env python3
"""Runs the repository's test suite (cargo test --workspace, the BASELINE fallback command) and compares the
outcome with the stable_pass list of /root/.vp/BASELINE.json.  usage: baseline_compare.py <logfile> [--run]"""
import json, re, subprocess, sys, os
log = sys.argv[1]
if '--run' in sys.argv:
    env = dict(os.environ, RUSTC_WRAPPER='', CARGO_NET_OFFLINE='true', RUST_MIN_STACK='268435456')
    with open(log, 'w') as fh:
        subprocess.run(['cargo', 'test', '--workspace', '--no-fail-fast', '--offline'], cwd='/repo', env=env, stdout=fh, stderr=subprocess.STDOUT)
base = json.load(open('/root/.vp/BASELINE.json'))
stable = set(base['stable_pass'])
cur = None; res = {}
for line in open(log, errors='replace'):
    m = re.search(r'Running (?:unittests )?\S+ \(\S*/deps/([A-Za-z0-9_]+)-[0-9a-f]+\)', line)
    if m:
        cur = m.group(1); continue
    m = re.match(r'\s*Doc-tests (\S+)', line)
    if m:
        cur = 'doctest:' + m.group(1).replace('-', '_'); continue
    m = re.match(r'test (\S.*?) \.\.\. (ok|FAILED|ignored)', line)
    if m and cur:
        res[f'{cur}::{m.group(1)}'] = m.group(2)
passed = {k for k, v in res.items() if v == 'ok'}
failed = {k for k, v in res.items() if v == 'FAILED'}
print('tests seen', len(res), 'passed', len(passed), 'failed', len(failed))
miss = sorted(stable - passed)
print('stable_pass tests not passing now:', len(miss))
nf = [t for t in miss if t in failed]
nr = [t for t in miss if t not in res]
print('  of which FAILED:', len(nf)); [print('    ', t) for t in nf[:60]]
print('  of which not run / not found:', len(nr)); [print('    ', t) for t in nr[:15]]
