//! vt - vibesql triage harness. `vt [script.sql]` (stdin if no arg). See README.md.
//!
//! Every SQL statement is parsed with `vibesql_parser::Parser::parse_sql` and dispatched to the
//! public executor entry points of `vibesql_executor`, the same ones the CLI / server front-ends
//! call. Output is line oriented so that scripts can be diffed.

use std::io::Read;
use std::panic::{catch_unwind, AssertUnwindSafe};
use std::sync::Mutex;

use vibesql_ast::{Statement, TriggerAction, TriggerEvent, TriggerGranularity, TriggerTiming};
use vibesql_catalog::TriggerDefinition;
use vibesql_executor as ex;
use vibesql_executor::advanced_objects as adv;
use vibesql_storage::{database::IndexData, Database};

/// Location of the last panic, filled by the panic hook (the payload carries only the message).
static PANIC_LOC: Mutex<Option<String>> = Mutex::new(None);

enum Out {
    Rows(Vec<vibesql_storage::Row>),
    Count(usize),
    Ddl(String),
    Unsupported(&'static str),
}

struct Vt {
    db: Database,
    /// Use ViewExecutor/TypeExecutor instead of the `advanced_objects` functions the front-ends use.
    altexec: bool,
    /// Print the executor's success message after `OK` for DDL statements.
    verbose: bool,
}

fn main() {
    std::panic::set_hook(Box::new(|info| {
        let loc = info.location().map(|l| format!("{}:{}:{}", l.file(), l.line(), l.column()));
        *PANIC_LOC.lock().unwrap_or_else(|e| e.into_inner()) = loc;
    }));
    let mut src = String::new();
    match std::env::args().nth(1) {
        Some(p) => src = std::fs::read_to_string(&p).unwrap_or_else(|e| {
            eprintln!("vt: cannot read {p}: {e}");
            std::process::exit(2)
        }),
        None => {
            std::io::stdin().read_to_string(&mut src).expect("read stdin");
        }
    }
    let mut vt = Vt { db: Database::new(), altexec: false, verbose: false };
    vt.run_script(&src);
}

fn panic_msg(p: Box<dyn std::any::Any + Send>) -> String {
    let msg = if let Some(s) = p.downcast_ref::<&str>() {
        s.to_string()
    } else if let Some(s) = p.downcast_ref::<String>() {
        s.clone()
    } else {
        "<non-string panic payload>".to_string()
    };
    match PANIC_LOC.lock().unwrap_or_else(|e| e.into_inner()).take() {
        Some(loc) => format!("{msg} @ {loc}"),
        None => msg,
    }
}

fn starts_with_ci(s: &str, prefix: &str) -> bool {
    s.len() >= prefix.len() && s.as_bytes()[..prefix.len()].eq_ignore_ascii_case(prefix.as_bytes())
}

/// `foo` -> `FOO` (what the parser does with unquoted identifiers), `"foo"` -> `foo`.
fn ident(s: &str) -> String {
    if s.len() >= 2 && s.starts_with('"') && s.ends_with('"') {
        s[1..s.len() - 1].to_string()
    } else {
        s.to_uppercase()
    }
}

impl Vt {
    fn run_script(&mut self, src: &str) {
        let mut buf = String::new(); // pending SQL statement
        let mut verbatim: Option<String> = None; // inside .stmt ... .end
        for line in src.lines() {
            let t = line.trim();
            if let Some(v) = verbatim.as_mut() {
                if t == ".end" {
                    let sql = verbatim.take().unwrap();
                    self.run_sql(sql.trim());
                } else {
                    v.push_str(line);
                    v.push('\n');
                }
                continue;
            }
            if buf.is_empty() {
                if t.is_empty() || t.starts_with("--") {
                    continue;
                }
                if t == ".stmt" {
                    verbatim = Some(String::new());
                    continue;
                }
                if t.starts_with('.') {
                    self.dot(t);
                    continue;
                }
            }
            buf.push_str(line);
            buf.push('\n');
            // CREATE TRIGGER bodies contain `;` - such a statement ends only at `END;`.
            let head = buf.trim_start();
            let is_trigger = starts_with_ci(head, "CREATE TRIGGER")
                && head.to_ascii_uppercase().split_whitespace().any(|w| w == "BEGIN");
            let done = if is_trigger {
                let u = t.to_ascii_uppercase();
                u == "END;" || u.ends_with(" END;") || u.ends_with(";END;")
            } else {
                t.ends_with(';')
            };
            if done {
                let sql = std::mem::take(&mut buf);
                self.run_sql(sql.trim());
            }
        }
        if verbatim.is_some() {
            println!("ERR unterminated .stmt block (missing .end)");
        }
        if !buf.trim().is_empty() {
            let sql = std::mem::take(&mut buf);
            self.run_sql(sql.trim()); // last statement without trailing `;`
        }
    }

    fn run_sql(&mut self, sql: &str) {
        println!("> {}", sql.lines().map(str::trim).collect::<Vec<_>>().join(" "));
        let stmt = match catch_unwind(|| vibesql_parser::Parser::parse_sql(sql)) {
            Ok(Ok(s)) => s,
            Ok(Err(e)) => return println!("PARSE-ERR {}", e.message),
            Err(p) => return println!("PANIC (parser) {}", panic_msg(p)),
        };
        match catch_unwind(AssertUnwindSafe(|| self.exec(stmt))) {
            Ok(Ok(Out::Rows(rows))) => {
                for r in &rows {
                    println!("ROW {:?}", r.values);
                }
                println!("ROWS {}", rows.len());
            }
            Ok(Ok(Out::Count(n))) => println!("OK {n}"),
            Ok(Ok(Out::Ddl(msg))) => {
                if self.verbose && !msg.is_empty() { println!("OK -- {msg}") } else { println!("OK") }
            }
            Ok(Ok(Out::Unsupported(v))) => println!("UNSUPPORTED {v}"),
            Ok(Err(e)) => println!("ERR {e} | {e:?}"),
            Err(p) => println!("PANIC {}", panic_msg(p)),
        }
    }

    fn exec(&mut self, stmt: Statement) -> Result<Out, ex::ExecutorError> {
        use Statement as S;
        let db = &mut self.db;
        let unit = |r: Result<(), ex::ExecutorError>| r.map(|()| Out::Ddl(String::new()));
        Ok(match stmt {
            S::Select(s) => match s.into_table.clone() {
                Some(target) => Out::Ddl(ex::SelectIntoExecutor::execute(&s, &target, db)?),
                None => Out::Rows(ex::SelectExecutor::new(db).execute(&s)?),
            },
            S::Insert(s) => Out::Count(ex::InsertExecutor::execute(db, &s)?),
            S::Update(s) => Out::Count(ex::UpdateExecutor::execute(&s, db)?),
            S::Delete(s) => Out::Count(ex::DeleteExecutor::execute(&s, db)?),
            S::TruncateTable(s) => Out::Count(ex::TruncateTableExecutor::execute(&s, db)?),
            S::CreateTable(s) => Out::Ddl(ex::CreateTableExecutor::execute(&s, db)?),
            S::DropTable(s) => Out::Ddl(ex::DropTableExecutor::execute(&s, db)?),
            S::AlterTable(s) => Out::Ddl(ex::AlterTableExecutor::execute(&s, db)?),
            S::CreateIndex(s) => Out::Ddl(ex::CreateIndexExecutor::execute(&s, db)?),
            S::DropIndex(s) => Out::Ddl(ex::DropIndexExecutor::execute(&s, db)?),
            S::Reindex(s) => Out::Ddl(ex::ReindexExecutor::execute(&s, db)?),
            S::Analyze(s) => Out::Ddl(ex::AnalyzeExecutor::execute(&s, db)?),
            S::BeginTransaction(s) => Out::Ddl(ex::BeginTransactionExecutor::execute(&s, db)?),
            S::Commit(s) => Out::Ddl(ex::CommitExecutor::execute(&s, db)?),
            S::Rollback(s) => Out::Ddl(ex::RollbackExecutor::execute(&s, db)?),
            S::Savepoint(s) => Out::Ddl(ex::SavepointExecutor::execute(&s, db)?),
            S::RollbackToSavepoint(s) => Out::Ddl(ex::RollbackToSavepointExecutor::execute(&s, db)?),
            S::ReleaseSavepoint(s) => Out::Ddl(ex::ReleaseSavepointExecutor::execute(&s, db)?),
            S::CreateSchema(s) => Out::Ddl(ex::SchemaExecutor::execute_create_schema(&s, db)?),
            S::DropSchema(s) => Out::Ddl(ex::SchemaExecutor::execute_drop_schema(&s, db)?),
            S::SetSchema(s) => Out::Ddl(ex::SchemaExecutor::execute_set_schema(&s, db)?),
            S::SetCatalog(s) => Out::Ddl(ex::SchemaExecutor::execute_set_catalog(&s, db)?),
            S::SetNames(s) => Out::Ddl(ex::SchemaExecutor::execute_set_names(&s, db)?),
            S::SetTimeZone(s) => Out::Ddl(ex::SchemaExecutor::execute_set_time_zone(&s, db)?),
            S::SetVariable(s) => Out::Ddl(ex::SchemaExecutor::execute_set_variable(&s, db)?),
            S::CreateRole(s) => Out::Ddl(ex::RoleExecutor::execute_create_role(&s, db)?),
            S::DropRole(s) => Out::Ddl(ex::RoleExecutor::execute_drop_role(&s, db)?),
            S::Grant(s) => Out::Ddl(ex::GrantExecutor::execute_grant(&s, db)?),
            S::Revoke(s) => Out::Ddl(ex::RevokeExecutor::execute_revoke(&s, db)?),
            S::CreateDomain(s) => Out::Ddl(ex::DomainExecutor::execute_create_domain(&s, db)?),
            S::DropDomain(s) => Out::Ddl(ex::DomainExecutor::execute_drop_domain(&s, db)?),
            S::CreateTrigger(s) => Out::Ddl(ex::TriggerExecutor::create_trigger(db, &s)?),
            S::AlterTrigger(s) => Out::Ddl(ex::TriggerExecutor::alter_trigger(db, &s)?),
            S::DropTrigger(s) => Out::Ddl(ex::TriggerExecutor::drop_trigger(db, &s)?),
            S::CreateView(s) if self.altexec => Out::Ddl(ex::ViewExecutor::execute_create_view(&s, db)?),
            S::DropView(s) if self.altexec => Out::Ddl(ex::ViewExecutor::execute_drop_view(&s, db)?),
            S::CreateType(s) if self.altexec => Out::Ddl(ex::TypeExecutor::execute_create_type(&s, db)?),
            S::DropType(s) if self.altexec => Out::Ddl(ex::TypeExecutor::execute_drop_type(&s, db)?),
            S::CreateView(s) => unit(adv::execute_create_view(&s, db))?,
            S::DropView(s) => unit(adv::execute_drop_view(&s, db))?,
            S::CreateType(s) => unit(adv::execute_create_type(&s, db))?,
            S::DropType(s) => unit(adv::execute_drop_type(&s, db))?,
            S::CreateSequence(s) => unit(adv::execute_create_sequence(&s, db))?,
            S::AlterSequence(s) => unit(adv::execute_alter_sequence(&s, db))?,
            S::DropSequence(s) => unit(adv::execute_drop_sequence(&s, db))?,
            S::CreateCollation(s) => unit(adv::execute_create_collation(&s, db))?,
            S::DropCollation(s) => unit(adv::execute_drop_collation(&s, db))?,
            S::CreateCharacterSet(s) => unit(adv::execute_create_character_set(&s, db))?,
            S::DropCharacterSet(s) => unit(adv::execute_drop_character_set(&s, db))?,
            S::CreateTranslation(s) => unit(adv::execute_create_translation(&s, db))?,
            S::DropTranslation(s) => unit(adv::execute_drop_translation(&s, db))?,
            S::CreateAssertion(s) => unit(adv::execute_create_assertion(&s, db))?,
            S::DropAssertion(s) => unit(adv::execute_drop_assertion(&s, db))?,
            S::CreateProcedure(s) => unit(adv::execute_create_procedure(&s, db))?,
            S::DropProcedure(s) => unit(adv::execute_drop_procedure(&s, db))?,
            S::CreateFunction(s) => unit(adv::execute_create_function(&s, db))?,
            S::DropFunction(s) => unit(adv::execute_drop_function(&s, db))?,
            S::Call(s) => unit(adv::execute_call(&s, db))?,
            // No public executor entry point exists for these in vibesql_executor.
            S::SetTransaction(_) => Out::Unsupported("SetTransaction"),
            S::DeclareCursor(_) => Out::Unsupported("DeclareCursor"),
            S::OpenCursor(_) => Out::Unsupported("OpenCursor"),
            S::Fetch(_) => Out::Unsupported("Fetch"),
            S::CloseCursor(_) => Out::Unsupported("CloseCursor"),
            S::ShowTables(_) => Out::Unsupported("ShowTables"),
            S::ShowDatabases(_) => Out::Unsupported("ShowDatabases"),
            S::ShowColumns(_) => Out::Unsupported("ShowColumns"),
            S::ShowIndex(_) => Out::Unsupported("ShowIndex"),
            S::ShowCreateTable(_) => Out::Unsupported("ShowCreateTable"),
            S::Describe(_) => Out::Unsupported("Describe"),
        })
    }

    fn dot(&mut self, line: &str) {
        let (cmd, rest) = match line.split_once(char::is_whitespace) {
            Some((c, r)) => (c, r.trim()),
            None => (line, ""),
        };
        if cmd == ".echo" {
            return println!("{rest}");
        }
        if cmd == ".sig" {
            // cache key of a query text
            let sig = vibesql_executor::cache::QuerySignature::from_sql(rest);
            return println!("SIG {:016x}  {}", sig.hash(), rest);
        }
        if cmd == ".extract" {
            // tables the result cache would watch for this statement
            return match vibesql_parser::Parser::parse_sql(rest) {
                Ok(stmt) => {
                    let mut t: Vec<String> = vibesql_executor::cache::extract_tables_from_statement(&stmt).into_iter().collect();
                    t.sort();
                    println!("TABLES {:?}  {}", t, rest)
                }
                Err(e) => println!("PARSE-ERR {:?}", e),
            };
        }
        println!("> {line}");
        let res = catch_unwind(AssertUnwindSafe(|| self.dot_inner(cmd, rest)));
        match res {
            Ok(Ok(())) => {}
            Ok(Err(e)) => println!("ERR {e}"),
            Err(p) => println!("PANIC {}", panic_msg(p)),
        }
    }

    fn dot_inner(&mut self, cmd: &str, arg: &str) -> Result<(), String> {
        let need = |what: &str| if arg.is_empty() { Err(format!("{cmd}: missing {what}")) } else { Ok(()) };
        let on_off = || match arg {
            "on" => Ok(true),
            "off" => Ok(false),
            _ => Err(format!("{cmd}: expected on|off")),
        };
        fn st<T>(r: Result<T, vibesql_storage::StorageError>) -> Result<T, String> {
            r.map_err(|e| format!("{e} | {e:?}"))
        }
        match cmd {
            ".security" => {
                if on_off()? { self.db.enable_security() } else { self.db.disable_security() }
                println!("OK security={}", self.db.is_security_enabled());
            }
            ".role" => {
                // Passed verbatim: roles created through SQL are stored upper-cased.
                self.db.set_role(if arg.is_empty() || arg == "none" { None } else { Some(arg.to_string()) });
                println!("OK role={}", self.db.get_current_role());
            }
            ".altexec" => {
                self.altexec = on_off()?;
                println!("OK");
            }
            ".verbose" => {
                self.verbose = on_off()?;
                println!("OK");
            }
            ".save" => { need("path")?; st(self.db.save(arg))?; println!("OK") }
            ".save_binary" => { need("path")?; st(self.db.save_binary(arg))?; println!("OK") }
            ".save_compressed" => { need("path")?; st(self.db.save_compressed(arg))?; println!("OK") }
            ".save_json" => { need("path")?; st(self.db.save_json(arg))?; println!("OK") }
            ".save_sql" => { need("path")?; st(self.db.save_sql_dump(arg))?; println!("OK") }
            ".load" => { need("path")?; self.db = st(Database::load(arg))?; println!("OK") }
            ".load_binary" => { need("path")?; self.db = st(Database::load_binary(arg))?; println!("OK") }
            ".load_compressed" => { need("path")?; self.db = st(Database::load_compressed(arg))?; println!("OK") }
            ".load_json" => { need("path")?; self.db = st(Database::load_json(arg))?; println!("OK") }
            ".load_sql" => {
                need("path")?;
                self.db = ex::load_sql_dump(arg).map_err(|e| format!("{e} | {e:?}"))?;
                println!("OK");
            }
            ".reset" => { self.db = Database::new(); println!("OK") }
            ".tables" => {
                let mut names = self.db.list_tables();
                names.sort();
                for n in &names {
                    match self.db.get_table(n) {
                        Some(t) => println!("TABLE {n} rows={}", t.row_count()),
                        None => println!("TABLE {n} rows=? (in catalog, no storage)"),
                    }
                }
                println!("TABLES {}", names.len());
            }
            ".indexes" => {
                let mut names = self.db.list_indexes();
                names.sort();
                for n in &names {
                    println!("INDEX {n} {:?}", self.db.get_index(n));
                }
                println!("INDEXES {}", names.len());
            }
            ".triggers" => {
                let mut names = self.db.catalog.list_triggers();
                names.sort();
                for n in &names {
                    if let Some(t) = self.db.catalog.get_trigger(n) {
                        println!("TRIGGER {t:?}");
                    }
                }
                println!("TRIGGERS {}", names.len());
            }
            ".indexdata" => {
                need("index name")?;
                if let Some(meta) = self.db.get_index(arg) {
                    let cols: Vec<_> = meta.columns.iter().map(|c| format!("{c:?}")).collect();
                    println!("INDEX {} table={} unique={} columns=[{}]", meta.index_name, meta.table_name, meta.unique, cols.join(", "));
                }
                match self.db.get_index_data(arg) {
                    None => return Err(format!("no index data for {arg:?}")),
                    Some(IndexData::InMemory { data }) => {
                        for (k, rows) in data {
                            println!("KEY {k:?} -> {rows:?}");
                        }
                        println!("KEYS {} ENTRIES {} (in-memory)", data.len(), data.values().map(Vec::len).sum::<usize>());
                    }
                    Some(d @ IndexData::DiskBacked { .. }) => {
                        let ids = d.range_scan(None, None, true, true);
                        println!("DISK-BACKED row ids in key order: {ids:?}");
                        println!("ENTRIES {} (disk-backed) {d:?}", ids.len());
                    }
                }
            }
            ".rawtrigger" | ".rawtrigger_stmt" => {
                let mut it = arg.splitn(5, char::is_whitespace);
                let mut next = |w: &str| it.next().filter(|s| !s.is_empty()).ok_or(format!(
                    "missing {w}; usage: .rawtrigger <name> <BEFORE|AFTER|INSTEAD> <INSERT|UPDATE|DELETE> <table> <sql...>"));
                let name = ident(next("name")?);
                let timing = match next("timing")?.to_ascii_uppercase().as_str() {
                    "BEFORE" => TriggerTiming::Before,
                    "AFTER" => TriggerTiming::After,
                    "INSTEAD" | "INSTEADOF" | "INSTEAD_OF" => TriggerTiming::InsteadOf,
                    o => return Err(format!("bad timing {o}")),
                };
                let event = match next("event")?.to_ascii_uppercase().as_str() {
                    "INSERT" => TriggerEvent::Insert,
                    "UPDATE" => TriggerEvent::Update(None),
                    "DELETE" => TriggerEvent::Delete,
                    o => return Err(format!("bad event {o}")),
                };
                let table = ident(next("table")?);
                let sql = next("sql")?.trim().to_string();
                let granularity = if cmd == ".rawtrigger_stmt" { TriggerGranularity::Statement } else { TriggerGranularity::Row };
                let def = TriggerDefinition::new(name, timing, event, table, granularity, None, TriggerAction::RawSql(sql));
                println!("TRIGGER {def:?}");
                self.db.catalog.create_trigger(def).map_err(|e| format!("{e} | {e:?}"))?;
                println!("OK");
            }
            _ => return Err(format!("unknown dot-command {cmd}")),
        }
        Ok(())
    }
}
