import sys
exec(open('/tmp/tri/c02gen.py').read().split("open('/tmp/tri/c02_noidx.sql'")[0])
exec(open('/tmp/tri/c02gen2.py').read().split("dml = [")[0].replace('qs = [','qs2 = [',1))
allq = qs + [q for q in qs2 if ' u ' not in q and 'u.' not in q and 'FROM u' not in q]
N=100100
fill=[]
for i in range(100, N, 1000):
    fill.append("INSERT INTO t VALUES " + ",".join(f"({j},{1000+j},'f{j%97}',DATE '2030-01-01',{j}.5)" for j in range(i, min(i+1000,N))) + ";")
base = """CREATE TABLE t (id INT PRIMARY KEY, k INT, s VARCHAR(10), d DATE, f DOUBLE PRECISION);
INSERT INTO t VALUES (1,30,'c',DATE '2024-03-01',1.5),(2,10,'a',DATE '2023-01-01',2.5),(3,NULL,'z',NULL,NULL),(4,20,NULL,DATE '2025-01-01',0.25),(5,10,'b',DATE '2024-01-01',2.5),(6,NULL,'ab',DATE '2024-03-01',-1.0),(7,10,'a',NULL,100.0);
"""
idx = "CREATE INDEX ik ON t(k);\nCREATE INDEX isx ON t(s);\nCREATE INDEX iks ON t(k, s);\nCREATE INDEX idd ON t(d);\nCREATE INDEX iff ON t(f);\n"
qq = [q for q in allq if 'LIKE' not in q]
# restrict queries to the small region to keep outputs small
qq = [q.replace(' ORDER BY id', ' AND id < 100 ORDER BY id') if ' WHERE ' in q and ' ORDER BY id' in q else q for q in qq]
open('/tmp/tri/c16_mem.sql','w').write(base + idx + "\n".join(fill) + "\n.indexes\n" + ';\n'.join(qq) + ';\n')
open('/tmp/tri/c16_disk.sql','w').write(base + "\n".join(fill) + "\n" + idx + ".indexes\n" + ';\n'.join(qq) + ';\n')
print(len(qq))
