qs = [
"SELECT id FROM t WHERE k = 10 AND s = 'a' ORDER BY id",
"SELECT id FROM t WHERE k = 10 AND s IS NULL ORDER BY id",
"SELECT id FROM t WHERE k IS NULL AND s = 'z' ORDER BY id",
"SELECT id FROM t WHERE k = 10 AND s >= 'a' AND s < 'b' ORDER BY id",
"SELECT id FROM t WHERE k >= 10 AND s = 'a' ORDER BY id",
"SELECT id FROM t WHERE k IN (10, 20) AND s IN ('a', 'b') ORDER BY id",
"SELECT id FROM t WHERE (k, s) = (10, 'a') ORDER BY id",
"SELECT id FROM t WHERE k = 10 ORDER BY s DESC, id",
"SELECT id FROM t WHERE k <= 10 ORDER BY k DESC, id",
"SELECT id FROM t WHERE k < 30 AND k IS NOT NULL ORDER BY id",
"SELECT id FROM t WHERE k < 30 OR k IS NULL ORDER BY id",
"SELECT id FROM t WHERE NOT (k < 20) ORDER BY id",
"SELECT id FROM t WHERE k < 20 AND s < 'b' ORDER BY id",
"SELECT id FROM t WHERE k <= 10 AND f <= 2.5 ORDER BY id",
"SELECT t.id, u.id FROM t JOIN u ON t.k = u.k ORDER BY t.id, u.id",
"SELECT t.id, u.id FROM t LEFT JOIN u ON t.k = u.k ORDER BY t.id, u.id",
"SELECT t.id FROM t WHERE t.k IN (SELECT k FROM u) ORDER BY t.id",
"SELECT t.id FROM t WHERE t.k NOT IN (SELECT k FROM u WHERE k IS NOT NULL) ORDER BY t.id",
"SELECT t.id FROM t WHERE t.k IN (SELECT k FROM u WHERE k <= 20) ORDER BY t.id",
"SELECT t.id FROM t WHERE EXISTS (SELECT 1 FROM u WHERE u.k = t.k) ORDER BY t.id",
"SELECT t.id FROM t WHERE t.k < (SELECT MAX(k) FROM u) ORDER BY t.id",
"SELECT id FROM u WHERE k < 15 ORDER BY id",
"SELECT id FROM u WHERE k <= 10 ORDER BY id",
"SELECT COUNT(*) FROM t WHERE k < 100",
"SELECT COUNT(k) FROM t WHERE k < 100",
"SELECT SUM(k) FROM t WHERE k <= 20",
"SELECT k FROM t WHERE k < 100 ORDER BY k LIMIT 2",
"SELECT k FROM t WHERE k < 100 ORDER BY k DESC LIMIT 2",
"SELECT DISTINCT k FROM t WHERE k < 100 ORDER BY k",
"SELECT id FROM t WHERE s <= 'b' ORDER BY id",
"SELECT id FROM t WHERE s < 'zz' AND k < 25 ORDER BY id",
"SELECT id FROM t WHERE d < DATE '2024-06-01' ORDER BY id",
"SELECT id FROM t WHERE d <= DATE '2024-03-01' ORDER BY id",
]
dml = [
"UPDATE t SET f = 9.0 WHERE k < 20",
"SELECT id, f FROM t ORDER BY id",
"DELETE FROM t WHERE k <= 10",
"SELECT id FROM t ORDER BY id",
"UPDATE t SET k = k + 1 WHERE k >= 20",
"SELECT id, k FROM t ORDER BY id",
"DELETE FROM t WHERE s < 'd'",
"SELECT id FROM t ORDER BY id",
]
setup = """CREATE TABLE t (id INT PRIMARY KEY, k INT, s VARCHAR(10), d DATE, f DOUBLE PRECISION);
INSERT INTO t VALUES (1,30,'c',DATE '2024-03-01',1.5),(2,10,'a',DATE '2023-01-01',2.5),(3,NULL,'z',NULL,NULL),(4,20,NULL,DATE '2025-01-01',0.25),(5,10,'b',DATE '2024-01-01',2.5),(6,NULL,'ab',DATE '2024-03-01',-1.0),(7,10,'a',NULL,100.0);
CREATE TABLE u (id INT PRIMARY KEY, k INT);
INSERT INTO u VALUES (1,10),(2,NULL),(3,20),(4,40),(5,10);
"""
idx = """CREATE INDEX ik ON t(k);
CREATE INDEX isx ON t(s DESC);
CREATE INDEX iks ON t(k, s);
CREATE INDEX idd ON t(d);
CREATE INDEX iff ON t(f);
CREATE INDEX iuk ON u(k);
"""
open('/tmp/tri/c02b_noidx.sql','w').write(setup + ';\n'.join(qs+dml) + ';\n')
open('/tmp/tri/c02b_idx.sql','w').write(setup + idx + ';\n'.join(qs+dml) + ';\n')
