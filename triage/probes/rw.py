setup = """CREATE TABLE t (id INT PRIMARY KEY, k INT, v INT);
INSERT INTO t VALUES (1,30,1),(2,10,2),(3,NULL,3),(4,20,NULL),(5,10,5),(6,NULL,6),(7,10,7),(8,0,0);
CREATE TABLE u (id INT PRIMARY KEY, k INT, v INT);
INSERT INTO u VALUES (1,10,5),(2,NULL,1),(3,20,NULL),(4,40,2),(5,10,9);
"""
pairs = [
 ("k IN (SELECT k FROM u)", "k IN (SELECT k FROM u GROUP BY k)"),
 ("k NOT IN (SELECT k FROM u)", "k NOT IN (SELECT k FROM u GROUP BY k)"),
 ("k IN (SELECT k FROM u WHERE v > 1)", "k IN (SELECT k FROM u WHERE v > 1 GROUP BY k)"),
 ("k NOT IN (SELECT k FROM u WHERE v > 1)", "k NOT IN (SELECT k FROM u WHERE v > 1 GROUP BY k)"),
 ("k NOT IN (SELECT k FROM u WHERE k IS NOT NULL)", "k NOT IN (SELECT k FROM u WHERE k IS NOT NULL GROUP BY k)"),
 ("t.k IN (SELECT u.k FROM u WHERE u.v > t.v)", "t.k IN (SELECT u.k FROM u WHERE u.v > t.v GROUP BY u.k)"),
 ("k IN (SELECT k FROM u) AND v > 1", "k IN (SELECT k FROM u GROUP BY k) AND v > 1"),
 ("k IN (SELECT k FROM u) OR v > 5", "k IN (SELECT k FROM u GROUP BY k) OR v > 5"),
 ("v IN (SELECT v FROM u) AND k IN (SELECT k FROM u)", "v IN (SELECT v FROM u GROUP BY v) AND k IN (SELECT k FROM u GROUP BY k)"),
 ("k + 0 IN (SELECT k FROM u)", "k + 0 IN (SELECT k FROM u GROUP BY k)"),
 ("k IN (SELECT k + 0 FROM u)", "k IN (SELECT k + 0 FROM u GROUP BY k)"),
 ("EXISTS (SELECT 1 FROM u WHERE u.k = t.k)", "(SELECT COUNT(*) FROM u WHERE u.k = t.k) > 0"),
 ("NOT EXISTS (SELECT 1 FROM u WHERE u.k = t.k)", "(SELECT COUNT(*) FROM u WHERE u.k = t.k) = 0"),
 ("EXISTS (SELECT 1 FROM u WHERE u.k = t.k AND u.v > t.v)", "(SELECT COUNT(*) FROM u WHERE u.k = t.k AND u.v > t.v) > 0"),
 ("NOT EXISTS (SELECT 1 FROM u WHERE u.k = t.k AND u.v > 1)", "(SELECT COUNT(*) FROM u WHERE u.k = t.k AND u.v > 1) = 0"),
 ("EXISTS (SELECT 1 FROM u WHERE k = t.k)", "(SELECT COUNT(*) FROM u WHERE u.k = t.k) > 0"),
 ("EXISTS (SELECT 1 FROM u WHERE u.k = t.k) AND v > 1", "(SELECT COUNT(*) FROM u WHERE u.k = t.k) > 0 AND t.v > 1"),
 ("EXISTS (SELECT 1 FROM u WHERE u.id = t.id AND u.v > 1)", "(SELECT COUNT(*) FROM u WHERE u.id = t.id AND u.v > 1) > 0"),
 ("EXISTS (SELECT 1 FROM u x WHERE x.k = t.k)", "(SELECT COUNT(*) FROM u x WHERE x.k = t.k) > 0"),
 ("k = ANY (SELECT k FROM u)", "k IN (SELECT k FROM u GROUP BY k)"),
 ("k > ALL (SELECT k FROM u WHERE k IS NOT NULL)", "k > (SELECT MAX(k) FROM u)"),
]
out=[setup]
for a,b in pairs:
    out.append(f".echo PAIR {a} ||| {b}")
    out.append(f"SELECT id FROM t WHERE {a} ORDER BY id;")
    out.append(f"SELECT id FROM t WHERE {b} ORDER BY id;")
    out.append(f"SELECT COUNT(*) FROM t WHERE {a};")
open('/tmp/tri/rw.sql','w').write("\n".join(out)+"\n")
