preds = ["k = 10","k <> 10","k > 10","k < 20","k <= 20","k IS NULL","k IS NOT NULL","k IN (10, 30, NULL)","k NOT IN (10, 30)","k BETWEEN 10 AND 20","k NOT BETWEEN 10 AND 20",
"k = 10 OR s = 'z'","k = 10 AND s > 'a'","s LIKE 'a%'","s >= 'b'","s < 'c'","k = 10.0","k < 15.5","k + 0 = 10","NOT (k = 10)","k > 20 OR k < 10","id = 3","id IN (1, 3, 99)","id > 5","id BETWEEN 2 AND 4",
"f > 1.0","f <= 2.5","d > DATE '2024-01-01'","k = f","k", "k - 10", "s", "NULL", "1", "0", "TRUE", "k IN (SELECT k FROM u)", "k NOT IN (SELECT k FROM u WHERE k IS NOT NULL)", "EXISTS (SELECT 1 FROM u WHERE u.k = t.k)", "k > (SELECT MIN(k) FROM u)"]
setup = """CREATE TABLE t (id INT PRIMARY KEY, k INT, s VARCHAR(10), d DATE, f DOUBLE PRECISION, mark INT);
INSERT INTO t VALUES (1,30,'c',DATE '2024-03-01',1.5,0),(2,10,'a',DATE '2023-01-01',2.5,0),(3,NULL,'z',NULL,NULL,0),(4,20,NULL,DATE '2025-01-01',0.25,0),(5,10,'b',DATE '2024-01-01',2.5,0),(6,NULL,'ab',DATE '2024-03-01',-1.0,0),(7,10,'a',NULL,100.0,0),(8,0,'0',NULL,0.0,0);
CREATE TABLE u (id INT PRIMARY KEY, k INT);
INSERT INTO u VALUES (1,10),(2,NULL),(3,20),(4,40);
"""
idx = "CREATE INDEX ik ON t(k);\nCREATE INDEX isx ON t(s);\nCREATE INDEX iks ON t(k, s);\nCREATE INDEX iff ON t(f);\nCREATE INDEX iuk ON u(k);\n"
def script(with_idx):
    out=[]
    for p in preds:
        out.append(".reset")
        out.append(setup.strip())
        if with_idx: out.append(idx.strip())
        out.append(f".echo PRED {p}")
        out.append(f"SELECT id FROM t WHERE {p} ORDER BY id;")
        out.append(f"UPDATE t SET mark = 1 WHERE {p};")
        out.append("SELECT id FROM t WHERE mark = 1 ORDER BY id;")
        out.append(f"DELETE FROM t WHERE {p};")
        out.append("SELECT id FROM t ORDER BY id;")
    return "\n".join(out)+"\n"
open('/tmp/tri/c09_noidx.sql','w').write(script(False))
open('/tmp/tri/c09_idx.sql','w').write(script(True))
