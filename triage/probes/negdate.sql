CREATE TABLE d (id INT, x DATE);
INSERT INTO d VALUES (1, DATE '0001-06-15');
UPDATE d SET x = x - INTERVAL '2' YEAR;
SELECT x FROM d;
.save_sql /tmp/tri/negdate_dump.sql
.save_json /tmp/tri/negdate.json
.reset
.load_sql /tmp/tri/negdate_dump.sql
SELECT x FROM d;
.reset
.load_json /tmp/tri/negdate.json
SELECT x FROM d;
