CREATE TABLE a (id INT, x INT);
CREATE TABLE b (id INT, y INT);
INSERT INTO a VALUES (1,10),(2,20),(3,NULL);
INSERT INTO b VALUES (1,100),(4,400);
SELECT * FROM a RIGHT JOIN b ON a.id = b.id;
SELECT a.id, a.x, b.id, b.y FROM a RIGHT JOIN b ON a.id = b.id;
SELECT * FROM a RIGHT JOIN b ON a.id = b.id AND a.x > 0;
SELECT * FROM a RIGHT JOIN b ON a.x < b.y;
SELECT * FROM b LEFT JOIN a ON a.id = b.id;
