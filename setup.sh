#!/bin/sh
# Run once in /verif after a fresh restore (offline): build the driver, warm the dependency cache,
# extract facts for the current tree, build fixture facts.
set -e
cd "$(dirname "$0")"
export CARGO_NET_OFFLINE=true
python3 - <<'PY'
import sys
sys.path.insert(0, '.')
from vsa.engine import extract
extract.build_driver()
print('[setup] driver ok')
print('[setup] facts:', extract.ensure_facts())
import os
if os.path.isdir(extract.FIXTURES):
    print('[setup] fixtures:', extract.ensure_fixture_facts())
PY
